(* Idl/AcceptFacts.v — proofs about the accept / reject model Idl/Accept.v against
   the catalogue Idl/Rules.v (property C04), part 1: include cycles, the checker, and
   the rules symbol resolution enforces (duplicate global names including enums,
   undefined / non-type names used as types, unknown base service, typedef cycles).
   The facts about Idl/Resolve.v come from the files of property C05 ([inv], [good],
   [resolve_rec_inv], [find_include_spec], [resolve_file_good], ...). *)
From Coq Require Import List Bool Arith Lia NArith ZArith.
From Coq.Strings Require Import Byte.
From Verif Require Import Base.Bytes Idl.Ast Idl.AstUtil Idl.AstFacts Idl.Resolve Idl.ResolveSpec Idl.ResolveTd
     Idl.ResolveLemmas Idl.ResolveInv Idl.ResolveConst Idl.ResolveProg Idl.ResolveDeref
     Idl.Check Idl.Rules Idl.CheckFacts Idl.Accept.
Import ListNotations.
Local Open Scope resolve_scope.

(* ---------------------------------------------------------------- CircleDetect *)

Lemma search_circle_step p k path x f :
  search_circle k p path x = false -> prog_file p x = Some f ->
  exists k0, k = S k0 /\ memb x path = false /\
             forall h, In h (inc_refs f) -> search_circle k0 p (x :: path) h = false.
Proof.
  destruct k as [|k0]; cbn [search_circle]; [discriminate|]. intros H Pf. rewrite Pf in H.
  destruct (memb x path) eqn:M; [discriminate|]. exists k0. split; [reflexivity|]. split; [reflexivity|].
  exact (existsb_false_inv _ _ H).
Qed.

(* a search that finds nothing at [x] finds nothing at anything reachable from [x],
   with a path that has grown by [x] *)
Lemma search_circle_reach p : forall n x y k path,
  search_circle k p path x = false -> reach_b n p x y = true ->
  exists k' path', search_circle k' p path' y = false /\ incl path path' /\ (x = y \/ In x path').
Proof.
  induction n as [|n IH]; intros x y k path Hs Hr; cbn [reach_b] in Hr.
  - rewrite orb_false_r in Hr. apply beqb_true in Hr. subst. exists k, path. split; [exact Hs|]. split; [apply incl_refl | auto].
  - apply orb_true_iff in Hr. destruct Hr as [Hr|Hr].
    { apply beqb_true in Hr. subst. exists k, path. split; [exact Hs|]. split; [apply incl_refl | auto]. }
    destruct (prog_file p x) as [f|] eqn:Pf; [|discriminate].
    apply existsb_exists in Hr. destruct Hr as (h & Hin & Hr).
    destruct (search_circle_step _ _ _ _ _ Hs Pf) as (k0 & -> & _ & Hall).
    destruct (IH h y k0 (x :: path) (Hall h Hin) Hr) as (k' & path' & S' & I' & _).
    exists k', path'. split; [exact S'|]. split.
    + intros z Hz. apply I'. right. exact Hz.
    + right. apply I'. left. reflexivity.
Qed.

Theorem circle_detect_complete p : circle_detect p = false -> include_cycle p = false.
Proof.
  intros Hc. destruct (include_cycle p) eqn:Hi; [|reflexivity]. exfalso.
  unfold include_cycle, some_file in Hi. apply existsb_exists in Hi. destruct Hi as (fn & _ & Hi).
  apply andb_true_iff in Hi. destruct Hi as (Hr & Hi).
  destruct (prog_file p fn) as [f|] eqn:Pf; [|discriminate].
  apply existsb_exists in Hi. destruct Hi as (h & Hin & Hback).
  unfold circle_detect in Hc. unfold reachable in Hr. destruct p as [|[m mf] rest] eqn:Ep; [discriminate|].
  rewrite <- Ep in *.
  destruct (search_circle_reach p _ _ _ _ _ Hc Hr) as (k1 & path1 & S1 & _ & _).
  destruct (search_circle_step _ _ _ _ _ S1 Pf) as (k2 & -> & _ & Hall).
  destruct (search_circle_reach p _ _ _ _ _ (Hall h Hin) Hback) as (k3 & path3 & S3 & I3 & _).
  destruct (search_circle_step _ _ _ _ _ S3 Pf) as (k4 & -> & M & _).
  assert (In fn path3) by (apply I3; left; reflexivity).
  apply memb_true in H. congruence.
Qed.

(* ---------------------------------------------------------------- what acceptance means *)

Lemma accepts_front p b : accepts p b = AOk ->
  exists r order, front_end p = FrontOk r order /\ backend_stage r order b = None.
Proof.
  unfold accepts. destruct (front_end p) as [r order|why]; [|discriminate].
  destruct (backend_stage r order b) eqn:E; [discriminate|]. eauto.
Qed.

Lemma front_end_ok p r order : front_end p = FrontOk r order ->
  circle_detect p = false /\ check_program p = COk /\ resolve_program p = Ok r /\ dfs_order p = Some order.
Proof.
  unfold front_end, check_program. destruct (circle_detect p); [discriminate|].
  destruct (dfs_order p) as [o|]; [|discriminate].
  destruct (call_all (check_named p) o); [|discriminate].
  destruct (resolve_program p) as [r'|e]; [|discriminate]. intros [= <- <-]. auto.
Qed.

(* ---------------------------------------------------------------- every reachable file is resolved *)

(* the file [f'] stored under [fn] is the result of resolve_file_in on the parsed file,
   with an accumulator that satisfied the invariant of C05 *)
Definition stepped (p d : program) (fn : bytes) (f' : file) : Prop :=
  exists d1 f, prog_file p fn = Some f /\ inv p d1 /\ extends d1 d /\
    (forall i, In i (f_includes f) -> exists hn, in_ref i = Some hn /\ lookup hn d1 <> None) /\
    resolve_file_in d1 f = Ok f'.

Definition traced (p d : program) : Prop := forall fn f', lookup fn d = Some f' -> stepped p d fn f'.

Lemma stepped_mono p d d' fn f' : extends d d' -> stepped p d fn f' -> stepped p d' fn f'.
Proof.
  intros He (d1 & f & Pf & I1 & X1 & T1 & R1). exists d1, f. split; [exact Pf|]. split; [exact I1|].
  split; [eapply extends_trans; eauto|]. auto.
Qed.

Lemma traced_nil p : traced p [].
Proof. intros fn f' H. discriminate. Qed.

Lemma resolve_rec_traced p : forall fuel done fn done',
  inv p done -> traced p done -> resolve_rec fuel p done fn = Ok done' -> traced p done'.
Proof.
  induction fuel as [|k IH]; intros done fn done' Hinv Htr H; cbn [resolve_rec] in H.
  - destruct (lookup fn done) eqn:L; [|discriminate]. injection H as <-. exact Htr.
  - destruct (lookup fn done) eqn:L.
    { injection H as <-. exact Htr. }
    destruct (prog_file p fn) as [f|] eqn:Pf; [|discriminate].
    inv_bind H. rename x into done1.
    assert (Hgo : forall incs d d1, inv p d -> traced p d ->
      (fix go (incs : list include) (d : program) {struct incs} : result program :=
         match incs with
         | [] => Ok d
         | i :: r => match in_ref i with
                     | Some g => d' <- resolve_rec k p d g;; go r d'
                     | None => Error ErrNotParsed
                     end
         end) incs d = Ok d1 ->
      inv p d1 /\ traced p d1 /\ extends d d1 /\
      forall i, In i incs -> exists hn, in_ref i = Some hn /\ lookup hn d1 <> None).
    { induction incs as [|i incs IHi]; intros d d1 Hd Ht Hgo.
      - injection Hgo as <-. split; [exact Hd|]. split; [exact Ht|]. split; [apply extends_refl | intros i []].
      - destruct (in_ref i) as [g|] eqn:Ri; [|discriminate]. inv_bind Hgo.
        destruct (resolve_rec_inv p _ _ _ _ Hd E0) as (I1 & X1 & L1).
        pose proof (IH _ _ _ Hd Ht E0) as T1.
        destruct (IHi _ _ I1 T1 Hgo) as (I2 & T2 & X2 & L2).
        split; [exact I2|]. split; [exact T2|]. split; [eapply extends_trans; eauto|].
        intros j [<-|Hj]; [|apply L2; exact Hj]. exists g. split; [exact Ri|]. eapply extends_some; eauto. }
    destruct (Hgo _ _ _ Hinv Htr E) as (I1 & T1 & X1 & Tg). clear Hgo E.
    destruct (lookup fn done1) eqn:L1; [discriminate|]. inv_bind H. injection H as <-.
    pose proof (resolve_file_good p done1 fn f x I1 Pf Tg E) as Gd.
    destruct (inv_cons p done1 fn f x I1 L1 Pf Gd) as (I2 & X2).
    intros gn g' Hl. cbn [lookup] in Hl. destruct (beqb gn fn) eqn:Eg.
    + apply beqb_true in Eg. subst gn. injection Hl as <-.
      exists done1, f. split; [exact Pf|]. split; [exact I1|]. split; [exact X2|]. split; [exact Tg | exact E].
    + eapply stepped_mono; [exact X2|]. apply T1. exact Hl.
Qed.

Lemma in_inc_targets f h : In h (inc_targets f) <-> exists i, In i (f_includes f) /\ in_ref i = Some h.
Proof.
  unfold inc_targets. rewrite in_flat_map. split.
  - intros (i & Hi & Hh). exists i. split; [exact Hi|]. destruct (in_ref i) as [g|]; [|destruct Hh].
    destruct Hh as [<-|[]]. reflexivity.
  - intros (i & Hi & Hr). exists i. split; [exact Hi|]. rewrite Hr. left. reflexivity.
Qed.

(* the accumulator of a successful run: invariant, trace, and every reachable file *)
Theorem resolve_program_reaches p r : resolve_program p = Ok r ->
  exists done, inv p done /\ traced p done /\
    forall fn, reach p fn -> exists f', lookup fn done = Some f'.
Proof.
  intros H. unfold resolve_program in H. destruct p as [|[mainfn mf] p'] eqn:Ep.
  { exists []. split; [apply inv_nil|]. split; [apply traced_nil|]. intros fn Hr. exfalso. inversion Hr; subst; discriminate. }
  rewrite <- Ep in *. inv_bind H. rename x into done.
  destruct (resolve_rec_inv p _ _ _ _ (inv_nil p) E) as (Hinv & _ & Lm).
  pose proof (resolve_rec_traced p _ _ _ _ (inv_nil p) (traced_nil p) E) as Htr.
  exists done. split; [exact Hinv|]. split; [exact Htr|].
  intros fn Hr. induction Hr as [m' f' rest' E'|a f h Ha IHa Pa Hh].
  - rewrite Ep in E'. injection E' as <- _ _. destruct (lookup mainfn done) as [g|]; [eauto | congruence].
  - destruct IHa as (g' & La). destruct (Hinv a g' La) as (g & Pg & Gd).
    assert (g = f) by congruence. subst g. apply in_inc_targets in Hh. destruct Hh as (i & Hi & Hri).
    destruct (gd_targets _ _ _ _ _ Gd i Hi) as (hn & Hrn & Hl). assert (hn = h) by congruence. subst hn.
    destruct (lookup h done) as [h'|]; [eauto | congruence].
Qed.

(* ... so each reachable file went through resolve_file_in *)
Corollary reachable_stepped p r : resolve_program p = Ok r ->
  forall fn f, reach p fn -> prog_file p fn = Some f ->
  exists d1 f', inv p d1 /\
    (forall i, In i (f_includes f) -> exists hn, in_ref i = Some hn /\ lookup hn d1 <> None) /\
    resolve_file_in d1 f = Ok f'.
Proof.
  intros H fn f Hr Pf. destruct (resolve_program_reaches p r H) as (done & _ & Htr & Hall).
  destruct (Hall fn Hr) as (f' & L). destruct (Htr fn f' L) as (d1 & f0 & Pf0 & I1 & _ & T1 & R1).
  assert (f0 = f) by congruence. subst f0. eauto.
Qed.

(* ---------------------------------------------------------------- DupGlobal *)

Lemma NoDup_dupb l : NoDup l -> dupb beqb l = false.
Proof.
  induction 1 as [|x l Hn _ IH]; [reflexivity|]. cbn [dupb]. rewrite IH, orb_false_r.
  apply existsb_false. intros y Hy. apply beqb_false. intros ->. contradiction.
Qed.

Lemma resolve_file_in_nodup d1 f f' : resolve_file_in d1 f = Ok f' -> dup_global f = false.
Proof.
  unfold resolve_file_in. intros H. inv_bind H. unfold dup_global. apply NoDup_dupb.
  rewrite map_fst_def_names. exact (proj1 (register_file f x E)).
Qed.

(* ---------------------------------------------------------------- type names *)

(* the name of a type occurrence that ResolveType accepts *)
Definition name_ok (done : program) (f : file) (n : bytes) : Prop :=
  match builtin_category n with
  | Some _ => True
  | None =>
    match split_type n with
    | [a] => exists c, lookup a (n2c_of f) = Some c /\ is_type_cat c = true
    | [pre; m] => exists idx c, find_include done is_type_cat pre m (f_includes f) 0 = Some (idx, c)
    | _ => False
    end
  end.

Lemma resolve_ty_names done f : forall t t', resolve_ty done f t = Ok t' ->
  Forall (fun o => name_ok done f (ty_name o)) (ty_occs t).
Proof.
  induction t as [n k v cpp an cat r td IHk IHv] using ty_ind'. intros t' H.
  cbn [resolve_ty] in H. cbn [ty_occs]. destruct (builtin_category n) as [c|] eqn:Bn.
  - assert (Hh : name_ok done f (ty_name (Ty n k v cpp an cat r td))) by (unfold name_ok; cbn [ty_name]; rewrite Bn; exact I).
    destruct c; try (constructor; [exact Hh | constructor]).
    + (* map *)
      destruct k as [kt|]; [|discriminate]. destruct v as [vt|]; [|cbn [bind] in H; inv_bind H; discriminate].
      inv_bind H. constructor; [exact Hh|]. apply Forall_app. split; [eapply IHk; eauto | eapply IHv; eauto].
    + destruct v as [vt|]; [|discriminate]. inv_bind H. constructor; [exact Hh | eapply IHv; eauto].
    + destruct v as [vt|]; [|discriminate]. inv_bind H. constructor; [exact Hh | eapply IHv; eauto].
  - constructor; [|constructor]. unfold name_ok. cbn [ty_name]. rewrite Bn.
    destruct (split_type n) as [|a [|m [|? ?]]] eqn:Sn; try discriminate.
    + destruct (lookup a (n2c_of f)) as [c|] eqn:La; [|discriminate].
      destruct (is_type_cat c) eqn:Tc; [|discriminate]. eauto.
    + destruct (find_include done is_type_cat a m (f_includes f) 0) as [[idx c]|] eqn:Fi; [|discriminate]. eauto.
Qed.

Lemma mapM_In {A B} (g : A -> result B) l l' x : mapM g l = Ok l' -> In x l -> exists y, g x = Ok y.
Proof.
  intros H Hin. destruct (Forall2_In_l _ _ _ _ (mapM_Forall2 _ _ _ H) Hin) as (y & _ & Hy). eauto.
Qed.

Section OneFile.
  Variables (p d1 : program) (fn : bytes) (f f' : file).
  Hypothesis Hinv : inv p d1.
  Hypothesis Hf : prog_file p fn = Some f.
  Hypothesis Htg : forall i, In i (f_includes f) -> exists hn, in_ref i = Some hn /\ lookup hn d1 <> None.
  Hypothesis Hres : resolve_file_in d1 f = Ok f'.

  (* the context ResolveType runs in: registered names, unchanged includes *)
  Definition is_ctx (g : file) : Prop :=
    f_includes g = f_includes f /\
    forall n, lookup n (n2c_of g) = option_map dkind_cat (lookup n (file_defs f)).

  Lemma name_ok_status g n : is_ctx g -> name_ok d1 g n -> type_name_status p fn f n = NsOk.
  Proof.
    intros (Hi & Hn) H. unfold name_ok in H. unfold type_name_status.
    destruct (builtin_category n); [reflexivity|].
    destruct (split_type n) as [|a [|m [|? ?]]]; try contradiction.
    - destruct H as (c & La & Tc). rewrite Hn in La. rewrite (def_of_file p fn f a Hf).
      destruct (lookup a (file_defs f)) as [k|]; [|discriminate]. cbn [option_map] in La. injection La as <-.
      unfold is_type_kind. rewrite Tc. reflexivity.
    - destruct H as (idx & c & Fi). rewrite Hi in Fi.
      destruct (find_include_spec p d1 is_type_cat is_type_kind a m Hinv (fun k => eq_refl) _ _ _ _ Htg Fi) as (gn & k & Hs & _).
      change (map inc_key (f_includes f)) with (file_incs f) in Hs. rewrite Hs. reflexivity.
  Qed.

  Lemma ty_status g t t' : is_ctx g -> resolve_ty d1 g t = Ok t' ->
    forall o, In o (ty_occs t) -> type_name_status p fn f (ty_name o) = NsOk.
  Proof.
    intros Hc H o Ho. pose proof (resolve_ty_names d1 g t t' H) as Hall. rewrite Forall_forall in Hall.
    exact (name_ok_status g _ Hc (Hall o Ho)).
  Qed.

  Lemma field_status g fuel b fd fd' : is_ctx g -> resolve_field fuel d1 g b fd = Ok fd' ->
    forall o, In o (ty_occs (fd_type fd)) -> type_name_status p fn f (ty_name o) = NsOk.
  Proof. intros Hc H. unfold resolve_field in H. apply bind_ok in H. destruct H as (t1 & Ht1 & _). eapply ty_status; eauto. Qed.

  Lemma base_status g sv r : is_ctx g -> resolve_base d1 g sv = Ok r -> base_known p fn f sv = true.
  Proof.
    intros (Hi & Hn) H. unfold resolve_base in H. unfold base_known.
    destruct (split_type (sv_extends sv)) as [|a [|m [|? ?]]]; try reflexivity.
    - rewrite Hn in H. rewrite (def_of_file p fn f a Hf).
      destruct (lookup a (file_defs f)) as [k|]; [|discriminate]. cbn [option_map] in H.
      destruct k as [t| |vs|s|]; cbn [dkind_cat] in H; try discriminate; [destruct s; discriminate | reflexivity].
    - rewrite Hi in H. destruct (find_include d1 is_service_cat a m (f_includes f) 0) as [[idx c]|] eqn:Fi; [|discriminate].
      destruct (find_include_spec p d1 is_service_cat is_service_kind a m Hinv (fun k => eq_refl) _ _ _ _ Htg Fi) as (gn & k & Hs & _).
      change (map inc_key (f_includes f)) with (file_incs f) in Hs. rewrite Hs. reflexivity.
  Qed.

  (* every type occurrence of the parsed file names a type; every base service exists *)
  Lemma file_types_ok :
    (forall o, In o (file_occs f) -> type_name_status p fn f (ty_name o) = NsOk) /\
    unknown_base_service p fn f = false.
  Proof.
    pose proof Hres as H. unfold resolve_file_in in H. inv_bind H. clear H.
    rename x into n2c, x0 into tds1, x1 into cs1, x2 into ss1, x3 into us1, x4 into es1, x5 into sv1.
    set (f0 := with_name2cat f (Some n2c)) in *. set (f1 := with_typedefs f0 tds1) in *.
    assert (C0 : is_ctx f0) by (split; [reflexivity | exact (proj2 (register_file f n2c E))]).
    assert (C1 : is_ctx f1) by (split; [reflexivity | exact (proj2 (register_file f n2c E))]).
    assert (Hsl : forall l l1 s, mapM (resolve_struct_like (enum_fuel d1 f1) d1 f1) l = Ok l1 -> In s l ->
              forall fd o, In fd (sl_fields s) -> In o (ty_occs (fd_type fd)) -> type_name_status p fn f (ty_name o) = NsOk).
    { intros l l1 s Hm Hs fd o Hfd Ho. destruct (mapM_In _ _ _ _ Hm Hs) as (s1 & H1).
      unfold resolve_struct_like in H1. apply bind_ok in H1. destruct H1 as (fs1 & Hfs & _).
      destruct (mapM_In _ _ _ _ Hfs Hfd) as (fd1 & H2). exact (field_status f1 _ _ _ _ C1 H2 o Ho). }
    split.
    - intros o Ho. unfold file_occs in Ho. apply in_flat_map'_iff in Ho. destruct Ho as (t & Ht & Ho).
      unfold file_top_occs in Ht. repeat (apply in_app_or in Ht; destruct Ht as [Ht|Ht]).
      + apply in_map_iff in Ht. destruct Ht as (td & <- & Htd). destruct (mapM_In _ _ _ _ E0 Htd) as (td1 & H1).
        unfold resolve_typedef in H1. apply bind_ok in H1. destruct H1 as (t1 & Ht1 & _). exact (ty_status f0 _ _ C0 Ht1 o Ho).
      + apply in_map_iff in Ht. destruct Ht as (c & <- & Hc). destruct (mapM_In _ _ _ _ E1 Hc) as (c1 & H1).
        unfold resolve_constant in H1. apply bind_ok in H1. destruct H1 as (t1 & Ht1 & _). exact (ty_status f1 _ _ C1 Ht1 o Ho).
      + apply in_map_iff in Ht. destruct Ht as (fd & <- & Hfd). apply in_flat_map'_iff in Hfd.
        destruct Hfd as (s & Hs & Hfd). unfold struct_likes in Hs.
        apply in_app_or in Hs. destruct Hs as [Hs|Hs]; [exact (Hsl _ _ s E2 Hs fd o Hfd Ho)|].
        apply in_app_or in Hs. destruct Hs as [Hs|Hs]; [exact (Hsl _ _ s E3 Hs fd o Hfd Ho) | exact (Hsl _ _ s E4 Hs fd o Hfd Ho)].
      + apply in_flat_map'_iff in Ht. destruct Ht as (sv & Hsv & Ht). apply in_flat_map'_iff in Ht.
        destruct Ht as (fu & Hfu & Ht). destruct (mapM_In _ _ _ _ E5 Hsv) as (sv' & H1).
        unfold resolve_service in H1. apply bind_ok in H1. destruct H1 as (fns1 & Hfns & _).
        destruct (mapM_In _ _ _ _ Hfns Hfu) as (fu' & H2).
        unfold resolve_function in H2. apply bind_ok in H2. destruct H2 as (rt & Hrt & H2).
        apply bind_ok in H2. destruct H2 as (args1 & Hargs & H2). apply bind_ok in H2. destruct H2 as (thr1 & Hthr & _).
        unfold function_top_types in Ht. apply in_app_or in Ht. destruct Ht as [Ht|Ht].
        * destruct (fn_void fu); [destruct Ht|]. destruct Ht as [<-|[]]. exact (ty_status f1 _ _ C1 Hrt o Ho).
        * apply in_map_iff in Ht. destruct Ht as (fd & <- & Hfd). unfold function_fields in Hfd.
          apply in_app_or in Hfd. destruct Hfd as [Hfd|Hfd].
          -- destruct (mapM_In _ _ _ _ Hargs Hfd) as (fd1 & H3). exact (field_status f1 _ _ _ _ C1 H3 o Ho).
          -- destruct (mapM_In _ _ _ _ Hthr Hfd) as (fd1 & H3). exact (field_status f1 _ _ _ _ C1 H3 o Ho).
    - unfold unknown_base_service. apply existsb_false. intros sv Hsv.
      destruct (mapM_In _ _ _ _ E5 Hsv) as (sv' & H1). unfold resolve_service in H1.
      apply bind_ok in H1. destruct H1 as (fns1 & _ & H1). apply bind_ok in H1. destruct H1 as (rb & Hrb & _).
      rewrite (base_status f1 sv rb C1 Hrb). reflexivity.
  Qed.
End OneFile.

(* ---------------------------------------------------------------- typedef cycles *)

Lemma td_iter_unfold j p nd :
  td_iter (S j) p nd = match td_step p nd with Some n' => td_iter j p n' | None => None end.
Proof. reflexivity. Qed.

Lemma td_iter_succ k p : forall node, td_iter (S k) p node =
  match td_iter k p node with Some n' => td_step p n' | None => None end.
Proof.
  induction k as [|k IH]; intros node.
  - rewrite td_iter_unfold. cbn [td_iter]. destruct (td_step p node); reflexivity.
  - rewrite (td_iter_unfold (S k)), (td_iter_unfold k). destruct (td_step p node) as [n'|]; [apply IH | reflexivity].
Qed.

(* a definition that denotes something is not on a typedef cycle *)
Lemma denotes_no_cycle p :
  (forall fn a d, def_denotes p fn a d -> forall k, td_iter (S k) p (fn, a) <> Some (fn, a)) /\
  (forall fn n d, name_denotes p fn n d ->
     forall node, resolve_name p fn n = Some node -> forall k, td_iter (S k) p node <> Some node).
Proof.
  apply denotes_mutind.
  - intros fn n vs Hd k. rewrite td_iter_unfold. unfold td_step. cbn [fst snd]. rewrite Hd. discriminate.
  - intros fn n s Hd k. rewrite td_iter_unfold. unfold td_step. cbn [fst snd]. rewrite Hd. discriminate.
  - intros fn n tgt d Hd _ IH k Hc.
    assert (Hs : td_step p (fn, n) = resolve_name p fn tgt) by (unfold td_step; cbn [fst snd]; rewrite Hd; reflexivity).
    destruct (resolve_name p fn tgt) as [node|] eqn:Rn.
    + apply (IH node eq_refl k). rewrite td_iter_succ.
      rewrite td_iter_unfold, Hs in Hc. rewrite Hc. exact Hs.
    + rewrite td_iter_unfold, Hs in Hc. discriminate.
  - intros fn n c Hb node Hr. unfold resolve_name in Hr. rewrite Hb in Hr. discriminate.
  - intros fn n a d Hb Hs _ IH node Hr. unfold resolve_name in Hr. rewrite Hb, Hs in Hr. injection Hr as <-. exact IH.
  - intros fn f n pre m i gn d Hb Hs Hf Hi _ IH node Hr. unfold resolve_name in Hr.
    rewrite Hb, Hs, Hf, Hi in Hr. injection Hr as <-. exact IH.
Qed.

Lemma good_typedef_denotes p done fn f f' td :
  prog_file p fn = Some f -> good p done fn f f' -> In td (f_typedefs f) ->
  exists d, def_denotes p fn (td_alias td) d.
Proof.
  intros Hf Gd Hin.
  destruct (Forall2_In_l _ _ _ _ (gd_tds _ _ _ _ _ Gd) Hin) as (td' & Hin' & (_ & Hn)).
  assert (Ho : occ_good p fn f (td_type td')).
  { pose proof (gd_occs _ _ _ _ _ Gd) as Ho. rewrite Forall_forall in Ho. apply Ho.
    apply (In_top_occs_file_occs f' (td_type td')); [|apply ty_occs_head].
    unfold file_top_occs. apply in_or_app. left. apply in_map. exact Hin'. }
  destruct (occ_good_denotes p fn f _ Hf Ho) as (d & Hd & _). rewrite Hn in Hd.
  exists d. eapply dd_typedef; [|exact Hd].
  rewrite (def_of_file p fn f _ Hf). apply file_defs_typedef; [exact (gd_nodup _ _ _ _ _ Gd) | exact Hin].
Qed.

Lemma good_no_typedef_cycle p done fn f f' :
  prog_file p fn = Some f -> good p done fn f f' -> typedef_cycle p fn f = false.
Proof.
  intros Hf Gd. unfold typedef_cycle. apply existsb_false. intros td Hin.
  destruct (good_typedef_denotes p done fn f f' td Hf Gd Hin) as (d & Hd).
  unfold on_typedef_cycle. apply existsb_false. intros k _.
  destruct (td_iter (S k) p (fn, td_alias td)) as [n'|] eqn:E; [|reflexivity].
  destruct (node_eqb n' (fn, td_alias td)) eqn:En; [|reflexivity]. exfalso.
  unfold node_eqb in En. apply andb_true_iff in En. destruct En as (E1 & E2). apply beqb_true in E1, E2.
  destruct n' as [a b]. cbn [fst snd] in E1, E2. subst a b.
  exact (proj1 (denotes_no_cycle p) fn (td_alias td) d Hd k E).
Qed.
