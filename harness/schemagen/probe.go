package schemagen

// AddProbe appends a fixed family of definitions to the main file of a program: an element struct
// whose members are mostly optional without a declared default, a union, and a holder with
// lists / sets / maps (also nested) of them. Containers of struct-likes whose neighbouring elements
// set different optional members are what shows state leaking from one decoded element into the
// next (e.g. a reader that reuses one scratch object under value_type_in_container).
// Names are fixed (PrColor, PrElem, PrUnion, PrHolder); call it once per program.
func AddProbe(p *Program) {
	f := p.Files[0]
	q := func(n string) string { return f.Name + "." + n }
	color := &Enum{File: f.Name, Name: "PrColor", Values: []EnumValue{
		{Name: "PR_RED", Value: 1}, {Name: "PR_GREEN", Value: 5}, {Name: "PR_BLUE", Value: -2}}}
	elemT := &Type{Kind: "struct", Name: q("PrElem")}
	unionT := &Type{Kind: "struct", Name: q("PrUnion")}
	str := &Type{Kind: "string"}
	elem := &Struct{File: f.Name, Name: "PrElem", Kind: "struct", Fields: []*Field{
		{ID: 1, Name: "id", Req: "required", ReqText: "required", Type: &Type{Kind: "i32"}},
		{ID: 2, Name: "note", Req: "optional", ReqText: "optional", Type: str},
		{ID: 3, Name: "tags", Req: "optional", ReqText: "optional", Type: &Type{Kind: "list", Elem: str}},
		{ID: 4, Name: "color", Req: "optional", ReqText: "optional", Type: &Type{Kind: "enum", Name: q("PrColor")}},
		{ID: 5, Name: "blob", Req: "optional", ReqText: "optional", Type: &Type{Kind: "binary"}},
		{ID: 6, Name: "big", Req: "optional", ReqText: "optional", Type: &Type{Kind: "i64"}},
		{ID: 7, Name: "ratio", Req: "optional", ReqText: "optional", Type: &Type{Kind: "double"},
			Default: &Lit{Kind: "double", Bits: 0x3ff8000000000000}},
		{ID: 8, Name: "attrs", Req: "optional", ReqText: "optional", Type: &Type{Kind: "map", Key: str, Elem: &Type{Kind: "i32"}}},
		{ID: 9, Name: "child", Req: "optional", ReqText: "optional", Type: elemT},
		{ID: 10, Name: "flag", Req: "default", Type: &Type{Kind: "bool"}},
	}}
	union := &Struct{File: f.Name, Name: "PrUnion", Kind: "union", Fields: []*Field{
		{ID: 1, Name: "a", Req: "optional", Type: &Type{Kind: "i32"}},
		{ID: 2, Name: "b", Req: "optional", Type: str},
		{ID: 3, Name: "c", Req: "optional", Type: &Type{Kind: "list", Elem: &Type{Kind: "i32"}}},
	}}
	holder := &Struct{File: f.Name, Name: "PrHolder", Kind: "struct", Fields: []*Field{
		{ID: 1, Name: "items", Req: "default", Type: &Type{Kind: "list", Elem: elemT}},
		{ID: 2, Name: "by_name", Req: "default", Type: &Type{Kind: "map", Key: str, Elem: elemT}},
		{ID: 3, Name: "uniq", Req: "optional", ReqText: "optional", Type: &Type{Kind: "set", Elem: elemT}},
		{ID: 4, Name: "nested", Req: "default", Type: &Type{Kind: "list", Elem: &Type{Kind: "list", Elem: elemT}}},
		{ID: 5, Name: "groups", Req: "optional", ReqText: "optional",
			Type: &Type{Kind: "map", Key: &Type{Kind: "i32"}, Elem: &Type{Kind: "list", Elem: elemT}}},
		{ID: 6, Name: "choices", Req: "default", Type: &Type{Kind: "list", Elem: unionT}},
		{ID: 7, Name: "umap", Req: "required", ReqText: "required", Type: &Type{Kind: "map", Key: &Type{Kind: "i64"}, Elem: unionT}},
	}}
	f.Defs = append(f.Defs, &Def{Enum: color}, &Def{Struct: elem}, &Def{Struct: union}, &Def{Struct: holder})
}
