(* Wire/RpcFacts.v — proofs about Wire/Rpc.v (property C08).

     read_msg_begin_msg_begin   the strict message header reads back (lenient reader)
     read_app_exc_enc           TApplicationException round trip
     rpc_wf_method              every method of every dispatch table of a well-formed program has its
                                synthesized structs in the env
     args_roundtrip             XArgs written by the client and read into XArgs{} by the processor
     process_declared / recv    one call, server side and client side
     call_roundtrip, handler_sees_args, unknown_method_is_app_exception, oneway_no_reply,
     inherited_dispatch(_chain), wire_message_shape, sequence_of_calls

   Built on Wire/StdFacts.v (write_read, to_w_wf, wire_shape, to_from, field_good) and
   Wire/CodecFacts.v (dec_struct_enc). *)
From Coq Require Import List ZArith Bool Lia.
From Coq.Strings Require Import Byte.
From Verif Require Import Base.Bytes Base.BE Wire.TType Wire.WVal Wire.Codec Wire.CodecFacts
  Wire.Schema Wire.Value Wire.Std Wire.StdFacts Wire.Rpc.
Import ListNotations.
Open Scope Z_scope.

(* ------------------------------------------------------------------ message framing *)

Lemma take_app (a b : bytes) : take (length a) (a ++ b) = Some (a, b).
Proof.
  unfold take. rewrite app_length.
  destruct (Nat.ltb_spec (length a + length b) (length a)) as [H|H]; [lia|].
  rewrite firstn_app, Nat.sub_diag, firstn_all. cbn [firstn]. rewrite app_nil_r.
  rewrite skipn_app, Nat.sub_diag, skipn_all. cbn [skipn app]. reflexivity.
Qed.

Lemma put_be_4_signed z : put_be 4 z = put_be 4 (z - 4294967296).
Proof.
  rewrite (put_be_mod 4 z), (put_be_mod 4 (z - 4294967296)).
  f_equal. change (256 ^ Z.of_nat 4) with 4294967296.
  replace (z - 4294967296) with (z + (-1) * 4294967296) by lia. rewrite Z.mod_add by lia. reflexivity.
Qed.

Theorem read_msg_begin_msg_begin name ty seq rest :
  len_ok name = true -> 0 <= ty < 256 -> in_srange 4 seq ->
  read_msg_begin (msg_begin name ty seq ++ rest) = Some (name, ty, seq, rest).
Proof.
  intros Hname Hty Hseq. unfold msg_begin, read_msg_begin.
  rewrite put_be_4_signed. rewrite <- !app_assoc.
  rewrite get_s_put; [|lia|apply in_srange_4; unfold VERSION_1; lia].
  assert (Hneg : (VERSION_1 + ty - 4294967296 <? 0) = true) by (apply Z.ltb_lt; unfold VERSION_1; lia).
  rewrite Hneg.
  assert (Hu : (VERSION_1 + ty - 4294967296) mod 4294967296 = VERSION_1 + ty).
  { replace (VERSION_1 + ty - 4294967296) with (VERSION_1 + ty + (-1) * 4294967296) by lia.
    rewrite Z.mod_add by lia. apply Z.mod_small. unfold VERSION_1. lia. }
  rewrite Hu.
  assert (Hv : (VERSION_1 + ty) / 65536 * 65536 = VERSION_1).
  { unfold VERSION_1. replace (2147549184 + ty) with (ty + 32769 * 65536) by lia.
    rewrite Z.div_add by lia. rewrite (Z.div_small ty) by lia. reflexivity. }
  rewrite Hv, Z.eqb_refl. cbn [negb].
  rewrite get_count_put by (apply len_ok_srange; assumption).
  rewrite take_app.
  rewrite get_s_put by (try lia; assumption).
  assert (Ht : (VERSION_1 + ty) mod 256 = ty).
  { unfold VERSION_1. replace (2147549184 + ty) with (ty + 8388864 * 256) by lia.
    rewrite Z.mod_add by lia. apply Z.mod_small. lia. }
  rewrite Ht. reflexivity.
Qed.

(* ------------------------------------------------------------------ TApplicationException *)

Lemma msg_fits_len_ok f text : msg_fits f text = true -> len_ok (msg_internal (fn_name f) text) = true.
Proof.
  unfold msg_fits, len_ok, msg_internal. rewrite !app_length. cbn [length].
  intro H. apply Z.ltb_lt in H. apply Z.ltb_lt. lia.
Qed.

Lemma app_exc_wf msg tid : len_ok msg = true -> in_srange 4 tid -> wf (app_exc msg tid).
Proof.
  intros Hm Ht. unfold app_exc. cbn [wf wtype].
  split; [split; [reflexivity | split; [apply in_srange_2; lia | apply len_ok_srange; assumption]]|].
  split; [split; [reflexivity | split; [apply in_srange_2; lia | exact Ht]] | exact I].
Qed.

Theorem read_app_exc_enc msg tid rest :
  len_ok msg = true -> in_srange 4 tid ->
  read_app_exc (enc (app_exc msg tid) ++ rest) = Some (msg, tid, rest).
Proof.
  intros Hm Ht. unfold read_app_exc.
  pose proof (app_exc_wf msg tid Hm Ht) as Hwf. unfold app_exc in *.
  rewrite dec_struct_enc by assumption. reflexivity.
Qed.

(* ------------------------------------------------------------------ env lookups *)

Lemma find_struct_in_nodup l s :
  nodup_names (map s_name l) = true -> In s l -> find_struct_in l (s_name s) = Some s.
Proof.
  induction l as [|a l IH]; intros Hnd Hin; [destruct Hin|].
  cbn [map nodup_names] in Hnd. apply andb_true_iff in Hnd. destruct Hnd as [Hna Hnd].
  cbn [find_struct_in]. destruct Hin as [->|Hin].
  - rewrite beqb_refl. reflexivity.
  - destruct (beqb (s_name s) (s_name a)) eqn:E.
    + exfalso. apply negb_true_iff in Hna.
      assert (Hex : existsb (beqb (s_name a)) (map s_name l) = true).
      { apply existsb_exists. exists (s_name s). split; [apply in_map; assumption|].
        rewrite beqb_sym. exact E. }
      congruence.
    + apply IH; assumption.
Qed.

Lemma find_service_In ss n s : find_service ss n = Some s -> In s ss /\ sv_name s = n.
Proof.
  induction ss as [|a ss IH]; cbn [find_service]; [discriminate|].
  destruct (beqb n (sv_name a)) eqn:E.
  - intro H. injection H as <-. apply beqb_true in E. split; [left; reflexivity | congruence].
  - intro H. destruct (IH H) as [Hin Hn]. split; [right; assumption | assumption].
Qed.

Lemma own_methods_In s m : In m (own_methods s) -> fst m = sv_name s /\ In (snd m) (sv_funs s).
Proof.
  unfold own_methods. intro H. apply in_map_iff in H. destruct H as (f & <- & Hf). cbn. auto.
Qed.

Lemma method_table_In fuel ss : forall n t m,
  method_table fuel ss n = Some t -> In m t ->
  exists s, In s ss /\ fst m = sv_name s /\ In (snd m) (sv_funs s).
Proof.
  induction fuel as [|k IH]; intros n t m Ht Hin; cbn [method_table] in Ht; [discriminate|].
  destruct (find_service ss n) as [s|] eqn:Hs; [|discriminate].
  destruct (find_service_In _ _ _ Hs) as [Hss _].
  destruct (sv_extends s) as [b|].
  - destruct (method_table k ss b) as [tb|] eqn:Hb; [|discriminate]. injection Ht as <-.
    apply in_app_or in Hin. destruct Hin as [Hin|Hin].
    + exists s. destruct (own_methods_In _ _ Hin). auto.
    + eapply IH; eassumption.
  - injection Ht as <-. exists s. destruct (own_methods_In _ _ Hin). auto.
Qed.

Lemma find_method_In tbl name m : find_method tbl name = Some m -> In m tbl /\ fn_name (snd m) = name.
Proof.
  induction tbl as [|a tbl IH]; cbn [find_method]; [discriminate|].
  destruct (beqb name (fn_name (snd a))) eqn:E.
  - intro H. injection H as <-. apply beqb_true in E. split; [left; reflexivity | congruence].
  - intro H. destruct (IH H). split; [right; assumption | assumption].
Qed.

Lemma synth_In e ss s f : In s ss -> In f (sv_funs s) ->
  In (args_schema (sv_name s, f)) (structs (rpc_env e ss)) /\
  In (result_schema (sv_name s, f)) (structs (rpc_env e ss)).
Proof.
  intros Hs Hf. cbn [rpc_env structs].
  split; apply in_or_app; right; apply in_flat_map; exists s; (split; [assumption|]);
    unfold synth_of; apply in_flat_map; exists f; (split; [assumption|]); cbn [In]; auto.
Qed.

(* what rpc_wf gives for one method of a dispatch table *)
Record method_ok (E : env) (m : method) : Prop := {
  mo_args : find_struct E (s_name (args_schema m)) = Some (args_schema m);
  mo_res : find_struct E (s_name (result_schema m)) = Some (result_schema m);
  mo_fun : fun_ok (snd m) = true
}.

Lemma rpc_wf_env e ss : rpc_wf e ss = true -> wf_env (rpc_env e ss) = true.
Proof. unfold rpc_wf. rewrite !andb_true_iff. tauto. Qed.

Lemma rpc_wf_method e ss fuel n t m :
  rpc_wf e ss = true -> method_table fuel ss n = Some t -> In m t -> method_ok (rpc_env e ss) m.
Proof.
  intros Hwf Ht Hin. destruct (method_table_In _ _ _ _ _ Ht Hin) as (s & Hs & Hown & Hf).
  unfold rpc_wf in Hwf. rewrite !andb_true_iff in Hwf. destruct Hwf as [[_ Hnd] Hfun].
  destruct m as [o f]. cbn [fst snd] in *. subst o.
  destruct (synth_In e ss s f Hs Hf) as [Ha Hr].
  constructor.
  - unfold find_struct. apply find_struct_in_nodup; assumption.
  - unfold find_struct. apply find_struct_in_nodup; assumption.
  - cbn [snd]. rewrite forallb_forall in Hfun. specialize (Hfun s Hs).
    rewrite forallb_forall in Hfun. apply Hfun. assumption.
Qed.

(* ------------------------------------------------------------------ reading a fully written struct
   into an arbitrary object: every field is overwritten, the start state does not matter *)

Lemma read_fold_all E s : NoDup (map f_id (s_fields s)) ->
  forall todo ftodo done fdone seen ini,
    s_fields s = fdone ++ ftodo ->
    map fst done = map f_id fdone ->
    map fst todo = map f_id ftodo ->
    map fst ini = map f_id ftodo ->
    Forall (fun p => forall f, find_field (fst p) (s_fields s) = Some f ->
                               field_good E s f p /\ is_optional f = false) todo ->
    exists ofs seen',
      mapM (wfield_fn E s) todo = Ok ofs /\
      foldM (read_step E s) (cat_somes ofs) (done ++ ini, seen)
        = Ok (done ++ map (norm_fn E s) todo, seen') /\
      (forall id, In id seen -> In id seen') /\
      (forall f, In f ftodo -> is_required f = true -> In (f_id f) seen').
Proof.
  intros Hnd. induction todo as [|p todo IH]; intros ftodo done fdone seen ini Hsplit Hdone Htodo Hini Hgood.
  - destruct ftodo; [|discriminate]. destruct ini; [|discriminate].
    exists [], seen. cbn. repeat split; auto. intros f [].
  - destruct ftodo as [|f ftodo]; [discriminate|]. destruct ini as [|i0 ini]; [discriminate|].
    cbn [map] in Htodo, Hini. injection Htodo as Hid Htodo. injection Hini as Hi0 Hini.
    inversion Hgood as [|? ? Hp Hrest]; subst.
    assert (Hnotdone : ~ In (f_id f) (map f_id fdone)).
    { rewrite Hsplit, map_app in Hnd. cbn [map] in Hnd. apply NoDup_remove_2 in Hnd.
      intro H. apply Hnd. apply in_or_app. left. exact H. }
    assert (Hnotrest : ~ In (f_id f) (map f_id ftodo)).
    { rewrite Hsplit, map_app in Hnd. cbn [map] in Hnd. apply NoDup_remove_2 in Hnd.
      intro H. apply Hnd. apply in_or_app. right. exact H. }
    assert (Hfind : find_field (f_id f) (s_fields s) = Some f).
    { rewrite Hsplit, find_field_app_skip by assumption. apply find_field_head. }
    rewrite Hid in Hp. destruct (Hp f Hfind) as [(ow & How & Hshape) Hnopt].
    assert (Hsplit' : s_fields s = (fdone ++ [f]) ++ ftodo) by (rewrite <- app_assoc; exact Hsplit).
    destruct ow as [[[t' id] x]|].
    + destruct Hshape as (-> & -> & _ & v' & Hr & Hn).
      assert (Hdone' : map fst (done ++ [norm_fn E s p]) = map f_id (fdone ++ [f])).
      { rewrite !map_app, Hdone. cbn. rewrite norm_fn_fst, Hid. reflexivity. }
      destruct (IH ftodo (done ++ [norm_fn E s p]) (fdone ++ [f])
                  (if is_required f then f_id f :: seen else seen) ini Hsplit' Hdone' Htodo Hini Hrest)
        as (ofs & seen' & Hm & Hfold & Hmono & Hreq).
      exists (Some (ttype_of E (f_ty f), f_id f, x) :: ofs), seen'.
      split; [cbn [mapM]; rewrite How, Hm; reflexivity|].
      split.
      * cbn [cat_somes foldM].
        rewrite (read_step_field E s f x v' _ Hfind Hr). cbn [fst snd].
        rewrite set_field_app. rewrite (set_field_notin _ _ done) by (rewrite Hdone; assumption).
        destruct i0 as [i0id i0v]. cbn [fst] in Hi0. subst i0id.
        cbn [set_field map fst]. rewrite Z.eqb_refl.
        change (map (fun p0 : Z * value => if fst p0 =? f_id f then (fst p0, wrap_slot f v') else p0) ini)
          with (set_field (f_id f) (wrap_slot f v') ini).
        rewrite set_field_notin by (rewrite Hini; assumption).
        rewrite Hn in Hfold. rewrite Hid in Hfold. rewrite <- app_assoc in Hfold. cbn [app] in Hfold.
        rewrite Hfold. rewrite Hn, Hid, <- app_assoc. reflexivity.
      * split.
        -- intros id0 Hin. apply Hmono. destruct (is_required f); [right|]; assumption.
        -- intros g [<-|Hg] Hrq; [|apply Hreq; assumption].
           apply Hmono. rewrite Hrq. left. reflexivity.
    + destruct Hshape as (Hopt & _). congruence.
Qed.

Lemma struct_wt_parts E s fs :
  find_struct E (s_name s) = Some s -> wt E s (VStruct fs) = true ->
  map fst fs = map f_id (s_fields s) /\ Forall (fun p => slot_ok E s p = true) fs /\
  (is_union s && negb (count_set (s_fields s) fs =? 1)%nat = false).
Proof.
  intros Hs Hwt. pose proof (wt_wt_val _ _ _ Hwt) as H. rewrite wt_struct_eq, Hs in H.
  apply andb_true_iff in H. destruct H as [H Hun]. apply andb_true_iff in H. destruct H as [Hids Hslots].
  split; [apply list_eqbZ_eq; assumption|]. split; [apply forallb_Forall; assumption|].
  destruct (is_union s); [|reflexivity]. rewrite Hun. reflexivity.
Qed.

Lemma slots_good E s fs :
  wf_env E = true -> Forall (fun p => slot_ok E s p = true) fs ->
  Forall (fun p => forall f, find_field (fst p) (s_fields s) = Some f -> field_good E s f p) fs.
Proof.
  intros Henv H. eapply Forall_impl; [|exact H]. intros p Hok f Hf.
  apply field_good_intro; try assumption.
  - apply to_from. assumption.
  - intros x _. apply to_from. assumption.
Qed.

(* the processor reads XArgs into XArgs{} (no defaults applied); since no argument is optional,
   every field is on the wire and the start object does not matter *)
Theorem args_roundtrip E s fs ini :
  wf_env E = true -> find_struct E (s_name s) = Some s ->
  forallb (fun a => negb (is_optional a)) (s_fields s) = true ->
  wt E s (VStruct fs) = true ->
  map fst ini = map f_id (s_fields s) ->
  exists wfs, to_wire E s (VStruct fs) = Ok (WStruct wfs) /\
              from_wire E s (VStruct ini) (WStruct wfs) = Ok (norm_struct E s (VStruct fs)).
Proof.
  intros Henv Hs Hnopt Hwt Hini.
  destruct (struct_wt_parts _ _ _ Hs Hwt) as (Hids & Hslots & Hu).
  pose proof (wf_struct_nodup _ (wf_env_struct _ _ _ Henv Hs)) as Hnd.
  assert (Hgood : Forall (fun p => forall f, find_field (fst p) (s_fields s) = Some f ->
                                   field_good E s f p /\ is_optional f = false) fs).
  { eapply Forall_impl; [|exact (slots_good _ _ _ Henv Hslots)]. intros p Hp f Hf. split; [apply Hp; assumption|].
    rewrite forallb_forall in Hnopt. destruct (find_field_In _ _ _ Hf) as [Hin _].
    specialize (Hnopt f Hin). apply negb_true_iff in Hnopt. exact Hnopt. }
  destruct (read_fold_all E s Hnd fs (s_fields s) [] [] [] ini eq_refl eq_refl Hids Hini Hgood)
    as (ofs & seen' & Hm & Hfold & _ & Hreq).
  exists (cat_somes ofs). split.
  - unfold to_wire. rewrite to_w_struct, Hs. cbn zeta. rewrite Hu, Hm. reflexivity.
  - unfold from_wire. cbn [app] in Hfold. rewrite Hfold. cbn [bind]. unfold finish_read. cbn [fst snd].
    rewrite first_missing_none by (intros f Hin Hr; apply Hreq; assumption).
    unfold norm_struct. rewrite norm_struct_eq, Hs. reflexivity.
Qed.

Theorem args_roundtrip_bytes E s fs ini :
  wf_env E = true -> find_struct E (s_name s) = Some s ->
  forallb (fun a => negb (is_optional a)) (s_fields s) = true ->
  wt E s (VStruct fs) = true ->
  map fst ini = map f_id (s_fields s) ->
  exists wfs, write_bytes E s (VStruct fs) = Ok (enc (WStruct wfs)) /\
              to_wire E s (VStruct fs) = Ok (WStruct wfs) /\
              forall rest, read_bytes E s (VStruct ini) (enc (WStruct wfs) ++ rest) = Ok (norm_struct E s (VStruct fs)).
Proof.
  intros Henv Hs Hnopt Hwt Hini.
  destruct (args_roundtrip E s fs ini Henv Hs Hnopt Hwt Hini) as (wfs & Hw & Hr).
  exists wfs. split; [unfold write_bytes; rewrite Hw; reflexivity|]. split; [assumption|].
  intro rest. unfold read_bytes.
  destruct (to_w_wf E Henv (VStruct fs) _ _ _ (wt_wt_val _ _ _ Hwt) Hw) as [Hwf _].
  rewrite dec_struct_enc by assumption. exact Hr.
Qed.

(* a struct-like without defaults: NewX() is the zero object *)
Lemma zero_is_new E s :
  forallb (fun g => negb (has_default g)) (s_fields s) = true -> zero_struct E s = new_struct E s.
Proof.
  intro H. unfold zero_struct, new_struct, zero_fields, new_fields. f_equal. apply map_ext_in.
  intros g Hin. rewrite forallb_forall in H. specialize (H g Hin). unfold init_slot, has_default in *.
  destruct (f_default g); [discriminate | reflexivity].
Qed.

(* ------------------------------------------------------------------ fields addressed by id *)

Lemma find_field_nodup l g : NoDup (map f_id l) -> In g l -> find_field (f_id g) l = Some g.
Proof.
  induction l as [|a l IH]; intros Hnd Hin; [destruct Hin|].
  cbn [map] in Hnd. inversion Hnd as [|? ? Hna Hnd']; subst.
  destruct Hin as [->|Hin]; [apply find_field_head|].
  cbn [find_field]. destruct (Z.eqb_spec (f_id g) (f_id a)) as [E|E].
  - exfalso. apply Hna. rewrite <- E. apply in_map. assumption.
  - apply IH; assumption.
Qed.

Lemma slot_of_map (X : field -> value) l g :
  NoDup (map f_id l) -> In g l -> slot_of (f_id g) (map (fun x => (f_id x, X x)) l) = X g.
Proof.
  unfold slot_of. induction l as [|a l IH]; intros Hnd Hin; [destruct Hin|].
  cbn [map] in Hnd. inversion Hnd as [|? ? Hna Hnd']; subst.
  cbn [map find fst]. destruct Hin as [->|Hin].
  - rewrite Z.eqb_refl. reflexivity.
  - destruct (Z.eqb_spec (f_id a) (f_id g)) as [E|E].
    + exfalso. apply Hna. rewrite E. apply in_map. assumption.
    + apply IH; assumption.
Qed.

(* the inner part of Std.norm on one slot *)
Definition norm_slot (E : env) (g : field) (v : value) : value :=
  if present g v then
    (if base_ptr g then match v with VSome x => VSome (norm E (f_ty g) x) | o => o end
     else norm E (f_ty g) v)
  else init_slot g.

Lemma map_norm_fn_fields E s (X : field -> value) :
  NoDup (map f_id (s_fields s)) ->
  map (norm_fn E s) (map (fun g => (f_id g, X g)) (s_fields s)) =
  map (fun g => (f_id g, norm_slot E g (X g))) (s_fields s).
Proof.
  intro Hnd. rewrite map_map. apply map_ext_in. intros g Hin.
  unfold norm_fn, norm_slot. cbn [fst snd]. rewrite (find_field_nodup _ _ Hnd Hin).
  destruct (present g (X g)); [|reflexivity].
  destruct (base_ptr g); [|reflexivity]. destruct (X g); reflexivity.
Qed.

Lemma norm_not_nil E t v : is_nil v = false -> is_nil (norm E t v) = false.
Proof.
  destruct v; cbn [norm is_nil]; intro H; try reflexivity; try discriminate.
  - destruct t; reflexivity.
  - destruct t; reflexivity.
  - destruct t; reflexivity.
  - destruct t; try reflexivity. destruct (find_struct E name); reflexivity.
Qed.

(* arguments: no field optional, so every slot is normalised in place *)
Lemma norm_args_fields E s : NoDup (map f_id (s_fields s)) ->
  forallb (fun a => negb (is_optional a)) (s_fields s) = true ->
  forall pre l args, s_fields s = pre ++ l ->
    map snd (map (norm_fn E s) (combine (map f_id l) args)) =
    map (fun p => norm E (f_ty (fst p)) (snd p)) (combine l args).
Proof.
  intros Hnd Hno pre l. revert pre. induction l as [|a l IH]; intros pre args Hsplit; [reflexivity|].
  destruct args as [|v args]; [reflexivity|]. cbn [map combine fst snd]. f_equal.
  - assert (Hin : In a (s_fields s)) by (rewrite Hsplit; apply in_or_app; right; left; reflexivity).
    unfold norm_fn. cbn [fst snd]. rewrite (find_field_nodup _ _ Hnd Hin).
    rewrite forallb_forall in Hno. specialize (Hno a Hin). apply negb_true_iff in Hno.
    unfold present, base_ptr. rewrite Hno. reflexivity.
  - apply (IH (pre ++ [a])). rewrite <- app_assoc. exact Hsplit.
Qed.

(* ------------------------------------------------------------------ the result struct *)

Definition rslot (set : option (Z * value)) (g : field) : value :=
  match set with
  | Some (id, slot) => if f_id g =? id then slot else zero_slot g
  | None => zero_slot g end.

Lemma result_value_eq f set :
  result_value f set = VStruct (map (fun g => (f_id g, rslot set g)) (result_fields f)).
Proof. reflexivity. Qed.

(* fields of a synthesized result: optional, no default *)
Definition res_field_ok (g : field) : bool := is_optional g && negb (has_default g).

Lemma result_fields_ok f : fun_ok f = true -> forallb res_field_ok (result_fields f) = true.
Proof.
  unfold fun_ok. rewrite !andb_true_iff. intros [[[_ _] Hth] _].
  unfold result_fields. rewrite forallb_app. apply andb_true_iff. split.
  - destruct (fn_ret f); reflexivity.
  - rewrite forallb_forall in *. intros g Hin. specialize (Hth g Hin).
    rewrite !andb_true_iff in Hth. unfold res_field_ok. destruct Hth as [[-> ->] _]. reflexivity.
Qed.

Lemma res_field_no_default f : fun_ok f = true ->
  forallb (fun g => negb (has_default g)) (result_fields f) = true.
Proof.
  intro H. pose proof (result_fields_ok f H) as Hr. rewrite forallb_forall in *.
  intros g Hin. specialize (Hr g Hin). unfold res_field_ok in Hr. apply andb_true_iff in Hr. tauto.
Qed.

Lemma res_not_ptr g : res_field_ok g = true -> base_ptr g = false ->
  zero_val (f_ty g) = VNil /\ negb (is_base (f_ty g)) || is_binary (f_ty g) = true.
Proof.
  unfold res_field_ok, base_ptr. intro H. apply andb_true_iff in H. destruct H as [-> ->]. cbn [andb].
  destruct (f_ty g); cbn; intro; try discriminate; split; reflexivity.
Qed.

Lemma res_zero E g : res_field_ok g = true -> zero_slot g = VNil /\ norm_slot E g VNil = VNil.
Proof.
  intro H. assert (Hz : zero_slot g = VNil).
  { unfold zero_slot. destruct (base_ptr g) eqn:Eb; [reflexivity|]. apply (res_not_ptr g H Eb). }
  split; [exact Hz|].
  unfold norm_slot, present, isset, init_slot. unfold res_field_ok in H. apply andb_true_iff in H.
  destruct H as [Ho Hd]. rewrite Ho. unfold has_default in Hd. destruct (f_default g); [discriminate|].
  cbn. exact Hz.
Qed.

(* what may be assigned to a result field *)
Definition slot_fits (E : env) (g : field) (slot : value) : Prop :=
  if base_ptr g then exists x, slot = VSome x /\ wt_val E false (f_ty g) x = true
  else is_nil slot = true \/ wt_val E false (f_ty g) slot = true.

Definition set_fits (E : env) (f : function) (set : option (Z * value)) : Prop :=
  match set with
  | None => True
  | Some (id, slot) => forall g, In g (result_fields f) -> f_id g = id -> slot_fits E g slot
  end.

Lemma result_wt E m set :
  find_struct E (s_name (result_schema m)) = Some (result_schema m) ->
  NoDup (map f_id (result_fields (snd m))) ->
  forallb res_field_ok (result_fields (snd m)) = true ->
  set_fits E (snd m) set ->
  wt E (result_schema m) (result_value (snd m) set) = true.
Proof.
  intros Hs Hnd Hok Hfit. unfold wt. rewrite Hs, result_value_eq. cbn [andb].
  rewrite wt_struct_eq, Hs. cbn [result_schema s_fields is_union s_kind].
  rewrite andb_true_r. apply andb_true_iff. split.
  - apply list_eqbZ_eq. rewrite map_map. reflexivity.
  - apply forallb_forall. intros p Hp. apply in_map_iff in Hp. destruct Hp as (g & <- & Hin).
    unfold slot_ok. cbn [fst snd result_schema s_fields]. rewrite (find_field_nodup _ _ Hnd Hin).
    rewrite forallb_forall in Hok. specialize (Hok g Hin).
    assert (Hopt : is_optional g = true) by (unfold res_field_ok in Hok; apply andb_true_iff in Hok; tauto).
    assert (Hzero : zero_slot g = VNil) by (apply (res_zero E g Hok)).
    assert (Hnil : forall v, is_nil v = true -> base_ptr g = false ->
                     (if is_optional g && is_nil v then negb (is_base (f_ty g)) || is_binary (f_ty g)
                      else wt_val E false (f_ty g) v) = true).
    { intros v Hv Hb. rewrite Hopt, Hv. cbn [andb]. apply (res_not_ptr g Hok Hb). }
    assert (Hz : (if base_ptr g then match VNil with VNil => true | VSome x => wt_val E false (f_ty g) x | _ => false end
                  else if is_optional g && is_nil VNil then negb (is_base (f_ty g)) || is_binary (f_ty g)
                       else wt_val E false (f_ty g) VNil) = true).
    { destruct (base_ptr g) eqn:Eb; [reflexivity|]. apply Hnil; reflexivity. }
    unfold rslot. destruct set as [[id slot]|]; [|rewrite Hzero; exact Hz].
    destruct (Z.eqb_spec (f_id g) id) as [Eid|Eid]; [|rewrite Hzero; exact Hz].
    specialize (Hfit g Hin Eid). unfold slot_fits in Hfit.
    destruct (base_ptr g) eqn:Eb.
    + destruct Hfit as (x & -> & Hx). exact Hx.
    + destruct Hfit as [Hn|Hw]; [apply Hnil; [assumption | reflexivity]|].
      pose proof (Hnil slot) as Hn2. destruct (is_nil slot) eqn:En; [apply Hn2; reflexivity|].
      rewrite andb_false_r. exact Hw.
Qed.

Lemma result_norm E m set :
  find_struct E (s_name (result_schema m)) = Some (result_schema m) ->
  NoDup (map f_id (result_fields (snd m))) ->
  norm_struct E (result_schema m) (result_value (snd m) set) =
  VStruct (map (fun g => (f_id g, norm_slot E g (rslot set g))) (result_fields (snd m))).
Proof.
  intros Hs Hnd. unfold norm_struct. rewrite result_value_eq, norm_struct_eq, Hs. f_equal.
  apply (map_norm_fn_fields E (result_schema m)). exact Hnd.
Qed.

(* ---- the client's switch over the exception fields ---- *)

Lemma first_exc_none throws fs :
  (forall t, In t throws -> is_nil (slot_of (f_id t) fs) = true) -> first_exc throws fs = None.
Proof.
  induction throws as [|t r IH]; intro H; [reflexivity|]. cbn [first_exc].
  rewrite (H t (or_introl eq_refl)). apply IH. intros u Hu. apply H. right. exact Hu.
Qed.

Lemma first_exc_one throws fs g :
  In g throws ->
  is_nil (slot_of (f_id g) fs) = false ->
  (forall t, In t throws -> f_id t <> f_id g -> is_nil (slot_of (f_id t) fs) = true) ->
  exists t, first_exc throws fs = Some (t, slot_of (f_id g) fs) /\ f_id t = f_id g /\ In t throws.
Proof.
  induction throws as [|t r IH]; intros Hin Hg Hoth; [destruct Hin|]. cbn [first_exc].
  destruct (Z.eq_dec (f_id t) (f_id g)) as [E|E].
  - exists t. split; [rewrite E, Hg; reflexivity|]. split; [exact E | left; reflexivity].
  - rewrite (Hoth t (or_introl eq_refl) E).
    destruct Hin as [->|Hin]; [congruence|].
    destruct (IH Hin Hg) as (u & Hu & Hid & Hur).
    { intros u Hu. apply Hoth. right. exact Hu. }
    exists u. split; [exact Hu|]. split; [exact Hid | right; exact Hur].
Qed.

Lemma nodup_id_inj l a b : NoDup (map f_id l) -> In a l -> In b l -> f_id a = f_id b -> a = b.
Proof.
  intros Hnd Ha Hb Hid. pose proof (find_field_nodup l a Hnd Ha) as H1.
  pose proof (find_field_nodup l b Hnd Hb) as H2. rewrite Hid in H1. congruence.
Qed.

Lemma find_throw_spec n throws g : find_throw n throws = Some g -> In g throws /\ f_ty g = TRef n.
Proof.
  unfold find_throw. intro H. apply find_some in H. destruct H as [Hin Ht]. split; [assumption|].
  unfold ty_is_ref in Ht. destruct (f_ty g); try discriminate. apply beqb_true in Ht. congruence.
Qed.

(* ---- GetSuccess() of the struct the client read ---- *)

Lemma getter_success E t v :
  (if base_ptr (success_field t) then wt_val E false t v else is_nil v || wt_val E false t v) = true ->
  getter (success_field t) (norm_slot E (success_field t) (success_slot t v)) = ret_view E t v.
Proof.
  intro Hok. set (sf := success_field t).
  assert (Hrok : res_field_ok sf = true) by reflexivity.
  unfold success_slot. fold sf. destruct (base_ptr sf) eqn:Eb.
  - assert (Hnn : is_nil v = false).
    { destruct v; try reflexivity. exfalso. unfold sf, success_field, base_ptr in Eb. cbn in Eb.
      destruct t; cbn in Eb, Hok; discriminate. }
    unfold norm_slot, present, isset. rewrite Eb. cbn [sf success_field f_default is_optional f_req req_eqb negb orb is_nil].
    unfold getter, supports_isset, isset, deref. rewrite Eb.
    cbn [sf success_field f_default is_optional f_req req_eqb negb orb is_nil f_ty]. rewrite orb_true_r.
    unfold ret_view. rewrite Hnn. reflexivity.
  - destruct (is_nil v) eqn:En.
    + destruct v; try discriminate.
      destruct (res_zero E sf Hrok) as [_ Hz]. rewrite Hz.
      unfold getter, supports_isset, isset, default_var.
      cbn [sf success_field f_default is_optional f_req req_eqb negb orb is_nil f_ty]. rewrite orb_true_r.
      unfold ret_view. cbn [is_nil]. apply (res_not_ptr sf Hrok Eb).
    + unfold norm_slot, present, isset. rewrite Eb.
      cbn [sf success_field f_default is_optional f_req req_eqb negb orb f_ty]. rewrite En. cbn [negb].
      unfold getter, supports_isset, isset, deref. rewrite Eb.
      cbn [sf success_field f_default is_optional f_req req_eqb negb orb f_ty]. rewrite orb_true_r.
      rewrite (norm_not_nil E t v En). cbn [negb]. unfold ret_view. rewrite En. reflexivity.
Qed.

(* ------------------------------------------------------------------ one call *)

Section OneCall.
  Variable e : env.
  Variable ss : list service.
  Hypothesis Hwf : rpc_wf e ss = true.
  Let E := rpc_env e ss.
  Variable fuel : nat.
  Variable svc : bytes.
  Variable tbl : list method.
  Hypothesis Htbl : method_table fuel ss svc = Some tbl.

  Lemma E_wf : wf_env E = true.
  Proof. apply rpc_wf_env. exact Hwf. Qed.

  Lemma tbl_ok m : In m tbl -> method_ok E m.
  Proof. intro H. exact (rpc_wf_method e ss fuel svc tbl m Hwf Htbl H). Qed.

  Lemma args_nodup m : In m tbl -> NoDup (map f_id (fn_args (snd m))).
  Proof.
    intro H. destruct (tbl_ok m H) as [Ha _ _].
    exact (wf_struct_nodup _ (wf_env_struct _ _ _ E_wf Ha)).
  Qed.

  Lemma result_nodup m : In m tbl -> NoDup (map f_id (result_fields (snd m))).
  Proof.
    intro H. destruct (tbl_ok m H) as [_ Hr _].
    exact (wf_struct_nodup _ (wf_env_struct _ _ _ E_wf Hr)).
  Qed.

  Lemma args_not_optional m : In m tbl -> forallb (fun a => negb (is_optional a)) (fn_args (snd m)) = true.
  Proof.
    intro H. destruct (tbl_ok m H) as [_ _ Hf]. unfold fun_ok in Hf. rewrite !andb_true_iff in Hf. tauto.
  Qed.

  Lemma name_len_ok m : In m tbl -> len_ok (fn_name (snd m)) = true.
  Proof.
    intro H. destruct (tbl_ok m H) as [_ _ Hf]. unfold fun_ok in Hf. rewrite !andb_true_iff in Hf. tauto.
  Qed.

  (* ---- the request ---- *)

  Lemma client_send_spec m st args :
    In m tbl -> wt_args E m args = true ->
    exists wfs,
      client_send E m st args =
        Ok (next_seq st, msg_begin (fn_name (snd m)) M_CALL (next_seq st) ++ enc (WStruct wfs)) /\
      to_wire E (args_schema m) (args_value (snd m) args) = Ok (WStruct wfs) /\
      forall rest, exists fs',
        read_bytes E (args_schema m) (zero_struct E (args_schema m)) (enc (WStruct wfs) ++ rest) = Ok (VStruct fs') /\
        map snd fs' = norm_args E (snd m) args.
  Proof.
    intros Hin Hwt. destruct (tbl_ok m Hin) as [Ha _ _].
    unfold wt_args, args_value in Hwt.
    assert (Hini : map fst (zero_fields (args_schema m)) = map f_id (s_fields (args_schema m))).
    { unfold zero_fields. rewrite map_map. reflexivity. }
    destruct (args_roundtrip_bytes E (args_schema m) _ (zero_fields (args_schema m)) E_wf Ha
                (args_not_optional m Hin) Hwt Hini) as (wfs & Hw & Htw & Hr).
    exists wfs. split; [|split].
    - unfold client_send, args_value. rewrite Hw. reflexivity.
    - exact Htw.
    - intro rest. eexists. split.
      + unfold zero_struct. rewrite Hr. unfold norm_struct. rewrite norm_struct_eq, Ha. reflexivity.
      + unfold norm_args. apply (norm_args_fields E (args_schema m) (args_nodup m Hin) (args_not_optional m Hin) []).
        reflexivity.
  Qed.

  (* ---- the processor on that request ---- *)

  Variable h : handler.

  Lemma process_spec m seq args wfs :
    find_method tbl (fn_name (snd m)) = Some m -> wt_args E m args = true -> in_srange 4 seq ->
    to_wire E (args_schema m) (args_value (snd m) args) = Ok (WStruct wfs) ->
    process E tbl h (msg_begin (fn_name (snd m)) M_CALL seq ++ enc (WStruct wfs)) =
      (if fn_oneway (snd m) then None else reply_of E m seq (h m (norm_args E (snd m) args)),
       [(m, norm_args E (snd m) args)]).
  Proof.
    intros Hfind Hwt Hseq Htw. destruct (find_method_In _ _ _ Hfind) as [Hin _].
    destruct (client_send_spec m 0 args Hin Hwt) as (wfs' & _ & Htw' & Hr).
    rewrite Htw in Htw'. injection Htw' as <-.
    destruct (Hr []) as (fs' & Hrd & Hargs). rewrite app_nil_r in Hrd.
    unfold process. rewrite read_msg_begin_msg_begin; [|apply name_len_ok; assumption|unfold M_CALL; lia|assumption].
    rewrite Hfind, Hrd, Hargs. destruct (fn_oneway (snd m)); reflexivity.
  Qed.

  (* ---- the client on the reply ---- *)

  Lemma recv_exception m seq msg tid :
    In m tbl -> fn_oneway (snd m) = false -> in_srange 4 seq -> len_ok msg = true -> in_srange 4 tid ->
    client_recv E m seq (Some (exc_reply (fn_name (snd m)) seq msg tid)) = CAppExc tid.
  Proof.
    intros Hin Hnow Hseq Hmsg Htid. unfold client_recv, exc_reply. rewrite Hnow.
    rewrite read_msg_begin_msg_begin; [|apply name_len_ok; assumption|unfold M_EXCEPTION; lia|assumption].
    rewrite beqb_refl, Z.eqb_refl. cbn [negb]. change (M_EXCEPTION =? M_EXCEPTION) with true. cbn iota.
    rewrite <- (app_nil_r (enc (app_exc msg tid))). rewrite read_app_exc_enc by assumption. reflexivity.
  Qed.

  Lemma recv_result m seq set :
    In m tbl -> fn_oneway (snd m) = false -> in_srange 4 seq -> set_fits E (snd m) set ->
    exists wfs,
      reply_with E m seq (result_value (snd m) set) = Some (msg_begin (fn_name (snd m)) M_REPLY seq ++ enc (WStruct wfs)) /\
      to_wire E (result_schema m) (result_value (snd m) set) = Ok (WStruct wfs) /\
      client_recv E m seq (reply_with E m seq (result_value (snd m) set)) =
        client_pick (snd m) (map (fun g => (f_id g, norm_slot E g (rslot set g))) (result_fields (snd m))).
  Proof.
    intros Hin Hnow Hseq Hfit. destruct (tbl_ok m Hin) as [_ Hr Hf].
    pose proof (result_wt E m set Hr (result_nodup m Hin) (result_fields_ok _ Hf) Hfit) as Hwt.
    destruct (write_read E (result_schema m) _ E_wf Hr Hwt) as (wfs & Htw & Hrd).
    destruct (to_w_wf E E_wf _ _ _ _ (wt_wt_val _ _ _ Hwt) Htw) as [Hwfw _].
    exists wfs.
    assert (Hrw : reply_with E m seq (result_value (snd m) set) =
                  Some (msg_begin (fn_name (snd m)) M_REPLY seq ++ enc (WStruct wfs))).
    { unfold reply_with, write_bytes. rewrite Htw. reflexivity. }
    split; [exact Hrw|]. split; [exact Htw|].
    rewrite Hrw. unfold client_recv. rewrite Hnow.
    rewrite read_msg_begin_msg_begin; [|apply name_len_ok; assumption|unfold M_REPLY; lia|assumption].
    rewrite beqb_refl, Z.eqb_refl. cbn [negb].
    change (M_REPLY =? M_EXCEPTION) with false. change (M_REPLY =? M_REPLY) with true. cbn iota. cbn [negb].
    unfold read_bytes. rewrite <- (app_nil_r (enc (WStruct wfs))). rewrite dec_struct_enc by assumption.
    rewrite (zero_is_new E (result_schema m)) by (apply res_field_no_default; assumption).
    unfold read_new in Hrd. rewrite Hrd. rewrite (result_norm E m set Hr (result_nodup m Hin)). reflexivity.
  Qed.

  (* ---- which field the client picks ---- *)

  Lemma throws_in_result f t : In t (fn_throws f) -> In t (result_fields f).
  Proof. intro H. unfold result_fields. apply in_or_app. right. exact H. Qed.

  Lemma throws_res_ok m t : In m tbl -> In t (fn_throws (snd m)) -> res_field_ok t = true.
  Proof.
    intros Hin Ht. destruct (tbl_ok m Hin) as [_ _ Hf]. pose proof (result_fields_ok _ Hf) as H.
    rewrite forallb_forall in H. apply H. apply throws_in_result. exact Ht.
  Qed.

  Lemma slot_after m set t :
    In m tbl -> In t (result_fields (snd m)) ->
    slot_of (f_id t) (map (fun g => (f_id g, norm_slot E g (rslot set g))) (result_fields (snd m))) =
    norm_slot E t (rslot set t).
  Proof.
    intros Hin Ht. apply (slot_of_map (fun g => norm_slot E g (rslot set g))); [apply result_nodup|]; assumption.
  Qed.

  Lemma unset_is_nil m set t :
    In m tbl -> In t (fn_throws (snd m)) ->
    (match set with Some (id, _) => f_id t <> id | None => True end) ->
    is_nil (slot_of (f_id t) (map (fun g => (f_id g, norm_slot E g (rslot set g))) (result_fields (snd m)))) = true.
  Proof.
    intros Hin Ht Hne. rewrite (slot_after m set t Hin (throws_in_result _ _ Ht)).
    destruct (res_zero E t (throws_res_ok m t Hin Ht)) as [Hz Hn].
    unfold rslot. destruct set as [[id slot]|].
    - destruct (Z.eqb_spec (f_id t) id); [contradiction|]. rewrite Hz, Hn. reflexivity.
    - rewrite Hz, Hn. reflexivity.
  Qed.

  Lemma pick_void m :
    In m tbl -> fn_ret (snd m) = None ->
    client_pick (snd m) (map (fun g => (f_id g, norm_slot E g (rslot None g))) (result_fields (snd m))) = CVoid.
  Proof.
    intros Hin Hret. unfold client_pick. rewrite first_exc_none.
    - rewrite Hret. reflexivity.
    - intros t Ht. apply (unset_is_nil m None t Hin Ht). exact I.
  Qed.

  Lemma success_in_result f t : fn_ret f = Some t -> result_fields f = success_field t :: fn_throws f.
  Proof. intro H. unfold result_fields. rewrite H. reflexivity. Qed.

  Lemma throws_id_nonzero m t g :
    In m tbl -> fn_ret (snd m) = Some t -> In g (fn_throws (snd m)) -> f_id g <> 0.
  Proof.
    intros Hin Hret Hg. pose proof (result_nodup m Hin) as Hnd. rewrite (success_in_result _ _ Hret) in Hnd.
    cbn [map] in Hnd. inversion Hnd as [|? ? Hna _]; subst. intro E0. apply Hna.
    change (f_id (success_field t)) with 0. rewrite <- E0. apply in_map. exact Hg.
  Qed.

  Lemma pick_ret m t v :
    In m tbl -> fn_ret (snd m) = Some t -> outcome_ok E (snd m) (Ret v) = true ->
    set_fits E (snd m) (Some (0, success_slot t v)) /\
    client_pick (snd m) (map (fun g => (f_id g, norm_slot E g (rslot (Some (0, success_slot t v)) g)))
                             (result_fields (snd m))) = CRet (ret_view E t v).
  Proof.
    intros Hin Hret Hok. cbn [outcome_ok] in Hok. rewrite Hret in Hok.
    assert (Hsf : In (success_field t) (result_fields (snd m))).
    { rewrite (success_in_result _ _ Hret). left. reflexivity. }
    split.
    - cbn [set_fits]. intros g Hg Hid.
      assert (g = success_field t).
      { rewrite (success_in_result _ _ Hret) in Hg. destruct Hg as [<-|Hg]; [reflexivity|].
        exfalso. exact (throws_id_nonzero m t g Hin Hret Hg Hid). }
      subst g. unfold slot_fits, success_slot. destruct (base_ptr (success_field t)).
      + eexists. split; [reflexivity | exact Hok].
      + apply orb_true_iff in Hok. exact Hok.
    - unfold client_pick. rewrite first_exc_none.
      + rewrite Hret. f_equal. change 0 with (f_id (success_field t)) at 1.
        rewrite (slot_after m _ _ Hin Hsf). unfold rslot. change (f_id (success_field t) =? 0) with true. cbn iota.
        apply getter_success. exact Hok.
      + intros g Hg. apply (unset_is_nil m (Some (0, success_slot t v)) g Hin Hg). exact (throws_id_nonzero m t g Hin Hret Hg).
  Qed.

  Lemma pick_throw m n v g :
    In m tbl -> find_throw n (fn_throws (snd m)) = Some g ->
    is_struct_val v = true -> wt_val E false (TRef n) v = true ->
    set_fits E (snd m) (Some (f_id g, v)) /\
    client_pick (snd m) (map (fun x => (f_id x, norm_slot E x (rslot (Some (f_id g, v)) x)))
                             (result_fields (snd m))) = CExc n (norm E (TRef n) v).
  Proof.
    intros Hin Hft Hsv Hwt. destruct (find_throw_spec _ _ _ Hft) as [Hg Hty].
    pose proof (result_nodup m Hin) as Hnd. pose proof (throws_in_result _ _ Hg) as Hgr.
    pose proof (throws_res_ok m g Hin Hg) as Hgok.
    assert (Hbp : base_ptr g = false).
    { unfold base_ptr. rewrite Hty. cbn. rewrite !andb_false_r. reflexivity. }
    split.
    - cbn [set_fits]. intros g' Hg' Hid. rewrite (nodup_id_inj _ g' g Hnd Hg' Hgr Hid).
      unfold slot_fits. rewrite Hbp, Hty. right. exact Hwt.
    - assert (Hslot : slot_of (f_id g) (map (fun x => (f_id x, norm_slot E x (rslot (Some (f_id g, v)) x)))
                                         (result_fields (snd m))) = norm E (TRef n) v).
      { rewrite (slot_after m _ g Hin Hgr). unfold rslot. rewrite Z.eqb_refl.
        unfold norm_slot, present, isset. rewrite Hbp, Hty.
        unfold res_field_ok in Hgok. apply andb_true_iff in Hgok. destruct Hgok as [Ho Hd].
        unfold has_default in Hd. destruct (f_default g); [discriminate|].
        destruct v; try discriminate. cbn [is_nil negb]. rewrite orb_true_r. reflexivity. }
      assert (Hnn : is_nil (norm E (TRef n) v) = false).
      { apply norm_not_nil. destruct v; try discriminate; reflexivity. }
      unfold client_pick.
      destruct (first_exc_one (fn_throws (snd m))
                  (map (fun x => (f_id x, norm_slot E x (rslot (Some (f_id g, v)) x))) (result_fields (snd m)))
                  g Hg) as (t0 & Hfe & Hid0 & Ht0).
      + rewrite Hslot. exact Hnn.
      + intros t Ht Hne. apply (unset_is_nil m (Some (f_id g, v)) t Hin Ht). exact Hne.
      + rewrite Hfe, Hslot.
        rewrite (nodup_id_inj _ t0 g Hnd (throws_in_result _ _ Ht0) Hgr Hid0).
        unfold exc_name. rewrite Hty. reflexivity.
  Qed.

  (* ---- client_recv of what the processor function writes = the image of the handler outcome ---- *)

  Lemma recv_reply_ret m seq v :
    In m tbl -> fn_oneway (snd m) = false -> in_srange 4 seq -> outcome_ok E (snd m) (Ret v) = true ->
    client_recv E m seq (reply_of E m seq (Ret v)) = image E (snd m) (Ret v).
  Proof.
    intros Hin Hnow Hseq Hok. pose proof Hok as Hok'. unfold outcome_ok in Hok'. unfold reply_of, image.
    destruct (fn_ret (snd m)) as [t|] eqn:Hret; [|discriminate].
    destruct (pick_ret m t v Hin Hret Hok) as [Hfit Hpick].
    destruct (recv_result m seq (Some (0, success_slot t v)) Hin Hnow Hseq Hfit) as (wfs & _ & _ & Hrecv).
    rewrite Hrecv. exact Hpick.
  Qed.

  Lemma recv_reply_void m seq :
    In m tbl -> fn_oneway (snd m) = false -> in_srange 4 seq -> outcome_ok E (snd m) Void = true ->
    client_recv E m seq (reply_of E m seq Void) = image E (snd m) Void.
  Proof.
    intros Hin Hnow Hseq Hok. unfold outcome_ok in Hok. unfold reply_of, image.
    destruct (fn_ret (snd m)) as [t|] eqn:Hret; [discriminate|].
    destruct (recv_result m seq None Hin Hnow Hseq I) as (wfs & _ & _ & Hrecv).
    rewrite Hrecv. apply pick_void; assumption.
  Qed.

  Lemma recv_reply_throw m seq n v :
    In m tbl -> fn_oneway (snd m) = false -> in_srange 4 seq -> outcome_ok E (snd m) (Throw n v) = true ->
    client_recv E m seq (reply_of E m seq (Throw n v)) = image E (snd m) (Throw n v).
  Proof.
    intros Hin Hnow Hseq Hok. unfold outcome_ok in Hok. unfold reply_of, image.
    destruct (find_throw n (fn_throws (snd m))) as [g|] eqn:Hft.
    - apply andb_true_iff in Hok. destruct Hok as [Hsv Hwt].
      destruct (pick_throw m n v g Hin Hft Hsv Hwt) as [Hfit Hpick].
      destruct (recv_result m seq (Some (f_id g, v)) Hin Hnow Hseq Hfit) as (wfs & _ & _ & Hrecv).
      rewrite Hrecv. exact Hpick.
    - unfold internal_error. apply recv_exception; try assumption; [apply msg_fits_len_ok; assumption|].
      apply in_srange_4. unfold INTERNAL_ERROR. lia.
  Qed.

  Lemma recv_reply_error m seq text :
    In m tbl -> fn_oneway (snd m) = false -> in_srange 4 seq -> outcome_ok E (snd m) (OtherError text) = true ->
    client_recv E m seq (reply_of E m seq (OtherError text)) = image E (snd m) (OtherError text).
  Proof.
    intros Hin Hnow Hseq Hok. unfold outcome_ok in Hok. unfold reply_of, image, internal_error.
    apply recv_exception; try assumption; [apply msg_fits_len_ok; assumption|].
    apply in_srange_4. unfold INTERNAL_ERROR. lia.
  Qed.

  Lemma recv_reply_of m seq oc :
    In m tbl -> fn_oneway (snd m) = false -> in_srange 4 seq -> outcome_ok E (snd m) oc = true ->
    client_recv E m seq (reply_of E m seq oc) = image E (snd m) oc.
  Proof.
    intros Hin Hnow Hseq Hok. destruct oc as [v| |n v|text].
    - apply recv_reply_ret; assumption.
    - apply recv_reply_void; assumption.
    - apply recv_reply_throw; assumption.
    - apply recv_reply_error; assumption.
  Qed.
End OneCall.

(* ------------------------------------------------------------------ the theorems of property C08 *)

Lemma next_seq_range st : in_srange 4 (next_seq st).
Proof. apply wrap32_in_srange. Qed.

Lemma find_method_app a b name :
  find_method (a ++ b) name = match find_method a name with Some m => Some m | None => find_method b name end.
Proof.
  induction a as [|x a IH]; [reflexivity|]. cbn [app find_method].
  destruct (beqb name (fn_name (snd x))); [reflexivity | exact IH].
Qed.

Section Theorems.
  Variable e : env.
  Variable ss : list service.
  Hypothesis Hwf : rpc_wf e ss = true.
  Local Notation E := (rpc_env e ss).
  Variable fuel : nat.
  Variable svc : bytes.
  Variable tbl : list method.
  Hypothesis Htbl : method_table fuel ss svc = Some tbl.

  (* one call of a declared method: request produced, handler invoked once with the normalised
     arguments, reply (if any) understood by the client as the image of the handler's outcome *)
  Theorem call_carried (h : handler) m st args :
    find_method tbl (fn_name (snd m)) = Some m ->
    wt_args E m args = true ->
    (fn_oneway (snd m) = false -> outcome_ok E (snd m) (h m (norm_args E (snd m) args)) = true) ->
    exists req,
      client_send E m st args = Ok (next_seq st, req) /\
      snd (process E tbl h req) = [(m, norm_args E (snd m) args)] /\
      client_recv E m (next_seq st) (fst (process E tbl h req)) =
        (if fn_oneway (snd m) then COneway else image E (snd m) (h m (norm_args E (snd m) args))) /\
      (fn_oneway (snd m) = true -> fst (process E tbl h req) = None).
  Proof.
    intros Hfind Hwt Hok. destruct (find_method_In _ _ _ Hfind) as [Hin _].
    destruct (client_send_spec e ss Hwf fuel svc tbl Htbl m st args Hin Hwt) as (wfs & Hsend & Htw & _).
    eexists. split; [exact Hsend|].
    rewrite (process_spec e ss Hwf fuel svc tbl Htbl h m (next_seq st) args wfs Hfind Hwt (next_seq_range st) Htw).
    cbn [fst snd]. split; [reflexivity|]. split.
    - destruct (fn_oneway (snd m)) eqn:Hone.
      + unfold client_recv. rewrite Hone. reflexivity.
      + apply (recv_reply_of e ss Hwf fuel svc tbl Htbl m _ _ Hin Hone (next_seq_range st)). apply Hok. reflexivity.
    - intro Hone. rewrite Hone. reflexivity.
  Qed.

  Theorem call_roundtrip (h : handler) m st args :
    find_method tbl (fn_name (snd m)) = Some m -> fn_oneway (snd m) = false ->
    wt_args E m args = true ->
    outcome_ok E (snd m) (h m (norm_args E (snd m) args)) = true ->
    exists req,
      client_send E m st args = Ok (next_seq st, req) /\
      client_recv E m (next_seq st) (fst (process E tbl h req)) = image E (snd m) (h m (norm_args E (snd m) args)).
  Proof.
    intros Hfind Hone Hwt Hok.
    destruct (call_carried h m st args Hfind Hwt (fun _ => Hok)) as (req & Hs & _ & Hr & _).
    exists req. split; [exact Hs|]. rewrite Hone in Hr. exact Hr.
  Qed.

  Theorem handler_sees_args (h : handler) m st args :
    find_method tbl (fn_name (snd m)) = Some m ->
    wt_args E m args = true ->
    exists wfs,
      client_send E m st args =
        Ok (next_seq st, msg_begin (fn_name (snd m)) M_CALL (next_seq st) ++ enc (WStruct wfs)) /\
      snd (process E tbl h (msg_begin (fn_name (snd m)) M_CALL (next_seq st) ++ enc (WStruct wfs))) =
        [(m, norm_args E (snd m) args)].
  Proof.
    intros Hfind Hwt. destruct (find_method_In _ _ _ Hfind) as [Hin _].
    destruct (client_send_spec e ss Hwf fuel svc tbl Htbl m st args Hin Hwt) as (wfs & Hsend & Htw & _).
    exists wfs. split; [exact Hsend|].
    rewrite (process_spec e ss Hwf fuel svc tbl Htbl h m (next_seq st) args wfs Hfind Hwt (next_seq_range st) Htw).
    reflexivity.
  Qed.

  (* a method the processor does not know: UNKNOWN_METHOD application exception, handler untouched;
     ptbl is the table of any processor, the client is the one of [svc] *)
  Theorem unknown_method_is_app_exception (h : handler) (ptbl : list method) m st args :
    In m tbl -> fn_oneway (snd m) = false -> wt_args E m args = true ->
    find_method ptbl (fn_name (snd m)) = None ->
    len_ok (msg_unknown (fn_name (snd m))) = true ->
    exists req,
      client_send E m st args = Ok (next_seq st, req) /\
      process E ptbl h req =
        (Some (exc_reply (fn_name (snd m)) (next_seq st) (msg_unknown (fn_name (snd m))) UNKNOWN_METHOD), []) /\
      client_recv E m (next_seq st) (fst (process E ptbl h req)) = CAppExc UNKNOWN_METHOD.
  Proof.
    intros Hin Hone Hwt Hnone Hlen.
    destruct (client_send_spec e ss Hwf fuel svc tbl Htbl m st args Hin Hwt) as (wfs & Hsend & _ & _).
    eexists. split; [exact Hsend|].
    assert (Hp : process E ptbl h (msg_begin (fn_name (snd m)) M_CALL (next_seq st) ++ enc (WStruct wfs)) =
                 (Some (exc_reply (fn_name (snd m)) (next_seq st) (msg_unknown (fn_name (snd m))) UNKNOWN_METHOD), [])).
    { unfold process. rewrite read_msg_begin_msg_begin;
        [|apply (name_len_ok e ss Hwf fuel svc tbl Htbl m Hin)|unfold M_CALL; lia|apply next_seq_range].
      rewrite Hnone. reflexivity. }
    split; [exact Hp|]. rewrite Hp. cbn [fst].
    apply (recv_exception e ss Hwf fuel svc tbl Htbl m _ _ _ Hin Hone (next_seq_range st) Hlen).
    apply in_srange_4. unfold UNKNOWN_METHOD. lia.
  Qed.
End Theorems.

(* whatever bytes arrive: if the header names a method the table lacks, the reply is the
   UNKNOWN_METHOD exception under the same name and sequence id and the handler is not called *)
Theorem unknown_method_reply E tbl h bs name ty seq body :
  read_msg_begin bs = Some (name, ty, seq, body) -> find_method tbl name = None ->
  process E tbl h bs = (Some (exc_reply name seq (msg_unknown name) UNKNOWN_METHOD), []).
Proof. intros Hr Hn. unfold process. rewrite Hr, Hn. reflexivity. Qed.

(* whatever bytes arrive: a request naming a oneway method never produces a reply *)
Theorem oneway_no_reply E tbl h bs name ty seq body m :
  read_msg_begin bs = Some (name, ty, seq, body) -> find_method tbl name = Some m ->
  fn_oneway (snd m) = true -> fst (process E tbl h bs) = None.
Proof.
  intros Hr Hm Hone. unfold process. rewrite Hr, Hm, Hone.
  destruct (read_bytes E (args_schema m) (zero_struct E (args_schema m)) body) as [v|]; [|reflexivity].
  destruct v; reflexivity.
Qed.

(* methods of the base service (same file or included file: services are addressed by qualified
   name) are dispatched by the processor of the extending service unless it declares the name itself *)
Theorem inherited_dispatch ss k n s b tb name m :
  find_service ss n = Some s -> sv_extends s = Some b -> method_table k ss b = Some tb ->
  find_method tb name = Some m -> find_method (own_methods s) name = None ->
  exists t, method_table (S k) ss n = Some t /\ find_method t name = Some m.
Proof.
  intros Hs Hb Htb Hm Hown. exists (own_methods s ++ tb). split.
  - cbn [method_table]. rewrite Hs, Hb, Htb. reflexivity.
  - rewrite find_method_app, Hown. exact Hm.
Qed.

Inductive derives (ss : list service) : bytes -> bytes -> Prop :=
| derives_refl n : derives ss n n
| derives_step n s b c : find_service ss n = Some s -> sv_extends s = Some b -> derives ss b c -> derives ss n c.

(* through any number of extends steps: the table of every ancestor is part of the table *)
Theorem inherited_table ss n c : derives ss n c -> forall fuel t,
  method_table fuel ss n = Some t ->
  exists k tc, method_table k ss c = Some tc /\ incl tc t.
Proof.
  induction 1 as [n|n s b c Hs Hb Hd IH]; intros fuel t Ht.
  - exists fuel, t. split; [exact Ht | apply incl_refl].
  - destruct fuel as [|k]; [discriminate|]. cbn [method_table] in Ht. rewrite Hs, Hb in Ht.
    destruct (method_table k ss b) as [tb|] eqn:Htb; [|discriminate]. injection Ht as <-.
    destruct (IH k tb Htb) as (k' & tc & Hc & Hincl). exists k', tc. split; [exact Hc|].
    apply incl_appr. exact Hincl.
Qed.

(* ------------------------------------------------------------------ sequences of calls *)

Section Sequences.
  Variable e : env.
  Variable ss : list service.
  Hypothesis Hwf : rpc_wf e ss = true.
  Local Notation E := (rpc_env e ss).
  Variable fuel : nat.
  Variable svc : bytes.
  Variable tbl : list method.
  Hypothesis Htbl : method_table fuel ss svc = Some tbl.
  Variable hs : nat -> handler.

  Theorem sequence_of_calls cs : forall k st,
    calls_ok E tbl hs k cs -> map view (run_calls E tbl hs k st cs) = expected E hs k st cs.
  Proof.
    induction cs as [|c cs IH]; intros k st Hok; [reflexivity|].
    destruct Hok as [(Hf & Hwt & Hoc) Hrest]. cbn [run_calls expected].
    destruct (call_carried e ss Hwf fuel svc tbl Htbl (hs k) (c_m c) st (c_args c) Hf Hwt Hoc)
      as (req & Hs & Hlog & Hrecv & _).
    rewrite Hs. cbn [map view o_seq o_got o_log]. rewrite Hlog, Hrecv. f_equal. apply IH. exact Hrest.
  Qed.

  Lemma expected_seqs cs : forall k st,
    map (fun x => fst (fst x)) (expected E hs k st cs) = seqs st (length cs).
  Proof.
    induction cs as [|c cs IH]; intros k st; [reflexivity|]. cbn [expected map fst length seqs]. f_equal. apply IH.
  Qed.

  Corollary sequence_ids cs k st :
    calls_ok E tbl hs k cs -> map o_seq (run_calls E tbl hs k st cs) = seqs st (length cs).
  Proof.
    intro Hok. rewrite <- (expected_seqs cs k st), <- (sequence_of_calls cs k st Hok), map_map. reflexivity.
  Qed.
End Sequences.

Lemma next_seq_small st : in_srange 4 (st + 1) -> next_seq st = st + 1.
Proof. apply wrap32_small. Qed.

(* ------------------------------------------------------------------ wire shape *)

Lemma emitted_hdrs_args s : NoDup (map f_id (s_fields s)) ->
  forallb (fun a => negb (is_optional a)) (s_fields s) = true ->
  forall pre l args, s_fields s = pre ++ l -> (length l <= length args)%nat ->
    emitted_hdrs s (combine (map f_id l) args) = map (fun a => (spec_ttype (f_ty a), f_id a)) l.
Proof.
  intros Hnd Hno pre l. revert pre. induction l as [|a l IH]; intros pre args Hsplit Hlen; [reflexivity|].
  destruct args as [|v args]; [cbn in Hlen; lia|]. unfold emitted_hdrs in *. cbn [map combine fst snd].
  assert (Hin : In a (s_fields s)) by (rewrite Hsplit; apply in_or_app; right; left; reflexivity).
  rewrite (find_field_nodup _ _ Hnd Hin).
  rewrite forallb_forall in Hno. pose proof (Hno a Hin) as Ha. apply negb_true_iff in Ha.
  unfold present at 1. rewrite Ha. cbn [negb orb cat_somes]. f_equal.
  apply (IH (pre ++ [a])); [rewrite <- app_assoc; exact Hsplit | cbn in Hlen; lia].
Qed.

Lemma emitted_hdrs_result m set :
  NoDup (map f_id (result_fields (snd m))) ->
  emitted_hdrs (result_schema m) (map (fun g => (f_id g, rslot set g)) (result_fields (snd m))) =
  result_hdrs (snd m) set.
Proof.
  intro Hnd. unfold emitted_hdrs, result_hdrs. rewrite map_map. f_equal. apply map_ext_in.
  intros g Hin. cbn [fst snd result_schema s_fields]. rewrite (find_field_nodup _ _ Hnd Hin). reflexivity.
Qed.

Lemma present_zero g : res_field_ok g = true -> present g (zero_slot g) = false.
Proof.
  intro H. destruct (res_zero (mkenv [] []) g H) as [Hz _]. rewrite Hz.
  unfold res_field_ok in H. apply andb_true_iff in H. destruct H as [Ho Hd].
  unfold present, isset. rewrite Ho. unfold has_default in Hd. destruct (f_default g); [discriminate | reflexivity].
Qed.

Lemma present_set g slot : res_field_ok g = true -> is_nil slot = false -> present g slot = true.
Proof.
  intros H Hn. unfold res_field_ok in H. apply andb_true_iff in H. destruct H as [Ho Hd].
  unfold present, isset. unfold has_default in Hd. destruct (f_default g); [discriminate|].
  rewrite Hn. apply orb_true_r.
Qed.

Definition hdr_fn (set : option (Z * value)) (g : field) : option (ttype * Z) :=
  let slot := match set with
              | Some (id, s) => if f_id g =? id then s else zero_slot g
              | None => zero_slot g end in
  if present g slot then Some (spec_ttype (f_ty g), f_id g) else None.

Lemma hdrs_absent set l :
  (forall x, In x l -> res_field_ok x = true /\ match set with Some (id, _) => f_id x <> id | None => True end) ->
  cat_somes (map (hdr_fn set) l) = [].
Proof.
  induction l as [|a l IH]; intro H; [reflexivity|]. cbn [map].
  destruct (H a (or_introl eq_refl)) as [Hok Hne].
  assert (Ha : hdr_fn set a = None).
  { unfold hdr_fn. destruct set as [[id s]|].
    - destruct (Z.eqb_spec (f_id a) id); [contradiction|]. rewrite (present_zero a Hok). reflexivity.
    - rewrite (present_zero a Hok). reflexivity. }
  rewrite Ha. cbn [cat_somes]. apply IH. intros x Hx. apply H. right. exact Hx.
Qed.

Lemma hdrs_present l g slot :
  NoDup (map f_id l) -> In g l -> (forall x, In x l -> res_field_ok x = true) ->
  cat_somes (map (hdr_fn (Some (f_id g, slot))) l) =
  if present g slot then [(spec_ttype (f_ty g), f_id g)] else [].
Proof.
  induction l as [|a l IH]; intros Hnd Hin Hok; [destruct Hin|].
  cbn [map] in Hnd. inversion Hnd as [|? ? Hna Hnd']; subst. cbn [map].
  destruct Hin as [->|Hin].
  - assert (Hrest : cat_somes (map (hdr_fn (Some (f_id g, slot))) l) = []).
    { apply hdrs_absent. intros x Hx. split; [apply Hok; right; exact Hx|].
      intro Eid. apply Hna. rewrite <- Eid. apply in_map. exact Hx. }
    unfold hdr_fn at 1. rewrite Z.eqb_refl. destruct (present g slot); cbn [cat_somes]; rewrite Hrest; reflexivity.
  - assert (Hne : f_id a <> f_id g).
    { intro Eid. apply Hna. rewrite Eid. apply in_map. exact Hin. }
    unfold hdr_fn at 1. destruct (Z.eqb_spec (f_id a) (f_id g)); [contradiction|].
    rewrite (present_zero a (Hok a (or_introl eq_refl))). cbn [cat_somes].
    apply IH; [assumption | assumption | intros x Hx; apply Hok; right; exact Hx].
Qed.

Lemma result_hdrs_eq f set : result_hdrs f set = cat_somes (map (hdr_fn set) (result_fields f)).
Proof. reflexivity. Qed.

Section Shape.
  Variable e : env.
  Variable ss : list service.
  Hypothesis Hwf : rpc_wf e ss = true.
  Local Notation E := (rpc_env e ss).
  Variable fuel : nat.
  Variable svc : bytes.
  Variable tbl : list method.
  Hypothesis Htbl : method_table fuel ss svc = Some tbl.

  (* request: <method name as written in the IDL, CALL, next sequence id> ++ the arguments in
     declaration order under their IDL ids with the wire types Thrift prescribes *)
  Theorem request_shape m st args :
    In m tbl -> wt_args E m args = true ->
    exists wfs,
      client_send E m st args =
        Ok (next_seq st, msg_begin (fn_name (snd m)) M_CALL (next_seq st) ++ enc (WStruct wfs)) /\
      map hdr wfs = map (fun a => (spec_ttype (f_ty a), f_id a)) (fn_args (snd m)) /\
      read_msg_begin (msg_begin (fn_name (snd m)) M_CALL (next_seq st) ++ enc (WStruct wfs)) =
        Some (fn_name (snd m), M_CALL, next_seq st, enc (WStruct wfs)).
  Proof.
    intros Hin Hwt.
    destruct (client_send_spec e ss Hwf fuel svc tbl Htbl m st args Hin Hwt) as (wfs & Hsend & Htw & _).
    destruct (tbl_ok e ss Hwf fuel svc tbl Htbl m Hin) as [Ha _ _].
    exists wfs. split; [exact Hsend|]. split.
    - destruct (wire_shape E (args_schema m) _ wfs Ha Htw) as [Hh _]. rewrite Hh.
      destruct (struct_wt_parts E (args_schema m) _ Ha Hwt) as (Hids & _ & _).
      apply (emitted_hdrs_args (args_schema m) (args_nodup e ss Hwf fuel svc tbl Htbl m Hin)
               (args_not_optional e ss Hwf fuel svc tbl Htbl m Hin) []); [reflexivity|].
      cbn [args_schema s_fields] in Hids.
      assert (Hl : length (map fst (combine (map f_id (fn_args (snd m))) args)) = length (map f_id (fn_args (snd m))))
        by (rewrite Hids; reflexivity).
      rewrite !map_length, combine_length, map_length in Hl. lia.
    - apply read_msg_begin_msg_begin;
        [apply (name_len_ok e ss Hwf fuel svc tbl Htbl m Hin) | unfold M_CALL; lia | apply next_seq_range].
  Qed.

  (* a REPLY: <name, REPLY, seq> ++ result struct whose emitted fields are result_hdrs *)
  Lemma reply_struct_shape m seq set :
    In m tbl -> fn_oneway (snd m) = false -> in_srange 4 seq -> set_fits E (snd m) set ->
    exists rfs,
      reply_with E m seq (result_value (snd m) set) =
        Some (msg_begin (fn_name (snd m)) M_REPLY seq ++ enc (WStruct rfs)) /\
      map hdr rfs = result_hdrs (snd m) set.
  Proof.
    intros Hin Hone Hseq Hfit.
    destruct (recv_result e ss Hwf fuel svc tbl Htbl m seq set Hin Hone Hseq Hfit) as (rfs & Hrw & Htw & _).
    destruct (tbl_ok e ss Hwf fuel svc tbl Htbl m Hin) as [_ Hr _].
    exists rfs. split; [exact Hrw|]. rewrite result_value_eq in Htw.
    destruct (wire_shape E (result_schema m) _ rfs Hr Htw) as [Hh _]. rewrite Hh.
    apply emitted_hdrs_result. apply (result_nodup e ss Hwf fuel svc tbl Htbl m Hin).
  Qed.

  (* reply: success travels under id 0, a declared exception under its IDL id, nothing else *)
  Theorem reply_shape m seq oc :
    In m tbl -> fn_oneway (snd m) = false -> in_srange 4 seq -> outcome_ok E (snd m) oc = true ->
    match oc with
    | Ret v =>
        exists rfs, reply_of E m seq oc = Some (msg_begin (fn_name (snd m)) M_REPLY seq ++ enc (WStruct rfs)) /\
                    map hdr rfs = match fn_ret (snd m) with
                                  | Some t => if is_nil v then [] else [(spec_ttype t, 0)]
                                  | None => [] end
    | Void => reply_of E m seq oc = Some (msg_begin (fn_name (snd m)) M_REPLY seq ++ enc (WStruct []))
    | Throw n v =>
        match find_throw n (fn_throws (snd m)) with
        | Some g => exists rfs, reply_of E m seq oc = Some (msg_begin (fn_name (snd m)) M_REPLY seq ++ enc (WStruct rfs)) /\
                                map hdr rfs = [(T_STRUCT, f_id g)]
        | None => reply_of E m seq oc =
                    Some (exc_reply (fn_name (snd m)) seq (msg_internal (fn_name (snd m)) msg_opaque) INTERNAL_ERROR)
        end
    | OtherError text =>
        reply_of E m seq oc = Some (exc_reply (fn_name (snd m)) seq (msg_internal (fn_name (snd m)) text) INTERNAL_ERROR)
    end.
  Proof.
    intros Hin Hone Hseq Hok.
    destruct (tbl_ok e ss Hwf fuel svc tbl Htbl m Hin) as [_ _ Hf].
    pose proof (result_fields_ok _ Hf) as Hrok. rewrite forallb_forall in Hrok.
    pose proof (result_nodup e ss Hwf fuel svc tbl Htbl m Hin) as Hnd.
    destruct oc as [v| |n v|text].
    - pose proof Hok as Hok'. unfold outcome_ok in Hok'. unfold reply_of.
      destruct (fn_ret (snd m)) as [t|] eqn:Hret; [|discriminate].
      destruct (pick_ret e ss Hwf fuel svc tbl Htbl m t v Hin Hret Hok) as [Hfit _].
      destruct (reply_struct_shape m seq _ Hin Hone Hseq Hfit) as (rfs & Hrw & Hh).
      exists rfs. split; [exact Hrw|]. rewrite Hh, result_hdrs_eq.
      assert (Hsf : In (success_field t) (result_fields (snd m))).
      { unfold result_fields. rewrite Hret. left. reflexivity. }
      change 0 with (f_id (success_field t)) at 1.
      rewrite (hdrs_present _ (success_field t) _ Hnd Hsf Hrok).
      unfold success_slot. destruct (base_ptr (success_field t)) eqn:Eb.
      + assert (Hnn : is_nil v = false).
        { destruct v; try reflexivity. exfalso. unfold success_field, base_ptr in Eb. cbn in Eb.
          destruct t; cbn in Eb, Hok'; discriminate. }
        rewrite Hnn. rewrite (present_set (success_field t) (VSome v) eq_refl eq_refl). reflexivity.
      + destruct (is_nil v) eqn:En.
        * destruct v; try discriminate.
          assert (Hp : present (success_field t) VNil = false) by reflexivity. rewrite Hp. reflexivity.
        * rewrite (present_set (success_field t) v eq_refl En). reflexivity.
    - unfold reply_of.
      destruct (reply_struct_shape m seq None Hin Hone Hseq I) as (rfs & Hrw & Hh).
      rewrite result_hdrs_eq, hdrs_absent in Hh by (intros x Hx; split; [apply Hrok; exact Hx | exact I]).
      destruct rfs; [|discriminate]. exact Hrw.
    - unfold outcome_ok in Hok. unfold reply_of.
      destruct (find_throw n (fn_throws (snd m))) as [g|] eqn:Hft; [|reflexivity].
      apply andb_true_iff in Hok. destruct Hok as [Hsv Hwt].
      destruct (pick_throw e ss Hwf fuel svc tbl Htbl m n v g Hin Hft Hsv Hwt) as [Hfit _].
      destruct (reply_struct_shape m seq _ Hin Hone Hseq Hfit) as (rfs & Hrw & Hh).
      exists rfs. split; [exact Hrw|]. rewrite Hh, result_hdrs_eq.
      destruct (find_throw_spec _ _ _ Hft) as [Hg Hty].
      rewrite (hdrs_present _ g v Hnd (throws_in_result _ _ Hg) Hrok).
      assert (Hnn : is_nil v = false) by (destruct v; try discriminate; reflexivity).
      rewrite (present_set g v (Hrok g (throws_in_result _ _ Hg)) Hnn), Hty. reflexivity.
    - reflexivity.
  Qed.
End Shape.

(* ------------------------------------------------------------------ streaming functions are removed,
   all others stay, in order, and are dispatched *)

Lemma keeps_iff f : keeps f = true <-> fs_stream f = None.
Proof.
  unfold keeps, parse_streaming. destruct (fs_stream f) as [[|v [|w r]]|]; split; intro H; try discriminate; try reflexivity.
  destruct (mode_ok v); [destruct (length (fn_args (fs_fn f)) =? 1)%nat|]; discriminate.
Qed.

Theorem remove_streaming_spec l g :
  In g (remove_streaming l) <-> exists f, In f l /\ fs_fn f = g /\ fs_stream f = None.
Proof.
  unfold remove_streaming. rewrite in_map_iff. split.
  - intros (f & Hg & Hin). apply filter_In in Hin. destruct Hin as [Hin Hk].
    exists f. split; [assumption|]. split; [assumption | apply keeps_iff; assumption].
  - intros (f & Hin & Hg & Hn). exists f. split; [assumption|]. apply filter_In. split; [assumption|].
    apply keeps_iff. assumption.
Qed.

Theorem remove_streaming_app a b : remove_streaming (a ++ b) = remove_streaming a ++ remove_streaming b.
Proof. unfold remove_streaming. rewrite filter_app, map_app. reflexivity. Qed.

Lemma find_method_own_nodup o l f :
  NoDup (map fn_name l) -> In f l -> find_method (map (fun x => (o, x)) l) (fn_name f) = Some (o, f).
Proof.
  induction l as [|a l IH]; intros Hnd Hin; [destruct Hin|].
  cbn [map] in Hnd. inversion Hnd as [|? ? Hna Hnd']; subst. cbn [map find_method snd].
  destruct Hin as [->|Hin]; [rewrite beqb_refl; reflexivity|].
  destruct (beqb (fn_name f) (fn_name a)) eqn:E.
  - exfalso. apply beqb_true in E. apply Hna. rewrite <- E. apply in_map. assumption.
  - apply IH; assumption.
Qed.

(* a function without the annotation is still dispatched under its IDL name by the processor of
   the service the generator sees, however many streaming functions surround it *)
Theorem kept_function_dispatched s f :
  In f (ss_funs s) -> fs_stream f = None ->
  NoDup (map fn_name (sv_funs (effective s))) ->
  find_method (own_methods (effective s)) (fn_name (fs_fn f)) = Some (ss_name s, fs_fn f).
Proof.
  intros Hin Hn Hnd. unfold own_methods. cbn [sv_name sv_funs effective] in *.
  apply find_method_own_nodup; [exact Hnd|].
  destruct (ss_main s); [|apply in_map; assumption].
  apply remove_streaming_spec. exists f. auto.
Qed.

Lemma find_method_none tbl name : (forall m, In m tbl -> fn_name (snd m) <> name) -> find_method tbl name = None.
Proof.
  induction tbl as [|a tbl IH]; intro H; [reflexivity|]. cbn [find_method].
  destruct (beqb name (fn_name (snd a))) eqn:E.
  - apply beqb_true in E. exfalso. apply (H a (or_introl eq_refl)). congruence.
  - apply IH. intros m Hm. apply H. right. assumption.
Qed.

(* a removed function is unknown to the processor (unless another, kept function has its name) *)
Theorem streaming_function_unknown s name :
  ss_main s = true ->
  (forall f, In f (ss_funs s) -> fn_name (fs_fn f) = name -> fs_stream f <> None) ->
  find_method (own_methods (effective s)) name = None.
Proof.
  intros Hmain H. apply find_method_none. intros m Hm Hname.
  unfold own_methods in Hm. apply in_map_iff in Hm. destruct Hm as (g & <- & Hg).
  cbn [effective sv_funs] in Hg. rewrite Hmain in Hg.
  apply remove_streaming_spec in Hg. destruct Hg as (f & Hin & Hfg & Hnone).
  apply (H f Hin); [rewrite Hfg; exact Hname | exact Hnone].
Qed.
