"""C13 — field-mask filtered serialization emits exactly the selected data
(generator/golang/templates/struct.go with_field_mask branches, generator/golang/thrift.go ZeroWriter,
fieldmask/mask.go queries)."""
import json
import os
import vlib


class S(vlib.Spec):
    prop = "C13"
    design_ref = "DESIGN.md section 3 / C13"
    coq_targets = ["Props/C13.vo", "Corr/C13.vo"]
    props_file = "Props/C13.v"
    harness_pkg = "./cmd/c13"
    harness_name = "c13"
    needs_thriftgo = True
    corr_codes = {1, 8, 9}
    code_names = {
        1: "model and implementation disagree",
        8: "input outside the modelled domain reached the comparison (harness must not produce it)",
        9: "model out of fuel",
        2: "bytes written under a mask are not a well-formed encoding (a list/set/map header count differs from the number of elements that follow)",
        3: "on the domain: bytes written under the mask do not decode to the value restricted to the path set",
        4: "nil mask: Write differs from code generated without with_field_mask",
        5: "nil mask set on an object that was written under a mask before: Write differs from code generated without the option",
        6: "on the domain: Read under the mask does not store the restriction of the message",
        7: "Read under a mask fails on a message that code generated without the option reads",
        10: "nil mask: Read differs from code generated without with_field_mask",
        11: "a filtered non-required field is on the wire, or a required field is missing",
        12: "a plain peer cannot decode what Write emitted under the mask",
        13: "a mask set on a non-root object: with field_mask_halfway the sub object is not its restriction, or without the option the mask has an effect",
    }
    names = {2: "malformed-encoding", 3: "write-not-the-restriction", 4: "nil-mask-write-differs", 5: "nil-mask-after-masked-write-differs",
             6: "read-not-the-restriction", 7: "masked-read-fails", 10: "nil-mask-read-differs", 11: "field-presence",
             12: "peer-cannot-decode", 13: "own-mask"}
    modelled = ("generator/golang/templates/struct.go with_field_mask branches: StructLikeWriteField (Field(id), required fields, zero values), "
                "FieldWriteStructLike/Map/Set/List (header pre-count loops and filtering loops, Set_FieldMask/Pass_FieldMask), "
                "StructLikeReadField, FieldReadStructLike/Map/Set/List (skip of filtered elements); generator/golang/thrift.go ZeroWriter "
                "-> coq/Wire/Masked.v (hand-written over an abstract selector, instantiated with the field-mask library model coq/Mask/Trie.v "
                "of property C14 and with residual path sets; after the repairs proposed_fixes/C13-1..6), on top of the standard codec "
                "coq/Wire/Std.v (property C02); Pass_FieldMask on objects that already carry sub masks (field_mask_halfway, a second Write "
                "of the same object) -> coq/Wire/MaskedHalfway.v, compared with the real second Write on every run; a mask set on a non-root "
                "struct value -> coq/Wire/MaskedOwn.v, compared through the driver verb mwrite_own; "
                "Wire/GenTables.v regenerated from generator/golang/types.go on every run")
    trusted_base = [
        "hand-written model coq/Wire/Masked.v (mirrors the with_field_mask branches of templates/struct.go and ZeroWriter) on top of Wire/Std.v, Wire/Value.v, Wire/Schema.v, Wire/Codec.v (C02's trusted base applies)",
        "the field-mask library model coq/Mask/{Path,Desc,Trie,Spec}.v of property C14 (queries Field/Int/Str/Exist/All, NewFieldMask); tied to fieldmask/*.go here through the masks the REAL library builds in every case and by C14's own check",
        "the descriptor the library sees is derived in Coq from the schema (Wire.Masked.dty_of / senv_of: typedefs resolved, union and exception types have no mask type) instead of being read from the generated reflection data",
        "objects are fresh or were written once before as fresh objects (Wire/MaskedHalfway.v models the sub masks a halfway Write leaves behind); one mask set by the user on a non-root struct value reached through struct-typed fields is modelled (Wire/MaskedOwn.v, driver verb mwrite_own); several such masks, masks on container elements and shared pointers are outside the model",
        "github.com/apache/thrift v0.13.0 TBinaryProtocol / TMemoryBuffer / Skip as modelled by Wire/Codec.v",
        "harness/schemagen, valgen, maskkit (path rendering), cmd/c13 (value-directed path lists), gendrv + gendrv/driver (c13_mask.go: builds the mask with the real NewFieldMask, Set_FieldMask, Write / Read), coqfmt, casefile, lib/vlib.py, harness/cmd/translate-wire",
        "the real thriftgo binary and go build are run on every check",
    ]
    assumptions = [
        "the end-to-end statements (masked_write_end_to_end, masked_read_end_to_end) are for path lists of C14's domain (in_mask_domain: grammatical, typed, conflict free; black lists without a trailing star) and rest on C14's build_sound (Mask/C14Facts.v), imported; outside the domain the mask-level theorems (every mask) and the correspondence apply",
        "field_mask_zero_required: the peer can decode a filtered required struct field only if that struct has no required field (known finding otherwise)",
        "map entries are selected by the key the asking side holds (they differ between writer and reader only for enum keys outside int32)",
    ]

    def translators(self, ctx):
        ok, log, binp = vlib.go_build("./cmd/translate-wire", "translate-wire")
        if not ok:
            return ["translate-wire: build failed: " + log[-500:]]
        rc, out = vlib.sh([binp, "-repo", vlib.REPO, "-out", os.path.join(vlib.COQ, "Wire", "GenTables.v")])
        return ["translate-wire -> Wire/GenTables.v: " + out.strip().splitlines()[-1] if out.strip() else "translate-wire: no output"]

    def producer_args(self, ctx):
        return ["-seed", str(ctx.seed), "-tier", ctx.tier, "-out", ctx.out, "-thriftgo", ctx.thriftgo,
                "-scratch", os.path.join(ctx.scratch, "gen")]

    def classify(self, code, case):
        case = case or {}
        opts = case.get("options", "")
        if code == 5 and "field_mask_halfway" in opts:
            return "C13-halfway-stale-submask"
        if code == 12 and "field_mask_zero_required" in opts:
            return "C13-zero-required-struct-undecodable"
        kind = case.get("kind", "?")
        mode = "nil" if case.get("nil_mask") else ("black" if case.get("black") else "white")
        return "C13-%s-%s-%s" % (self.names.get(code, "code-%d" % code), kind, mode)


def run(tier):
    return vlib.standard_run(S(), tier)


def replay(path):
    obj = json.load(open(path))
    print(json.dumps(obj, indent=1)[:6000])
    return 0
