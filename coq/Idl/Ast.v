(* Idl/Ast.v — the IDL abstract syntax tree shared by every IDL-side property.

   It mirrors /repo/parser/AST.thrift (Go: parser/AST.go) node by node and field by
   field.  The Go bridge is harness/idlast (the same shapes as Go structs, with JSON
   and Coq printers) and harness/astdump (real *parser.Thrift -> idlast).

   Conventions
   - strings are [bytes]; i32 / i64 are [Z] (the parser clamps / wraps before it
     stores, the models say where); doubles are their IEEE-754 binary64 bit pattern
     in [N] (what math.Float64bits returns);
   - optional pointers of the Go structs that the parser ALWAYS sets (Typedef.Type,
     Constant.Type, Constant.Value, Function.FunctionType, MapConstValue.Key/Value,
     ConstValue.TypedValue) are plain fields here; pointers that are really
     optional are [option];
   - fields written only by the semantic pass ("resolution info") are
       ty_category, ty_ref, ty_is_typedef      (parser leaves CatConstant/None/None)
       CIdent's extra                          (parser leaves None)
       in_used, sv_ref, f_name2cat             (parser leaves None)
     [strip_resolution] resets them; the parser models never fill them in;
   - comments the parser records are the [*_comments] fields ("ReservedComments");
     [strip_comments] resets them;
   - this file contains definitions only (no proofs): see AstFacts.v for the
     correctness of the equality tests and AstUtil.v for lookups and folds. *)
From Coq Require Import List Bool NArith ZArith.
From Coq.Strings Require Import Byte String.
From Verif Require Import Base.Bytes.
Import ListNotations.
Local Open Scope string_scope.

(* ---------------------------------------------------------------- enumerations *)

(* parser.Category, in the numeric order of AST.thrift (Constant = 0 is the Go zero
   value, i.e. what an unresolved Type carries). *)
Inductive category :=
| CatConstant | CatBool | CatByte | CatI16 | CatI32 | CatI64 | CatDouble | CatString
| CatBinary | CatMap | CatList | CatSet | CatEnum | CatStruct | CatUnion
| CatException | CatTypedef | CatService.

Definition category_code (c : category) : N :=
  match c with
  | CatConstant => 0 | CatBool => 1 | CatByte => 2 | CatI16 => 3 | CatI32 => 4
  | CatI64 => 5 | CatDouble => 6 | CatString => 7 | CatBinary => 8 | CatMap => 9
  | CatList => 10 | CatSet => 11 | CatEnum => 12 | CatStruct => 13 | CatUnion => 14
  | CatException => 15 | CatTypedef => 16 | CatService => 17
  end%N.

Definition category_eqb (a b : category) : bool := N.eqb (category_code a) (category_code b).

(* parser.FieldType: requiredness of a field *)
Inductive requiredness := ReqDefault | ReqRequired | ReqOptional.

Definition requiredness_eqb (a b : requiredness) : bool :=
  match a, b with
  | ReqDefault, ReqDefault | ReqRequired, ReqRequired | ReqOptional, ReqOptional => true
  | _, _ => false
  end.

(* StructLike.Category is the Go string "struct" / "union" / "exception" *)
Inductive sl_kind := SKStruct | SKUnion | SKException.

Definition sl_kind_eqb (a b : sl_kind) : bool :=
  match a, b with
  | SKStruct, SKStruct | SKUnion, SKUnion | SKException, SKException => true
  | _, _ => false
  end.

Definition sl_kind_name (k : sl_kind) : bytes :=
  match k with SKStruct => B "struct" | SKUnion => B "union" | SKException => B "exception" end.
Local Close Scope string_scope.

(* ---------------------------------------------------------------- small nodes *)

(* parser.Reference: a name in the [ref_index]-th include of the current file *)
Record reference := Ref { ref_name : bytes; ref_index : Z }.

(* parser.Annotation; [annotations] is an ordered list, keys pairwise distinct when
   built by the parser (Annotations.Append groups repeated keys) *)
Record annotation := Anno { an_key : bytes; an_values : list bytes }.
Definition annotations := list annotation.

(* parser.Type *)
Inductive ty := Ty {
  ty_name : bytes;               (* base type | "map" "set" "list" | identifier | inc.identifier *)
  ty_key : option ty;            (* map only *)
  ty_value : option ty;          (* map, set, list *)
  ty_cpp : bytes;                (* cpp_type literal, "" when absent *)
  ty_annos : annotations;
  ty_category : category;        (* resolution: final category *)
  ty_ref : option reference;     (* resolution: external type *)
  ty_is_typedef : option bool    (* resolution: name is a typedef *)
}.

(* a Type as the parser builds it (no resolution info) *)
Definition ty_plain (name : bytes) (k v : option ty) (cpp : bytes) (an : annotations) : ty :=
  Ty name k v cpp an CatConstant None None.
Definition ty_named (name : bytes) : ty := ty_plain name None None [] [].

(* parser.ConstValueExtra *)
Record const_extra := Extra { ex_is_enum : bool; ex_index : Z; ex_name : bytes; ex_sel : bytes }.

(* parser.ConstValue (+ ConstTypedValue, MapConstValue).  [Extra] is only ever set on
   identifiers, so it lives on that constructor. *)
Inductive const_value :=
| CDouble (bits : N)                                   (* binary64 bit pattern *)
| CInt (z : Z)                                         (* i64 *)
| CLiteral (s : bytes)                                 (* text between the quotes after unescaping *)
| CIdent (s : bytes) (extra : option const_extra)      (* resolution: extra *)
| CList (l : list const_value)
| CMap (l : list (const_value * const_value)).

(* parser.Namespace *)
Record namespace := Namespace { ns_language : bytes; ns_name : bytes; ns_annos : annotations }.

(* parser.Typedef *)
Record typedef := Typedef { td_type : ty; td_alias : bytes; td_annos : annotations; td_comments : bytes }.

(* parser.EnumValue / parser.Enum *)
Record enum_value := EnumValue { ev_name : bytes; ev_value : Z; ev_annos : annotations; ev_comments : bytes }.
Record enum := Enum { en_name : bytes; en_values : list enum_value; en_annos : annotations; en_comments : bytes }.

(* parser.Constant *)
Record constant := Constant {
  co_name : bytes; co_type : ty; co_value : const_value; co_annos : annotations; co_comments : bytes }.

(* parser.Field (struct/union/exception fields, function arguments, throws) *)
Record field := Field {
  fd_id : Z;                       (* i32 *)
  fd_name : bytes;
  fd_req : requiredness;
  fd_type : ty;
  fd_default : option const_value;
  fd_annos : annotations;
  fd_comments : bytes }.

(* parser.StructLike *)
Record struct_like := StructLike {
  sl_category : sl_kind; sl_name : bytes; sl_fields : list field; sl_annos : annotations; sl_comments : bytes }.

(* parser.Function *)
Record function := Function {
  fn_name : bytes;
  fn_oneway : bool;
  fn_void : bool;
  fn_type : ty;                    (* Ty "void" when fn_void *)
  fn_args : list field;
  fn_throws : list field;
  fn_annos : annotations;
  fn_comments : bytes }.

(* parser.Service *)
Record service := Service {
  sv_name : bytes;
  sv_extends : bytes;              (* "" when absent *)
  sv_functions : list function;
  sv_annos : annotations;
  sv_ref : option reference;       (* resolution: base service lives in an include *)
  sv_comments : bytes }.

(* parser.Include.  Go's [Reference *Thrift] is represented by the Filename of the
   referenced AST, a key of the enclosing [program]. *)
Record include := Include {
  in_path : bytes;                 (* the literal of the include statement *)
  in_ref : option bytes;           (* Filename of the parsed include, None when not parsed *)
  in_used : option bool }.         (* resolution *)

(* parser.Thrift: one IDL file *)
Record file := File {
  f_filename : bytes;
  f_includes : list include;
  f_cpp_includes : list bytes;
  f_namespaces : list namespace;
  f_typedefs : list typedef;
  f_constants : list constant;
  f_enums : list enum;
  f_structs : list struct_like;
  f_unions : list struct_like;
  f_exceptions : list struct_like;
  f_services : list service;
  f_name2cat : option (list (bytes * category)) }.   (* resolution: Name2Category, sorted by name; None = nil map *)

Definition empty_file (name : bytes) : file := File name [] [] [] [] [] [] [] [] [] [] None.

(* A multi-file program: Filename -> file.  The first entry is the main file, the
   others follow in the order the recursive parser first reaches them (depth first,
   include order). *)
Definition program := list (bytes * file).

Definition prog_main (p : program) : option file :=
  match p with [] => None | (_, f) :: _ => Some f end.
Definition prog_file (p : program) (filename : bytes) : option file := lookup filename p.

(* ---------------------------------------------------------------- generic equality helpers *)

Definition opt_eqb {A} (eq : A -> A -> bool) (a b : option A) : bool :=
  match a, b with
  | Some x, Some y => eq x y
  | None, None => true
  | _, _ => false
  end.

Fixpoint list_eqb {A} (eq : A -> A -> bool) (a b : list A) : bool :=
  match a, b with
  | [], [] => true
  | x :: a', y :: b' => eq x y && list_eqb eq a' b'
  | _, _ => false
  end.

(* ---------------------------------------------------------------- structural equality *)

Definition reference_eqb (a b : reference) : bool :=
  beqb (ref_name a) (ref_name b) && Z.eqb (ref_index a) (ref_index b).

Definition annotation_eqb (a b : annotation) : bool :=
  beqb (an_key a) (an_key b) && list_eqb beqb (an_values a) (an_values b).
Definition annotations_eqb : annotations -> annotations -> bool := list_eqb annotation_eqb.

Fixpoint ty_eqb (a b : ty) : bool :=
  match a, b with
  | Ty n1 k1 v1 c1 an1 cat1 r1 t1, Ty n2 k2 v2 c2 an2 cat2 r2 t2 =>
    beqb n1 n2 &&
    match k1, k2 with Some x, Some y => ty_eqb x y | None, None => true | _, _ => false end &&
    match v1, v2 with Some x, Some y => ty_eqb x y | None, None => true | _, _ => false end &&
    beqb c1 c2 && annotations_eqb an1 an2 && category_eqb cat1 cat2 &&
    opt_eqb reference_eqb r1 r2 && opt_eqb Bool.eqb t1 t2
  end.

Definition const_extra_eqb (a b : const_extra) : bool :=
  Bool.eqb (ex_is_enum a) (ex_is_enum b) && Z.eqb (ex_index a) (ex_index b) &&
  beqb (ex_name a) (ex_name b) && beqb (ex_sel a) (ex_sel b).

Fixpoint const_value_eqb (a b : const_value) : bool :=
  match a, b with
  | CDouble x, CDouble y => N.eqb x y
  | CInt x, CInt y => Z.eqb x y
  | CLiteral x, CLiteral y => beqb x y
  | CIdent x ex, CIdent y ey => beqb x y && opt_eqb const_extra_eqb ex ey
  | CList l1, CList l2 =>
    (fix go (l1 l2 : list const_value) : bool :=
       match l1, l2 with
       | [], [] => true
       | x :: r1, y :: r2 => const_value_eqb x y && go r1 r2
       | _, _ => false
       end) l1 l2
  | CMap l1, CMap l2 =>
    (fix go (l1 l2 : list (const_value * const_value)) : bool :=
       match l1, l2 with
       | [], [] => true
       | (k1, v1) :: r1, (k2, v2) :: r2 => const_value_eqb k1 k2 && const_value_eqb v1 v2 && go r1 r2
       | _, _ => false
       end) l1 l2
  | _, _ => false
  end.

Definition namespace_eqb (a b : namespace) : bool :=
  beqb (ns_language a) (ns_language b) && beqb (ns_name a) (ns_name b) && annotations_eqb (ns_annos a) (ns_annos b).

Definition typedef_eqb (a b : typedef) : bool :=
  ty_eqb (td_type a) (td_type b) && beqb (td_alias a) (td_alias b) &&
  annotations_eqb (td_annos a) (td_annos b) && beqb (td_comments a) (td_comments b).

Definition enum_value_eqb (a b : enum_value) : bool :=
  beqb (ev_name a) (ev_name b) && Z.eqb (ev_value a) (ev_value b) &&
  annotations_eqb (ev_annos a) (ev_annos b) && beqb (ev_comments a) (ev_comments b).

Definition enum_eqb (a b : enum) : bool :=
  beqb (en_name a) (en_name b) && list_eqb enum_value_eqb (en_values a) (en_values b) &&
  annotations_eqb (en_annos a) (en_annos b) && beqb (en_comments a) (en_comments b).

Definition constant_eqb (a b : constant) : bool :=
  beqb (co_name a) (co_name b) && ty_eqb (co_type a) (co_type b) &&
  const_value_eqb (co_value a) (co_value b) && annotations_eqb (co_annos a) (co_annos b) &&
  beqb (co_comments a) (co_comments b).

Definition field_eqb (a b : field) : bool :=
  Z.eqb (fd_id a) (fd_id b) && beqb (fd_name a) (fd_name b) && requiredness_eqb (fd_req a) (fd_req b) &&
  ty_eqb (fd_type a) (fd_type b) && opt_eqb const_value_eqb (fd_default a) (fd_default b) &&
  annotations_eqb (fd_annos a) (fd_annos b) && beqb (fd_comments a) (fd_comments b).

Definition struct_like_eqb (a b : struct_like) : bool :=
  sl_kind_eqb (sl_category a) (sl_category b) && beqb (sl_name a) (sl_name b) &&
  list_eqb field_eqb (sl_fields a) (sl_fields b) && annotations_eqb (sl_annos a) (sl_annos b) &&
  beqb (sl_comments a) (sl_comments b).

Definition function_eqb (a b : function) : bool :=
  beqb (fn_name a) (fn_name b) && Bool.eqb (fn_oneway a) (fn_oneway b) && Bool.eqb (fn_void a) (fn_void b) &&
  ty_eqb (fn_type a) (fn_type b) && list_eqb field_eqb (fn_args a) (fn_args b) &&
  list_eqb field_eqb (fn_throws a) (fn_throws b) && annotations_eqb (fn_annos a) (fn_annos b) &&
  beqb (fn_comments a) (fn_comments b).

Definition service_eqb (a b : service) : bool :=
  beqb (sv_name a) (sv_name b) && beqb (sv_extends a) (sv_extends b) &&
  list_eqb function_eqb (sv_functions a) (sv_functions b) && annotations_eqb (sv_annos a) (sv_annos b) &&
  opt_eqb reference_eqb (sv_ref a) (sv_ref b) && beqb (sv_comments a) (sv_comments b).

Definition include_eqb (a b : include) : bool :=
  beqb (in_path a) (in_path b) && opt_eqb beqb (in_ref a) (in_ref b) && opt_eqb Bool.eqb (in_used a) (in_used b).

Definition name2cat_eqb (a b : list (bytes * category)) : bool :=
  list_eqb (fun x y => beqb (fst x) (fst y) && category_eqb (snd x) (snd y)) a b.

(* full structural equality of two files: every field of every node, including
   comments and resolution info *)
Definition file_eqb (a b : file) : bool :=
  beqb (f_filename a) (f_filename b) &&
  list_eqb include_eqb (f_includes a) (f_includes b) &&
  list_eqb beqb (f_cpp_includes a) (f_cpp_includes b) &&
  list_eqb namespace_eqb (f_namespaces a) (f_namespaces b) &&
  list_eqb typedef_eqb (f_typedefs a) (f_typedefs b) &&
  list_eqb constant_eqb (f_constants a) (f_constants b) &&
  list_eqb enum_eqb (f_enums a) (f_enums b) &&
  list_eqb struct_like_eqb (f_structs a) (f_structs b) &&
  list_eqb struct_like_eqb (f_unions a) (f_unions b) &&
  list_eqb struct_like_eqb (f_exceptions a) (f_exceptions b) &&
  list_eqb service_eqb (f_services a) (f_services b) &&
  opt_eqb name2cat_eqb (f_name2cat a) (f_name2cat b).

Definition program_eqb (p q : program) : bool :=
  list_eqb (fun x y => beqb (fst x) (fst y) && file_eqb (snd x) (snd y)) p q.

(* ---------------------------------------------------------------- generic map over a file *)

(* [map_file fty fcv fcm fres] rebuilds a file applying
     fty  to every top-level type occurrence (typedef, constant, field, function type),
     fcv  to every top-level const value (constant value, field default),
     fcm  to every recorded comment,
   and, when [fres] is true, dropping the non-type resolution info (in_used, sv_ref,
   f_name2cat).  The strip functions below are instances. *)
Section MapFile.
  Context (fty : ty -> ty) (fcv : const_value -> const_value) (fcm : bytes -> bytes) (fres : bool).

  Definition map_field (f : field) : field :=
    Field (fd_id f) (fd_name f) (fd_req f) (fty (fd_type f)) (option_map fcv (fd_default f))
          (fd_annos f) (fcm (fd_comments f)).
  Definition map_typedef (t : typedef) : typedef :=
    Typedef (fty (td_type t)) (td_alias t) (td_annos t) (fcm (td_comments t)).
  Definition map_constant (c : constant) : constant :=
    Constant (co_name c) (fty (co_type c)) (fcv (co_value c)) (co_annos c) (fcm (co_comments c)).
  Definition map_enum_value (v : enum_value) : enum_value :=
    EnumValue (ev_name v) (ev_value v) (ev_annos v) (fcm (ev_comments v)).
  Definition map_enum (e : enum) : enum :=
    Enum (en_name e) (map map_enum_value (en_values e)) (en_annos e) (fcm (en_comments e)).
  Definition map_struct_like (s : struct_like) : struct_like :=
    StructLike (sl_category s) (sl_name s) (map map_field (sl_fields s)) (sl_annos s) (fcm (sl_comments s)).
  Definition map_function (f : function) : function :=
    Function (fn_name f) (fn_oneway f) (fn_void f) (fty (fn_type f)) (map map_field (fn_args f))
             (map map_field (fn_throws f)) (fn_annos f) (fcm (fn_comments f)).
  Definition map_service (s : service) : service :=
    Service (sv_name s) (sv_extends s) (map map_function (sv_functions s)) (sv_annos s)
            (if fres then None else sv_ref s) (fcm (sv_comments s)).
  Definition map_include (i : include) : include :=
    Include (in_path i) (in_ref i) (if fres then None else in_used i).
  Definition map_file (f : file) : file :=
    File (f_filename f) (map map_include (f_includes f)) (f_cpp_includes f) (f_namespaces f)
         (map map_typedef (f_typedefs f)) (map map_constant (f_constants f)) (map map_enum (f_enums f))
         (map map_struct_like (f_structs f)) (map map_struct_like (f_unions f))
         (map map_struct_like (f_exceptions f)) (map map_service (f_services f))
         (if fres then None else f_name2cat f).
End MapFile.

(* ---------------------------------------------------------------- stripping *)

Fixpoint ty_strip (t : ty) : ty :=
  match t with
  | Ty n k v c an _ _ _ =>
    Ty n (match k with Some x => Some (ty_strip x) | None => None end)
         (match v with Some x => Some (ty_strip x) | None => None end) c an CatConstant None None
  end.

Fixpoint cv_strip (c : const_value) : const_value :=
  match c with
  | CIdent s _ => CIdent s None
  | CList l => CList (map cv_strip l)
  | CMap l => CMap (map (fun kv => (cv_strip (fst kv), cv_strip (snd kv))) l)
  | other => other
  end.

(* forget every recorded comment *)
Definition strip_comments (f : file) : file :=
  map_file (fun t => t) (fun c => c) (fun _ => []) false f.

(* forget everything the semantic pass writes: the result is what the parser alone
   would have produced, except that the pass also rewrites the requiredness of union
   fields to optional, which cannot be undone *)
Definition strip_resolution (f : file) : file :=
  map_file ty_strip cv_strip (fun c => c) true f.

(* equality up to recorded comments *)
Definition file_eqb_nc (a b : file) : bool := file_eqb (strip_comments a) (strip_comments b).

(* equality of the syntactic content: up to recorded comments and resolution info *)
Definition file_eqb_syn (a b : file) : bool :=
  file_eqb (strip_resolution (strip_comments a)) (strip_resolution (strip_comments b)).

Definition program_eqb_syn (p q : program) : bool :=
  list_eqb (fun x y => beqb (fst x) (fst y) && file_eqb_syn (snd x) (snd y)) p q.
