(* Idl/ResolveSyntax.v — resolution only fills in resolution fields: the symbol table of
   every file ([file_defs], [file_incs], hence [def_of]) is the same before and after. *)
From Coq Require Import List Bool Arith Lia NArith ZArith Permutation.
From Coq.Strings Require Import Byte.
From Verif Require Import Base.Bytes Idl.Ast Idl.AstUtil Idl.AstFacts Idl.Resolve Idl.ResolveSpec Idl.ResolveTd
     Idl.ResolveLemmas Idl.ResolveInv Idl.ResolveConst Idl.ResolveProg Idl.ResolvableSpec Idl.ResolveComplete.
Import ListNotations.
Local Open Scope resolve_scope.

Lemma fix_ty_name done f st t t' : fix_ty done f st t = Ok t' -> ty_name t' = ty_name t.
Proof.
  destruct t as [n k v cpp an c r td]. cbn [fix_ty]. intros H. inv_bind H.
  destruct (is_typedef_cat c); [|injection H as <-; reflexivity].
  destruct (match r with Some rf => ext_typedef_cat done f rf | None => te_lookup st n end) as [c'|]; [|discriminate].
  destruct (is_typedef_cat c'); [discriminate|]. injection H as <-. reflexivity.
Qed.

Lemma two_pass_map {A B C K} (r : A -> result B) (fx : B -> result C) (ka : A -> K) (kc : C -> K) l l1 l2 :
  mapM r l = Ok l1 -> mapM fx l1 = Ok l2 ->
  (forall x y z, r x = Ok y -> fx y = Ok z -> kc z = ka x) -> map kc l2 = map ka l.
Proof.
  intros H1 H2 Hk. eapply Forall2_map_eq; [exact (two_mapM _ _ _ _ _ H1 H2)|].
  intros x z (y & Hxy & Hyz). eapply Hk; eauto.
Qed.

Lemma resolve_file_syntax done f f' :
  resolve_file_in done f = Ok f' -> file_defs f' = file_defs f /\ file_incs f' = file_incs f.
Proof.
  intros H. unfold resolve_file_in in H. inv_bind H. injection H as <-. split.
  - unfold file_defs, struct_likes. cbn [with_includes f_typedefs f_constants f_enums f_structs f_unions f_exceptions f_services].
    rewrite !map_app.
    rewrite (two_pass_map _ _ (fun t => (td_alias t, DkTypedef (ty_name (td_type t)))) (fun t => (td_alias t, DkTypedef (ty_name (td_type t)))) _ _ _ E0 E7).
    2:{ intros a b c Hab Hbc. unfold resolve_typedef in Hab. inv_bind Hab. injection Hab as <-.
        unfold fix_typedef in Hbc. inv_bind Hbc. injection Hbc as <-. cbn [td_alias td_type] in *.
        rewrite (fix_ty_name _ _ _ _ _ E14), (proj1 (resolve_ty_head1 _ _ _ _ E13)). reflexivity. }
    rewrite (two_pass_map _ _ (fun c => (co_name c, DkConst)) (fun c => (co_name c, DkConst)) _ _ _ E1 E8).
    2:{ intros a b c Hab Hbc. unfold resolve_constant in Hab. inv_bind Hab. injection Hab as <-.
        unfold fix_constant in Hbc. inv_bind Hbc. injection Hbc as <-. reflexivity. }
    assert (Hsl : forall l l1 l2, mapM (resolve_struct_like (enum_fuel done (with_typedefs (with_name2cat f (Some x)) x0)) done (with_typedefs (with_name2cat f (Some x)) x0)) l = Ok l1 ->
              mapM (fix_struct_like done (with_typedefs (with_name2cat f (Some x)) x0) x6) l1 = Ok l2 ->
              map (fun s => (sl_name s, DkStruct (sl_category s))) l2 = map (fun s => (sl_name s, DkStruct (sl_category s))) l).
    { intros l l1 l2 H1 H2. eapply two_pass_map; eauto. intros a b c Hab Hbc.
      unfold resolve_struct_like in Hab. inv_bind Hab. injection Hab as <-.
      unfold fix_struct_like in Hbc. inv_bind Hbc. injection Hbc as <-. reflexivity. }
    rewrite (Hsl _ _ _ E2 E9), (Hsl _ _ _ E3 E10), (Hsl _ _ _ E4 E11).
    rewrite (two_pass_map _ _ (fun s => (sv_name s, DkService)) (fun s => (sv_name s, DkService)) _ _ _ E5 E12).
    2:{ intros a b c Hab Hbc. unfold resolve_service in Hab. inv_bind Hab. injection Hab as <-.
        unfold fix_service in Hbc. inv_bind Hbc. injection Hbc as <-. reflexivity. }
    reflexivity.
  - unfold file_incs. cbn [with_includes f_includes].
    generalize 0. generalize (file_marks (File (f_filename f) (f_includes f) (f_cpp_includes f) (f_namespaces f) x7 x8 (f_enums f) x9 x10 x11 x12 (Some x))).
    intros marks. induction (f_includes f) as [|i l IH]; intros n; cbn [mark_includes map in_path in_ref]; [reflexivity|]. rewrite IH. reflexivity.
Qed.

Definition syn_inv (p done : program) : Prop :=
  forall gn g', lookup gn done = Some g' ->
    exists g, prog_file p gn = Some g /\ file_defs g' = file_defs g /\ file_incs g' = file_incs g.

Lemma resolve_rec_syntax p : forall fuel done fn done',
  syn_inv p done -> resolve_rec fuel p done fn = Ok done' -> syn_inv p done'.
Proof.
  induction fuel as [|k IH]; intros done fn done' Hs H.
  - cbn [resolve_rec] in H. destruct (lookup fn done); [|discriminate]. injection H as <-. exact Hs.
  - rewrite resolve_rec_unfold in H. destruct (lookup fn done) eqn:L; [injection H as <-; exact Hs|].
    destruct (prog_file p fn) as [f|] eqn:Pf; [|discriminate]. inv_bind H. rename x into done1.
    assert (Hgo : forall incs d d1, syn_inv p d -> go_includes k p incs d = Ok d1 -> syn_inv p d1).
    { induction incs as [|i incs IHi]; intros d d1 Hd Hg; cbn [go_includes] in Hg.
      - injection Hg as <-. exact Hd.
      - destruct (in_ref i) as [g|]; [|discriminate]. inv_bind Hg. eapply IHi; [|exact Hg]. eapply IH; eauto. }
    pose proof (Hgo _ _ _ Hs E) as S1.
    destruct (lookup fn done1); [discriminate|]. inv_bind H. injection H as <-.
    destruct (resolve_file_syntax _ _ _ E0) as (Hd & Hi).
    intros gn g' Hl. cbn [lookup] in Hl. destruct (beqb gn fn) eqn:Eg.
    + apply beqb_true in Eg. subst. injection Hl as <-. eauto.
    + exact (S1 gn g' Hl).
Qed.

(* resolution preserves the definitions: every file of the result has the symbol table of
   the file of the same name of the input (for ALL programs, reached files or not) *)
Theorem resolution_preserves_definitions p r :
  resolve_program p = Ok r ->
  (forall fn f', prog_file r fn = Some f' ->
     exists f, prog_file p fn = Some f /\ file_defs f' = file_defs f /\ file_incs f' = file_incs f) /\
  (forall fn, prog_file r fn = None <-> prog_file p fn = None) /\
  (forall fn n, def_of r fn n = def_of p fn n).
Proof.
  intros H. unfold resolve_program in H.
  assert (G : forall fn f', prog_file r fn = Some f' ->
     exists f, prog_file p fn = Some f /\ file_defs f' = file_defs f /\ file_incs f' = file_incs f).
  { destruct p as [|[mainfn mf] p'] eqn:Ep; [injection H as <-; intros; discriminate|].
    rewrite <- Ep in *. inv_bind H. injection H as <-. rename x into done.
    assert (Hs0 : syn_inv p []) by (intros ? ? Hl; discriminate).
    pose proof (resolve_rec_syntax p _ _ _ _ Hs0 E) as Hsv.
    intros fn f' Hf. unfold prog_file in *. rewrite lookup_map_done in Hf.
    destruct (lookup fn p) as [f|] eqn:Lf; [|discriminate]. injection Hf as Hf.
    destruct (lookup fn done) as [f2|] eqn:Ld.
    - subst f2. destruct (Hsv fn f' Ld) as (g & Hg & Hd & Hi). unfold prog_file in Hg. rewrite Lf in Hg. injection Hg as <-. eauto.
    - subst f'. eauto. }
  assert (N : forall fn, prog_file r fn = None <-> prog_file p fn = None).
  { destruct p as [|[mainfn mf] p'] eqn:Ep; [injection H as <-; tauto|].
    rewrite <- Ep in *. inv_bind H. injection H as <-. intros fn. unfold prog_file. rewrite lookup_map_done.
    destruct (lookup fn p); split; intros; congruence. }
  split; [exact G|]. split; [exact N|].
  intros fn n. unfold def_of. destruct (prog_file r fn) as [f'|] eqn:Rf.
  - destruct (G fn f' Rf) as (f & -> & -> & _). reflexivity.
  - rewrite (proj1 (N fn) Rf). reflexivity.
Qed.
