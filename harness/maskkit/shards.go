package maskkit

import (
	"bufio"
	"encoding/json"
	"fmt"
	"os"
	"path/filepath"
)

// ShardWriter writes correspondence cases like harness/casefile (cases_NNN.v with a parallel
// cases_NNN.jsonl), but hands the case list straight to `mismatches` under vm_compute, so that
// the (large) list of cases is elaborated once and not stored in the compiled file.
type ShardWriter struct {
	dir      string
	header   string
	perShard int
	shard    int
	n        int
	total    int
	v, j     *bufio.Writer
	vf, jf   *os.File
	Shards   []string
}

func NewShardWriter(dir, header string, perShard int) *ShardWriter {
	return &ShardWriter{dir: dir, header: header, perShard: perShard}
}

func (w *ShardWriter) open() error {
	name := fmt.Sprintf("cases_%03d", w.shard)
	vf, err := os.Create(filepath.Join(w.dir, name+".v"))
	if err != nil {
		return err
	}
	jf, err := os.Create(filepath.Join(w.dir, name+".jsonl"))
	if err != nil {
		return err
	}
	w.vf, w.jf = vf, jf
	w.v, w.j = bufio.NewWriterSize(vf, 1<<20), bufio.NewWriterSize(jf, 1<<20)
	fmt.Fprintf(w.v, "%s\nFrom Coq Require Import List NArith ZArith String.\nImport ListNotations.\nOpen Scope string_scope.\nSet Printing Depth 10000000.\nSet Printing Width 2000.\nDefinition R := Eval vm_compute in (mismatches [\n", w.header)
	w.Shards = append(w.Shards, name)
	w.n = 0
	return nil
}

func (w *ShardWriter) closeShard() error {
	if w.v == nil {
		return nil
	}
	fmt.Fprintf(w.v, "\n]).\nPrint R.\n")
	if err := w.v.Flush(); err != nil {
		return err
	}
	if err := w.j.Flush(); err != nil {
		return err
	}
	w.vf.Close()
	w.jf.Close()
	w.v, w.j = nil, nil
	w.shard++
	return nil
}

// Add appends one case: its Coq term and a JSON description used for replay files.
func (w *ShardWriter) Add(coqTerm string, desc interface{}) error {
	if w.v == nil {
		if err := w.open(); err != nil {
			return err
		}
	}
	if w.n > 0 {
		w.v.WriteString(";\n")
	}
	w.v.WriteString(" ")
	w.v.WriteString(coqTerm)
	b, err := json.Marshal(desc)
	if err != nil {
		return err
	}
	w.j.Write(b)
	w.j.WriteByte('\n')
	w.n++
	w.total++
	if w.n >= w.perShard {
		return w.closeShard()
	}
	return nil
}

func (w *ShardWriter) Total() int   { return w.total }
func (w *ShardWriter) Close() error { return w.closeShard() }
