(* Mask/TrieFacts.v — proofs about the field-mask model (Mask/Trie.v) against the path-set
   specification (Mask/Spec.v).
   Plan: [ins] is the clean insertion of one typed grouped path, [compat] the (decidable)
   condition under which the code-shaped [add_path] coincides with it;
   - add_path_ins  : on grammatical, typed token lists  add_path = Ok (ins ..)   (refinement)
   - compat_frame  : paths that do not conflict pairwise stay compatible          (totality)
   - ins_walk_white / ins_walk_black : what one insertion does to every query walk
   and from these the theorems of Props/C14.v. *)
From Coq Require Import List Bool ZArith Lia Permutation.
From Coq.Strings Require Import Byte.
From Verif Require Import Base.Bytes Mask.Path Mask.Desc Mask.Trie Mask.Spec.
Import ListNotations.

(* ------------------------------------------------------------------ keys, stores *)

Lemma key_eqb_eq a b : key_eqb a b = true <-> a = b.
Proof.
  destruct a, b; cbn; try (split; [discriminate | discriminate]); try tauto.
  - rewrite Z.eqb_eq. split; congruence.
  - rewrite Z.eqb_eq. split; congruence.
  - rewrite beqb_true. split; congruence.
Qed.

Lemma key_eqb_refl a : key_eqb a a = true.
Proof. apply key_eqb_eq; reflexivity. Qed.

Lemma key_eqb_neq a b : key_eqb a b = false <-> a <> b.
Proof.
  split.
  - intros H E. apply key_eqb_eq in E. congruence.
  - intros H. destruct (key_eqb a b) eqn:E; [apply key_eqb_eq in E; contradiction | reflexivity].
Qed.

Lemma key_eqb_sym a b : key_eqb a b = key_eqb b a.
Proof.
  destruct (key_eqb a b) eqn:E; symmetry.
  - apply key_eqb_eq in E; subst. apply key_eqb_refl.
  - apply key_eqb_neq. apply key_eqb_neq in E. congruence.
Qed.

Lemma klookup_kupsert_same k c l : klookup k (kupsert k c l) = Some c.
Proof.
  induction l as [|[k' c'] l IH]; cbn; [rewrite key_eqb_refl; reflexivity|].
  destruct (key_eqb k k') eqn:E; cbn; [rewrite key_eqb_refl | rewrite E]; auto.
Qed.

Lemma klookup_kupsert_other k k' c l : k <> k' -> klookup k' (kupsert k c l) = klookup k' l.
Proof.
  intro Hne. induction l as [|[k2 c2] l IH]; cbn.
  - assert (key_eqb k' k = false) as -> by (apply key_eqb_neq; congruence). reflexivity.
  - destruct (key_eqb k k2) eqn:E; cbn.
    + apply key_eqb_eq in E; subst k2.
      assert (key_eqb k' k = false) as -> by (apply key_eqb_neq; congruence). reflexivity.
    + destruct (key_eqb k' k2); auto.
Qed.

Lemma kupsert_not_nil k c l : kupsert k c l <> [].
Proof. destruct l as [|[k' c'] l]; cbn; [discriminate|]. destruct (key_eqb k k'); discriminate. Qed.

(* ------------------------------------------------------------------ node accessors *)

Lemma mask_eta m : Node (m_typ m) (m_isall m) (m_black m) (m_kids m) = m.
Proof. destruct m; reflexivity. Qed.

Lemma set_typ_same m : set_typ m (m_typ m) = m.
Proof. destruct m; reflexivity. Qed.

Lemma m_kids_put k c cur : m_kids (put k c cur) = kupsert k c (m_kids cur).
Proof. reflexivity. Qed.
Lemma m_typ_put k c cur : m_typ (put k c cur) = m_typ cur.
Proof. reflexivity. Qed.
Lemma m_isall_put k c cur : m_isall (put k c cur) = m_isall cur.
Proof. reflexivity. Qed.
Lemma m_black_put k c cur : m_black (put k c cur) = m_black cur.
Proof. reflexivity. Qed.

Lemma live_put k c cur : live (put k c cur) = live cur.
Proof. reflexivity. Qed.

Lemma slot_put_other k k' t c cur : k <> k' -> slot k' t (put k c cur) = slot k' t cur.
Proof. intro H. unfold slot. rewrite m_kids_put, klookup_kupsert_other, m_black_put by assumption. reflexivity. Qed.

(* ------------------------------------------------------------------ clean insertion *)

Definition child_ins (k : key) (t : ft) (f : mask -> mask) (cur : mask) : mask :=
  put k (f (slot k t cur)) cur.

Definition ins_keys (ks : list key) (t : ft) (f : mask -> mask) (cur : mask) : mask :=
  fold_left (fun c k => child_ins k t f c) ks cur.

(* the store keys a typed segment selects, the type of the nodes below, star or not *)
Definition gkeys (s : gseg) : list key :=
  match s with
  | GFld i _ => [KF i]
  | GInts ids _ => map KI ids
  | GStrs ss _ => map KS ss
  | GStar _ | GStarF _ => [KAll]
  end.
Definition gft (s : gseg) : ft :=
  match s with GFld _ t | GInts _ t | GStrs _ t | GStar t | GStarF t => t end.
Definition is_gstar (s : gseg) : bool :=
  match s with GStar _ | GStarF _ => true | _ => false end.

Fixpoint ins (g : gpath) (cur : mask) : mask :=
  match g with
  | [] => set_isall cur true
  | s :: r => ins_keys (gkeys s) (gft s) (ins r) (if is_gstar s then set_isall cur true else cur)
  end.

Definition nokall (cur : mask) : bool :=
  match klookup KAll (m_kids cur) with None => true | Some _ => false end.

(* the slot of k is free, or holds a set child of the expected type that accepts the rest *)
Definition sub_ok (k : key) (t : ft) (rest_ok : mask -> bool) (cur : mask) : bool :=
  match klookup k (m_kids cur) with
  | None => rest_ok (fresh t (m_black cur))
  | Some c => live c && ft_eqb (m_typ c) t && rest_ok c
  end.

Definition nonempty {A} (l : list A) : bool := match l with [] => false | _ => true end.

Definition fresh_state (cur : mask) : bool := negb (m_isall cur) && negb (nonempty (m_kids cur)).

Definition star_state (cur : mask) : bool :=
  match m_kids cur with
  | [] => negb (m_isall cur)
  | [(KAll, _)] => m_isall cur
  | _ => false
  end.

(* the node accepts the typed path without conflict *)
Fixpoint compat (g : gpath) (cur : mask) : bool :=
  match g with
  | [] => negb (nonempty (m_kids cur))
  | s :: r =>
      ok_ft (gft s) &&
      (match s with
       | GStarF _ => fresh_state cur && negb (nonempty r)
       | GStar _ => star_state cur
       | _ => negb (m_isall cur) && nokall cur && nonempty (gkeys s) && nodupb key_eqb (gkeys s)
       end) &&
      forallb (fun k => sub_ok k (gft s) (compat r) cur) (gkeys s)
  end.

Lemma ins_keys_typ ks t f : forall cur, m_typ (ins_keys ks t f cur) = m_typ cur.
Proof.
  unfold ins_keys. induction ks as [|k ks IH]; intros cur; cbn [fold_left]; [reflexivity|].
  rewrite IH. reflexivity.
Qed.
Lemma ins_keys_black ks t f : forall cur, m_black (ins_keys ks t f cur) = m_black cur.
Proof.
  unfold ins_keys. induction ks as [|k ks IH]; intros cur; cbn [fold_left]; [reflexivity|].
  rewrite IH. reflexivity.
Qed.
Lemma ins_keys_isall ks t f : forall cur, m_isall (ins_keys ks t f cur) = m_isall cur.
Proof.
  unfold ins_keys. induction ks as [|k ks IH]; intros cur; cbn [fold_left]; [reflexivity|].
  rewrite IH. reflexivity.
Qed.

Lemma ins_typ g cur : m_typ (ins g cur) = m_typ cur.
Proof. destruct g as [|s r]; [reflexivity|]. cbn [ins]. rewrite ins_keys_typ. destruct (is_gstar s); reflexivity. Qed.

Lemma ins_black g cur : m_black (ins g cur) = m_black cur.
Proof. destruct g as [|s r]; [reflexivity|]. cbn [ins]. rewrite ins_keys_black. destruct (is_gstar s); reflexivity. Qed.

Lemma ins_live g cur : live (ins g cur) = live cur.
Proof. unfold live. rewrite ins_typ. reflexivity. Qed.
