(* Wire/UnknownEvoFacts.v — schema evolution without keep_unknown_fields (Wire/Unknown.v: adapt,
   extendsb) on top of the standard codec.

     reads_agree_old     whatever the NEW schema reads from a wire value, the OLD schema reads the same
                         wire value without error as the restriction (adapt o) of that value
     reads_agree_new     a wire value made of fields the OLD schema knows is read by the NEW schema as
                         the old reading with the added fields at their NewX() content (adapt n)
     old_reads_new       from_wire o (to_wire n v) = Ok (adapt o (norm n v))
     new_reads_old       from_wire n (to_wire o v) = Ok (adapt n (norm o v))                          *)
From Coq Require Import List ZArith Bool Lia.
From Coq.Strings Require Import Byte.
From Verif Require Import Base.Bytes Base.BE Wire.TType Wire.WVal Wire.Codec Wire.Schema Wire.Value
  Wire.GenTables Wire.Std Wire.StdFacts Wire.Unknown.
Import ListNotations.
Open Scope Z_scope.

(* ------------------------------------------------------------------ induction on wire values *)

Section WvalInd.
  Variable P : wval -> Prop.
  Hypothesis HBool : forall b, P (WBool b).
  Hypothesis HByte : forall z, P (WByte z).
  Hypothesis HDouble : forall z, P (WDouble z).
  Hypothesis HI16 : forall z, P (WI16 z).
  Hypothesis HI32 : forall z, P (WI32 z).
  Hypothesis HI64 : forall z, P (WI64 z).
  Hypothesis HStr : forall s, P (WStr s).
  Hypothesis HStruct : forall fs, Forall (fun f : ttype * Z * wval => P (snd f)) fs -> P (WStruct fs).
  Hypothesis HMap : forall kt vt kvs, Forall (fun kv : wval * wval => P (fst kv) /\ P (snd kv)) kvs -> P (WMap kt vt kvs).
  Hypothesis HSet : forall et l, Forall P l -> P (WSet et l).
  Hypothesis HList : forall et l, Forall P l -> P (WList et l).

  Fixpoint wval_ind2 (w : wval) : P w :=
    match w with
    | WBool b => HBool b | WByte z => HByte z | WDouble z => HDouble z | WI16 z => HI16 z
    | WI32 z => HI32 z | WI64 z => HI64 z | WStr s => HStr s
    | WStruct fs => HStruct fs ((fix go (l : list (ttype * Z * wval)) : Forall (fun f => P (snd f)) l :=
                                   match l with
                                   | [] => Forall_nil _
                                   | f :: r => Forall_cons f (wval_ind2 (snd f)) (go r) end) fs)
    | WMap kt vt kvs => HMap kt vt kvs ((fix go (l : list (wval * wval)) : Forall (fun kv => P (fst kv) /\ P (snd kv)) l :=
                                   match l with
                                   | [] => Forall_nil _
                                   | kv :: r => Forall_cons kv (conj (wval_ind2 (fst kv)) (wval_ind2 (snd kv))) (go r) end) kvs)
    | WSet et l => HSet et l ((fix go (l : list wval) : Forall P l :=
                                   match l with [] => Forall_nil _ | x :: r => Forall_cons x (wval_ind2 x) (go r) end) l)
    | WList et l => HList et l ((fix go (l : list wval) : Forall P l :=
                                   match l with [] => Forall_nil _ | x :: r => Forall_cons x (wval_ind2 x) (go r) end) l)
    end.
End WvalInd.

(* ------------------------------------------------------------------ decidable equalities are sound *)

Lemma ty_eqb_eq a : forall b, ty_eqb a b = true -> a = b.
Proof.
  induction a; intros b H; destruct b; cbn [ty_eqb] in H; try discriminate; try reflexivity.
  - apply beqb_true in H. subst. reflexivity.
  - apply beqb_true in H. subst. reflexivity.
  - f_equal. apply IHa. exact H.
  - f_equal. apply IHa. exact H.
  - apply andb_true_iff in H. destruct H as [H1 H2]. f_equal; [apply IHa1 | apply IHa2]; assumption.
Qed.

Lemma lit_eqb_eq : forall a b, lit_eqb a b = true -> a = b.
Proof.
  fix ind 1. intros a b H. destruct a, b; simpl in H; try discriminate.
  - apply eqb_prop in H. subst. reflexivity.
  - apply Z.eqb_eq in H. subst. reflexivity.
  - apply Z.eqb_eq in H. subst. reflexivity.
  - apply beqb_true in H. subst. reflexivity.
  - apply beqb_true in H. subst. reflexivity.
  - f_equal. revert l0 H. induction l as [|x l IHl]; intros [|y l0] H; try discriminate; [reflexivity|].
    apply andb_true_iff in H. destruct H as [H1 H2]. f_equal; [apply ind; exact H1 | apply IHl; exact H2].
  - f_equal. revert kvs0 H. induction kvs as [|[x y] kvs IHl]; intros [|[x' y'] kvs0] H; try discriminate; [reflexivity|].
    apply andb_true_iff in H. destruct H as [H1 H2]. apply andb_true_iff in H1. destruct H1 as [Hx Hy].
    f_equal; [f_equal; apply ind; assumption | apply IHl; exact H2].
Qed.

Lemma req_eqb_eq a b : req_eqb a b = true -> a = b.
Proof. destruct a, b; cbn; congruence. Qed.

Lemma field_eqb_eq a b : field_eqb a b = true -> a = b.
Proof.
  unfold field_eqb. rewrite !andb_true_iff. intros [[[[[Hid Hn] Hr] Ht] Hd] Htd].
  destruct a as [i1 n1 r1 t1 d1 td1], b as [i2 n2 r2 t2 d2 td2]. cbn [f_id f_name f_req f_ty f_default f_typedef] in *.
  apply Z.eqb_eq in Hid. apply beqb_true in Hn. apply req_eqb_eq in Hr. apply ty_eqb_eq in Ht.
  apply eqb_prop in Htd. subst.
  destruct d1 as [x|], d2 as [y|]; try discriminate; [|reflexivity].
  apply lit_eqb_eq in Hd. subst. reflexivity.
Qed.

(* ------------------------------------------------------------------ what extendsb gives *)

Lemma find_struct_In e n s : find_struct e n = Some s -> In s (structs e) /\ s_name s = n.
Proof.
  unfold find_struct. induction (structs e) as [|s' l IH]; cbn; [discriminate|].
  destruct (beqb n (s_name s')) eqn:E.
  - intros [= <-]. apply beqb_true in E. auto.
  - intro H. destruct (IH H). auto.
Qed.

Section Ext.
  Variables o n : env.
  Hypothesis Hext : extendsb o n = true.

  Lemma ext_struct nm so : find_struct o nm = Some so ->
    exists sn, find_struct n nm = Some sn /\ struct_extends so sn = true.
  Proof.
    intro Hs. destruct (find_struct_In _ _ _ Hs) as [Hin Hnm].
    unfold extendsb in Hext. rewrite !andb_true_iff in Hext. destruct Hext as [[H _] _].
    rewrite forallb_forall in H. specialize (H so Hin). rewrite Hnm in H.
    destruct (find_struct n nm) as [sn|]; [|discriminate]. exists sn. auto.
  Qed.

  Lemma ext_closed : closed_env o = true.
  Proof. unfold extendsb in Hext. rewrite !andb_true_iff in Hext. apply Hext. Qed.

  Lemma closed_field nm so f : find_struct o nm = Some so -> In f (s_fields so) -> closed_ty o (f_ty f) = true.
  Proof.
    intros Hs Hf. destruct (find_struct_In _ _ _ Hs) as [Hin _].
    pose proof ext_closed as Hc. unfold closed_env in Hc. rewrite forallb_forall in Hc.
    specialize (Hc so Hin). rewrite forallb_forall in Hc. apply Hc. assumption.
  Qed.
End Ext.

Lemma ext_field_old so sn id fo :
  struct_extends so sn = true -> find_field id (s_fields so) = Some fo -> find_field id (s_fields sn) = Some fo.
Proof.
  intros He Hf. destruct (find_field_In _ _ _ Hf) as [Hin Hid].
  unfold struct_extends in He. rewrite !andb_true_iff in He. destruct He as [[_ H] _].
  rewrite forallb_forall in H. specialize (H fo Hin). rewrite Hid in H.
  destruct (find_field id (s_fields sn)) as [fn|]; [|discriminate].
  apply field_eqb_eq in H. subst. reflexivity.
Qed.

Lemma ext_field_new so sn fn :
  struct_extends so sn = true -> In fn (s_fields sn) -> find_field (f_id fn) (s_fields so) = None ->
  is_required fn = false.
Proof.
  intros He Hin Hno. unfold struct_extends in He. rewrite !andb_true_iff in He. destruct He as [_ H].
  rewrite forallb_forall in H. specialize (H fn Hin). rewrite Hno in H. apply negb_true_iff in H. exact H.
Qed.

Lemma ext_kind so sn : struct_extends so sn = true -> s_kind so = s_kind sn.
Proof.
  unfold struct_extends. rewrite !andb_true_iff. intros [[[_ H] _] _].
  destruct (s_kind so), (s_kind sn); cbn in H; congruence.
Qed.

Lemma find_field_None id l : find_field id l = None <-> ~ In id (map f_id l).
Proof.
  induction l as [|g l IH]; cbn; [tauto|].
  destruct (Z.eqb_spec id (f_id g)) as [E|E].
  - split; [discriminate|]. intro H. exfalso. apply H. auto.
  - rewrite IH. split; [intros H [H1|H1]; [congruence|contradiction] | tauto].
Qed.

Lemma find_field_Some_iff id l : NoDup (map f_id l) -> forall f, In f l -> f_id f = id -> find_field id l = Some f.
Proof.
  induction l as [|g l IH]; intros Hnd f Hin Hid; [contradiction|]. cbn.
  inversion Hnd as [|? ? Hg Hl]; subst.
  destruct Hin as [->|Hin].
  - rewrite Z.eqb_refl. reflexivity.
  - destruct (Z.eqb_spec (f_id f) (f_id g)) as [E|E].
    + exfalso. apply Hg. rewrite <- E. apply in_map. assumption.
    + apply IH; auto.
Qed.

(* ------------------------------------------------------------------ map keys *)

(* Go's == on map keys looks only at this projection *)
Definition keyrep (v : value) : value :=
  match v with
  | VBool _ | VInt _ | VDbl _ | VStr _ | VBin _ | VNil => v
  | _ => VList []
  end.

Lemma go_key_eq_keyrep a b : go_key_eq a b = go_key_eq (keyrep a) (keyrep b).
Proof. destruct a, b; reflexivity. Qed.

Lemma keyrep_adapt e t v : keyrep (adapt e t v) = keyrep v.
Proof.
  destruct v; try reflexivity.
  - destruct t; reflexivity.
  - destruct t; reflexivity.
  - destruct t; try reflexivity. cbn [adapt]. destruct (find_struct e name); reflexivity.
Qed.

Lemma go_key_eq_adapt e t a b : go_key_eq (adapt e t a) (adapt e t b) = go_key_eq a b.
Proof. rewrite go_key_eq_keyrep, !keyrep_adapt, <- go_key_eq_keyrep. reflexivity. Qed.

(* map_build commutes with entry-wise maps that preserve key equality *)
Section MapBuildMap.
  Variables gk gv : value -> value.
  Hypothesis Hk : forall a b, go_key_eq (gk a) (gk b) = go_key_eq a b.
  Let g (kv : value * value) := (gk (fst kv), gv (snd kv)).

  Lemma map_insert_map k v m : map_insert (gk k) (gv v) (map g m) = map g (map_insert k v m).
  Proof.
    induction m as [|[k' v'] m IH]; [reflexivity|]. cbn [map map_insert g fst snd].
    rewrite Hk. destruct (go_key_eq k k'); [reflexivity|]. cbn [map]. rewrite IH. reflexivity.
  Qed.

  Lemma map_build_map xs : map_build (map g xs) = map g (map_build xs).
  Proof.
    unfold map_build. change (@nil (value * value)) with (map g []) at 1. generalize (@nil (value * value)).
    induction xs as [|[k v] xs IH]; intro m; [reflexivity|]. cbn [map fold_left fst snd g].
    rewrite map_insert_map. apply IH.
  Qed.
End MapBuildMap.

(* ------------------------------------------------------------------ adapt on values without structs *)

Lemma adapt_lit : forall l e t, adapt e t (value_of_lit l) = value_of_lit l.
Proof.
  fix ind 1. intros l e t. destruct l; try reflexivity.
  - (* list *)
    cbn [value_of_lit]. destruct t; try reflexivity; cbn [adapt]; f_equal;
      induction l as [|x l IHl]; [reflexivity | cbn [map]; rewrite ind, IHl; reflexivity
                                  | reflexivity | cbn [map]; rewrite ind, IHl; reflexivity].
  - (* map *)
    cbn [value_of_lit]. destruct t; try reflexivity. cbn [adapt]. f_equal.
    induction kvs as [|[x y] kvs IHl]; [reflexivity|]. cbn [map fst snd]. rewrite !ind, IHl. reflexivity.
Qed.

Lemma adapt_zero_val e t t' : adapt e t (zero_val t') = zero_val t'.
Proof. destruct t'; reflexivity. Qed.

Lemma adapt_init_slot e t f : adapt e t (init_slot f) = init_slot f.
Proof.
  unfold init_slot. destruct (f_default f); [apply adapt_lit|].
  unfold zero_slot. destruct (base_ptr f); [reflexivity | apply adapt_zero_val].
Qed.

Lemma adapt_wrap_slot e f v : adapt e (f_ty f) (wrap_slot f v) = wrap_slot f (adapt e (f_ty f) v).
Proof. unfold wrap_slot. destruct (base_ptr f); reflexivity. Qed.

(* ------------------------------------------------------------------ slots *)

Lemma adapt_slot_fst e s p : fst (adapt_slot e s p) = fst p.
Proof. unfold adapt_slot. destruct (find_field (fst p) (s_fields s)); reflexivity. Qed.

Lemma map_fst_adapt_slot e s fs : map fst (map (adapt_slot e s) fs) = map fst fs.
Proof. rewrite map_map. apply map_ext. intro p. apply adapt_slot_fst. Qed.

Lemma map_fst_set_field id v fs : map fst (set_field id v fs) = map fst fs.
Proof.
  unfold set_field. rewrite map_map. apply map_ext. intro p. destruct (fst p =? id); reflexivity.
Qed.

Lemma assoc_slot_None id fs : assoc_slot id fs = None <-> ~ In id (map fst fs).
Proof.
  induction fs as [|[i x] fs IH]; cbn; [tauto|].
  destruct (Z.eqb_spec i id) as [E|E].
  - split; [discriminate|]. intro H. exfalso. apply H. auto.
  - rewrite IH. split; [intros H [H1|H1]; [congruence|contradiction] | tauto].
Qed.

Lemma assoc_set_field_same id v fs : In id (map fst fs) -> assoc_slot id (set_field id v fs) = Some v.
Proof.
  induction fs as [|[i x] fs IH]; cbn; [contradiction|]. intros [H|H].
  - subst. rewrite Z.eqb_refl. cbn. rewrite Z.eqb_refl. reflexivity.
  - destruct (Z.eqb_spec i id) as [E|E]; cbn.
    + rewrite E, Z.eqb_refl. reflexivity.
    + destruct (Z.eqb_spec i id); [contradiction|]. apply IH. exact H.
Qed.

Lemma assoc_set_field_other id id' v fs : id' <> id -> assoc_slot id' (set_field id v fs) = assoc_slot id' fs.
Proof.
  intro Hne. induction fs as [|[i x] fs IH]; cbn; [reflexivity|].
  destruct (Z.eqb_spec i id) as [E|E]; cbn.
  - subst. destruct (Z.eqb_spec id id'); [congruence|]. exact IH.
  - destruct (i =? id'); [reflexivity|]. exact IH.
Qed.

Lemma assoc_map_adapt_slot e s id fs :
  assoc_slot id (map (adapt_slot e s) fs) =
  match assoc_slot id fs with Some x => Some (snd (adapt_slot e s (id, x))) | None => None end.
Proof.
  induction fs as [|[i x] fs IH]; [reflexivity|]. cbn [map assoc_slot].
  destruct (adapt_slot e s (i, x)) as [i' x'] eqn:E.
  assert (Hi : i' = i) by (pose proof (adapt_slot_fst e s (i, x)) as H; rewrite E in H; exact H).
  subst i'. destruct (Z.eqb_spec i id) as [->|Hne]; [rewrite E; reflexivity|]. exact IH.
Qed.

(* set_field commutes with arrange when the id has a slot *)
Lemma arrange_set_field s id v fs :
  In id (map fst fs) -> arrange s (set_field id v fs) = set_field id v (arrange s fs).
Proof.
  intro Hin. unfold arrange, set_field at 2. rewrite map_map. apply map_ext. intro f. cbn [fst].
  destruct (Z.eqb_spec (f_id f) id) as [E|E].
  - rewrite E, assoc_set_field_same by assumption. reflexivity.
  - rewrite assoc_set_field_other by assumption. reflexivity.
Qed.

(* a slot the target struct does not have is invisible *)
Lemma arrange_set_field_absent s id v fs :
  find_field id (s_fields s) = None -> arrange s (set_field id v fs) = arrange s fs.
Proof.
  intro Hno. apply find_field_None in Hno. unfold arrange. apply map_ext_in. intros f Hf.
  rewrite assoc_set_field_other; [reflexivity|]. intro E. apply Hno. rewrite <- E. apply in_map. assumption.
Qed.

Lemma map_adapt_slot_set_field e s id v fs :
  map (adapt_slot e s) (set_field id v fs) = set_field id (snd (adapt_slot e s (id, v))) (map (adapt_slot e s) fs).
Proof.
  unfold set_field. rewrite !map_map. apply map_ext. intros [i x]. cbn [fst].
  rewrite adapt_slot_fst. cbn [fst].
  destruct (Z.eqb_spec i id) as [->|Hne]; [|reflexivity].
  destruct (adapt_slot e s (id, v)) as [i' x'] eqn:E.
  pose proof (adapt_slot_fst e s (id, v)) as H. rewrite E in H. cbn in H. subst. reflexivity.
Qed.

(* ------------------------------------------------------------------ small transfer lemmas *)

Lemma mapM_transfer {A B C} (f : A -> result B) (g : A -> result C) (h : B -> C) l : forall xs,
  mapM f l = Ok xs -> Forall (fun x => forall y, f x = Ok y -> g x = Ok (h y)) l -> mapM g l = Ok (map h xs).
Proof.
  induction l as [|a l IH]; intros xs Hm HF; cbn [mapM] in *.
  - injection Hm as <-. reflexivity.
  - destruct (f a) as [y|] eqn:E; [|discriminate]. destruct (mapM f l) as [ys|] eqn:E2; [|discriminate].
    injection Hm as <-. inversion HF as [|? ? Ha Hl]; subst.
    rewrite (Ha _ E), (IH _ eq_refl Hl). reflexivity.
Qed.

Lemma first_missing_none_inv fields seen :
  first_missing fields seen = None -> forall f, In f fields -> is_required f = true -> In (f_id f) seen.
Proof.
  unfold first_missing. intros H f Hin Hr.
  destruct (filter (fun f0 => is_required f0 && negb (existsb (Z.eqb (f_id f0)) seen)) fields) as [|g l] eqn:E; [|discriminate].
  destruct (existsb (Z.eqb (f_id f)) seen) eqn:Ex.
  - apply existsb_exists in Ex. destruct Ex as (y & Hy & Heq). apply Z.eqb_eq in Heq. subst. exact Hy.
  - exfalso. assert (Hf : In f (filter (fun f0 => is_required f0 && negb (existsb (Z.eqb (f_id f0)) seen)) fields)).
    { apply filter_In. split; [assumption|]. rewrite Hr, Ex. reflexivity. }
    rewrite E in Hf. contradiction.
Qed.

Lemma assoc_new_fields id s :
  assoc_slot id (new_fields s) = match find_field id (s_fields s) with Some f => Some (init_slot f) | None => None end.
Proof.
  unfold new_fields. induction (s_fields s) as [|g l IH]; [reflexivity|]. cbn [map assoc_slot find_field].
  rewrite (Z.eqb_sym (f_id g) id). destruct (id =? f_id g); [reflexivity|]. exact IH.
Qed.

Lemma map_fst_new_fields s : map fst (new_fields s) = map f_id (s_fields s).
Proof. unfold new_fields. rewrite map_map. reflexivity. Qed.

(* ------------------------------------------------------------------ two readers on the same fields *)

Section FoldTransfer.
  Variables ea eb : env.
  Variables sa sb : sschema.

  Definition view (slots : list (Z * value)) : list (Z * value) := arrange sb (map (adapt_slot eb sb) slots).

  Definition seen_inv (seen_a seen_b : list Z) : Prop :=
    forall id, In id seen_a -> find_field id (s_fields sb) <> None -> In id seen_b.

  (* the conditions on one wire field: b knows the field only as a knows it, and the payload reads alike *)
  Definition field_ok (wf : wfield) : Prop :=
    (forall fb, find_field (snd (fst wf)) (s_fields sb) = Some fb -> find_field (snd (fst wf)) (s_fields sa) = Some fb) /\
    (forall fb v, find_field (snd (fst wf)) (s_fields sb) = Some fb ->
                  from_w ea (f_ty fb) (snd wf) = Ok v -> from_w eb (f_ty fb) (snd wf) = Ok (adapt eb (f_ty fb) v)).

  Lemma view_set_known id fb y slots :
    find_field id (s_fields sb) = Some fb -> In id (map fst slots) ->
    view (set_field id y slots) = set_field id (adapt eb (f_ty fb) y) (view slots).
  Proof.
    intros Hb Hin. unfold view. rewrite map_adapt_slot_set_field, arrange_set_field.
    - unfold adapt_slot at 1. cbn [fst snd]. rewrite Hb. reflexivity.
    - rewrite map_fst_adapt_slot. assumption.
  Qed.

  Lemma view_set_absent id y slots :
    find_field id (s_fields sb) = None -> view (set_field id y slots) = view slots.
  Proof.
    intro Hb. unfold view. rewrite map_adapt_slot_set_field. apply arrange_set_field_absent. assumption.
  Qed.

  Lemma step_transfer wf st_a st_a' seen_b :
    field_ok wf ->
    map fst (fst st_a) = map f_id (s_fields sa) ->
    seen_inv (snd st_a) seen_b ->
    read_step ea sa st_a wf = Ok st_a' ->
    exists seen_b', read_step eb sb (view (fst st_a), seen_b) wf = Ok (view (fst st_a'), seen_b') /\
                    map fst (fst st_a') = map f_id (s_fields sa) /\
                    seen_inv (snd st_a') seen_b'.
  Proof.
    intros [H1 H2] Hids Hinv Hstep. destruct wf as [[t id] x]. destruct st_a as [slots seen_a].
    cbn [fst snd] in *. unfold read_step in *. cbn [fst snd] in *.
    destruct (find_field id (s_fields sa)) as [fa|] eqn:Ea.
    - destruct (find_field_In _ _ _ Ea) as [Hina Hida]. subst id.
      destruct (ttype_eqb t (ttype_of ea (f_ty fa))) eqn:Et.
      + apply bind_ok in Hstep. destruct Hstep as (v & Hv & Hst). injection Hst as <-. cbn [fst snd].
        assert (Hidin : In (f_id fa) (map fst slots)).
        { rewrite Hids. apply in_map. assumption. }
        destruct (find_field (f_id fa) (s_fields sb)) as [fb|] eqn:Eb.
        * pose proof (H1 fb eq_refl) as E. injection E as ->.
          rewrite !ttype_of_spec in *. rewrite Et. rewrite (H2 fb v eq_refl Hv). cbn [bind].
          eexists. split; [|split].
          -- rewrite (view_set_known (f_id fb) fb) by assumption. rewrite adapt_wrap_slot. reflexivity.
          -- rewrite map_fst_set_field. assumption.
          -- intros i Hi Hne. destruct (is_required fb).
             ++ destruct Hi as [<-|Hi]; [left; reflexivity | right; apply Hinv; assumption].
             ++ apply Hinv; assumption.
        * exists seen_b. split; [|split].
          -- rewrite view_set_absent by assumption. reflexivity.
          -- rewrite map_fst_set_field. assumption.
          -- intros i Hi Hne. destruct (is_required fa).
             ++ destruct Hi as [<-|Hi]; [congruence | apply Hinv; assumption].
             ++ apply Hinv; assumption.
      + injection Hstep as <-. cbn [fst snd]. exists seen_b.
        destruct (find_field (f_id fa) (s_fields sb)) as [fb|] eqn:Eb.
        * pose proof (H1 fb eq_refl) as E. injection E as ->.
          rewrite !ttype_of_spec in *. rewrite Et. auto.
        * auto.
    - injection Hstep as <-. cbn [fst snd]. exists seen_b.
      destruct (find_field id (s_fields sb)) as [fb|] eqn:Eb.
      + pose proof (H1 fb eq_refl) as E. discriminate E.
      + auto.
  Qed.

  Lemma fold_transfer wfs : forall st_a st_a' seen_b,
    Forall field_ok wfs ->
    map fst (fst st_a) = map f_id (s_fields sa) ->
    seen_inv (snd st_a) seen_b ->
    foldM (read_step ea sa) wfs st_a = Ok st_a' ->
    exists seen_b', foldM (read_step eb sb) wfs (view (fst st_a), seen_b) = Ok (view (fst st_a'), seen_b') /\
                    seen_inv (snd st_a') seen_b'.
  Proof.
    induction wfs as [|wf wfs IH]; intros st_a st_a' seen_b Hok Hids Hinv Hf; cbn [foldM] in *.
    - injection Hf as <-. exists seen_b. auto.
    - inversion Hok as [|? ? Hwf Hrest]; subst.
      destruct (read_step ea sa st_a wf) as [st1|] eqn:E1; [|discriminate].
      destruct (step_transfer wf st_a st1 seen_b Hwf Hids Hinv E1) as (sb1 & Hb1 & Hids1 & Hinv1).
      rewrite Hb1. apply (IH st1 st_a' sb1 Hrest Hids1 Hinv1 Hf).
  Qed.
End FoldTransfer.

Lemma adapt_struct_unfold e n s slots :
  find_struct e n = Some s -> adapt e (TRef n) (VStruct slots) = VStruct (view e s slots).
Proof. intro H. cbn [adapt]. rewrite H. reflexivity. Qed.

(* ------------------------------------------------------------------ old reads what new reads *)

Section Evolution.
  Variables o n : env.
  Hypothesis Hext : extendsb o n = true.
  Hypothesis Hwfo : wf_env o = true.
  Hypothesis Hwfn : wf_env n = true.

  Lemma view_new_fields_old so sn :
    struct_extends so sn = true -> NoDup (map f_id (s_fields so)) ->
    view o so (new_fields sn) = new_fields so.
  Proof.
    intros He Hnd. unfold view, arrange, new_fields at 2. apply map_ext_in. intros fo Hin. f_equal.
    rewrite assoc_map_adapt_slot, assoc_new_fields.
    rewrite (ext_field_old so sn (f_id fo) fo He) by (apply find_field_Some_iff; auto).
    unfold adapt_slot. cbn [fst snd]. rewrite (find_field_Some_iff (f_id fo) _ Hnd fo Hin eq_refl).
    rewrite adapt_init_slot. reflexivity.
  Qed.

  Lemma view_new_fields_new so sn :
    struct_extends so sn = true -> NoDup (map f_id (s_fields sn)) ->
    view n sn (new_fields so) = new_fields sn.
  Proof.
    intros He Hnd. unfold view, arrange, new_fields at 2. apply map_ext_in. intros fn Hin. f_equal.
    rewrite assoc_map_adapt_slot, assoc_new_fields.
    destruct (find_field (f_id fn) (s_fields so)) as [fo|] eqn:Eo; [|reflexivity].
    pose proof (ext_field_old so sn _ fo He Eo) as E.
    rewrite (find_field_Some_iff (f_id fn) _ Hnd fn Hin eq_refl) in E. injection E as <-.
    unfold adapt_slot. cbn [fst snd]. rewrite (find_field_Some_iff (f_id fn) _ Hnd fn Hin eq_refl).
    rewrite adapt_init_slot. reflexivity.
  Qed.

  (* whatever the new schema reads, the old schema reads the restriction of it, without error *)
  Theorem reads_agree_old : forall w t v',
    closed_ty o t = true -> from_w n t w = Ok v' -> from_w o t w = Ok (adapt o t v').
  Proof.
    intro w. induction w using wval_ind2; intros t v' Hc Hr.
    - destruct t; try discriminate. injection Hr as <-. reflexivity.
    - destruct t; try discriminate. injection Hr as <-. reflexivity.
    - destruct t; try discriminate. injection Hr as <-. reflexivity.
    - destruct t; try discriminate. injection Hr as <-. reflexivity.
    - destruct t; try discriminate; injection Hr as <-; reflexivity.
    - destruct t; try discriminate. injection Hr as <-. reflexivity.
    - destruct t; try discriminate; injection Hr as <-; reflexivity.
    - (* struct *)
      destruct t as [| | | | | | | | |nm| | |]; try discriminate.
      cbn [closed_ty] in Hc. destruct (find_struct o nm) as [so|] eqn:Eso; [|discriminate].
      destruct (ext_struct o n Hext nm so Eso) as (sn & Esn & He).
      rewrite from_w_struct, Esn in Hr. rewrite from_w_struct, Eso.
      apply bind_ok in Hr. destruct Hr as (st_a & Hfold & Hfin).
      unfold finish_read in Hfin. destruct (first_missing (s_fields sn) (snd st_a)) eqn:Em; [discriminate|].
      injection Hfin as <-.
      pose proof (wf_struct_nodup _ (wf_env_struct _ _ _ Hwfo Eso)) as Hndo.
      assert (Hok : Forall (field_ok n o sn so) fs).
      { rewrite Forall_forall in *. intros wf Hin. split.
        - intros fb Hb. apply (ext_field_old so sn _ fb He Hb).
        - intros fb v Hb Hv. apply (H wf Hin); [|assumption].
          destruct (find_field_In _ _ _ Hb) as [Hinb _]. apply (closed_field o n Hext nm so fb Eso Hinb). }
      destruct (fold_transfer n o sn so fs (new_fields sn, []) st_a [] Hok (map_fst_new_fields sn)
                  (fun id Hin => match Hin with end) Hfold) as (seen_b & Hb & Hinv).
      cbn [fst] in Hb. rewrite (view_new_fields_old so sn He Hndo) in Hb. rewrite Hb. cbn [bind].
      unfold finish_read. cbn [fst snd]. rewrite first_missing_none.
      + rewrite (adapt_struct_unfold o nm so _ Eso). reflexivity.
      + intros fo Hin Hreq. apply Hinv.
        * apply (first_missing_none_inv _ _ Em fo); [|assumption].
          pose proof (ext_field_old so sn (f_id fo) fo He (find_field_Some_iff _ _ Hndo fo Hin eq_refl)) as E.
          apply find_field_In in E. apply E.
        * rewrite (find_field_Some_iff _ _ Hndo fo Hin eq_refl). discriminate.
    - (* map *)
      destruct t as [| | | | | | | | | | | |a b]; try discriminate. cbn [from_w] in *.
      cbn [closed_ty] in Hc. apply andb_true_iff in Hc. destruct Hc as [Hca Hcb].
      rewrite !ttype_of_spec in *.
      destruct ((ttype_eqb kt (spec_ttype a) && ttype_eqb vt (spec_ttype b)) || (length kvs =? 0)%nat); [|discriminate].
      apply bind_ok in Hr. destruct Hr as (xs & Hm & Hv). injection Hv as <-.
      rewrite (mapM_transfer _ (fun kv => bind (from_w o a (fst kv)) (fun k => bind (from_w o b (snd kv)) (fun x => Ok (k, x))))
                 (fun kv => (adapt o a (fst kv), adapt o b (snd kv))) kvs xs Hm).
      + cbn [bind adapt]. rewrite (map_build_map (adapt o a) (adapt o b) (go_key_eq_adapt o a)). reflexivity.
      + rewrite Forall_forall in *. intros kv Hin [k x] Hkx. destruct (H kv Hin) as [IHk IHx].
        apply bind_ok in Hkx. destruct Hkx as (k' & Hk & Hkx). apply bind_ok in Hkx. destruct Hkx as (x' & Hx & E).
        injection E as <- <-. rewrite (IHk _ _ Hca Hk), (IHx _ _ Hcb Hx). reflexivity.
    - (* set *)
      destruct t as [| | | | | | | | | | |a|]; try discriminate. cbn [from_w] in *. cbn [closed_ty] in Hc.
      rewrite !ttype_of_spec in *.
      destruct (ttype_eqb et (spec_ttype a) || (length l =? 0)%nat); [|discriminate].
      apply bind_ok in Hr. destruct Hr as (xs & Hm & Hv). injection Hv as <-.
      rewrite (mapM_transfer _ (from_w o a) (adapt o a) l xs Hm); [reflexivity|].
      rewrite Forall_forall in *. intros x Hin y Hy. apply (H x Hin); assumption.
    - (* list *)
      destruct t as [| | | | | | | | | |a| |]; try discriminate. cbn [from_w] in *. cbn [closed_ty] in Hc.
      rewrite !ttype_of_spec in *.
      destruct (ttype_eqb et (spec_ttype a) || (length l =? 0)%nat); [|discriminate].
      apply bind_ok in Hr. destruct Hr as (xs & Hm & Hv). injection Hv as <-.
      rewrite (mapM_transfer _ (from_w o a) (adapt o a) l xs Hm); [reflexivity|].
      rewrite Forall_forall in *. intros x Hin y Hy. apply (H x Hin); assumption.
  Qed.

  (* a wire value made of fields the old schema knows: the new schema reads the old reading plus defaults *)
  Theorem reads_agree_new : forall w t v',
    closed_ty o t = true -> conforms o t w = true -> from_w o t w = Ok v' -> from_w n t w = Ok (adapt n t v').
  Proof.
    intro w. induction w using wval_ind2; intros t v' Hc Hcf Hr.
    - destruct t; try discriminate. injection Hr as <-. reflexivity.
    - destruct t; try discriminate. injection Hr as <-. reflexivity.
    - destruct t; try discriminate. injection Hr as <-. reflexivity.
    - destruct t; try discriminate. injection Hr as <-. reflexivity.
    - destruct t; try discriminate; injection Hr as <-; reflexivity.
    - destruct t; try discriminate. injection Hr as <-. reflexivity.
    - destruct t; try discriminate; injection Hr as <-; reflexivity.
    - (* struct *)
      destruct t as [| | | | | | | | |nm| | |]; try discriminate.
      cbn [closed_ty] in Hc. destruct (find_struct o nm) as [so|] eqn:Eso; [|discriminate].
      destruct (ext_struct o n Hext nm so Eso) as (sn & Esn & He).
      cbn [conforms] in Hcf. rewrite Eso in Hcf. rewrite forallb_forall in Hcf.
      rewrite from_w_struct, Eso in Hr. rewrite from_w_struct, Esn.
      apply bind_ok in Hr. destruct Hr as (st_a & Hfold & Hfin).
      unfold finish_read in Hfin. destruct (first_missing (s_fields so) (snd st_a)) eqn:Em; [discriminate|].
      injection Hfin as <-.
      pose proof (wf_struct_nodup _ (wf_env_struct _ _ _ Hwfn Esn)) as Hndn.
      assert (Hok : Forall (field_ok o n so sn) fs).
      { rewrite Forall_forall in *. intros wf Hin. specialize (Hcf wf Hin).
        destruct (find_field (snd (fst wf)) (s_fields so)) as [fo|] eqn:Eo; [|discriminate].
        apply andb_true_iff in Hcf. destruct Hcf as [_ Hcfx].
        pose proof (ext_field_old so sn _ fo He Eo) as En. split.
        - intros fb Hb. rewrite En in Hb. injection Hb as <-. exact Eo.
        - intros fb v Hb Hv. rewrite En in Hb. injection Hb as <-. apply (H wf Hin); try assumption.
          destruct (find_field_In _ _ _ Eo) as [Hino _]. apply (closed_field o n Hext nm so fo Eso Hino). }
      destruct (fold_transfer o n so sn fs (new_fields so, []) st_a [] Hok (map_fst_new_fields so)
                  (fun id Hin => match Hin with end) Hfold) as (seen_b & Hb & Hinv).
      cbn [fst] in Hb. rewrite (view_new_fields_new so sn He Hndn) in Hb. rewrite Hb. cbn [bind].
      unfold finish_read. cbn [fst snd]. rewrite first_missing_none.
      + rewrite (adapt_struct_unfold n nm sn _ Esn). reflexivity.
      + intros fn Hin Hreq. pose proof (find_field_Some_iff _ _ Hndn fn Hin eq_refl) as En.
        destruct (find_field (f_id fn) (s_fields so)) as [fo|] eqn:Eo.
        * pose proof (ext_field_old so sn _ fo He Eo) as E. rewrite En in E. injection E as <-.
          apply Hinv; [|rewrite En; discriminate].
          destruct (find_field_In _ _ _ Eo) as [Hino _].
          apply (first_missing_none_inv _ _ Em fn Hino Hreq).
        * rewrite (ext_field_new so sn fn He Hin Eo) in Hreq. discriminate.
    - (* map *)
      destruct t as [| | | | | | | | | | | |a b]; try discriminate. cbn [from_w] in *.
      cbn [closed_ty] in Hc. apply andb_true_iff in Hc. destruct Hc as [Hca Hcb].
      cbn [conforms] in Hcf. apply andb_true_iff in Hcf. destruct Hcf as [_ Hcf]. rewrite forallb_forall in Hcf.
      rewrite !ttype_of_spec in *.
      destruct ((ttype_eqb kt (spec_ttype a) && ttype_eqb vt (spec_ttype b)) || (length kvs =? 0)%nat); [|discriminate].
      apply bind_ok in Hr. destruct Hr as (xs & Hm & Hv). injection Hv as <-.
      rewrite (mapM_transfer _ (fun kv => bind (from_w n a (fst kv)) (fun k => bind (from_w n b (snd kv)) (fun x => Ok (k, x))))
                 (fun kv => (adapt n a (fst kv), adapt n b (snd kv))) kvs xs Hm).
      + cbn [bind adapt]. rewrite (map_build_map (adapt n a) (adapt n b) (go_key_eq_adapt n a)). reflexivity.
      + rewrite Forall_forall in *. intros kv Hin [k x] Hkx. destruct (H kv Hin) as [IHk IHx].
        specialize (Hcf kv Hin). apply andb_true_iff in Hcf. destruct Hcf as [Hcfk Hcfx].
        apply bind_ok in Hkx. destruct Hkx as (k' & Hk & Hkx). apply bind_ok in Hkx. destruct Hkx as (x' & Hx & E).
        injection E as <- <-. rewrite (IHk _ _ Hca Hcfk Hk), (IHx _ _ Hcb Hcfx Hx). reflexivity.
    - (* set *)
      destruct t as [| | | | | | | | | | |a|]; try discriminate. cbn [from_w] in *. cbn [closed_ty] in Hc.
      cbn [conforms] in Hcf. apply andb_true_iff in Hcf. destruct Hcf as [_ Hcf]. rewrite forallb_forall in Hcf.
      rewrite !ttype_of_spec in *.
      destruct (ttype_eqb et (spec_ttype a) || (length l =? 0)%nat); [|discriminate].
      apply bind_ok in Hr. destruct Hr as (xs & Hm & Hv). injection Hv as <-.
      rewrite (mapM_transfer _ (from_w n a) (adapt n a) l xs Hm); [reflexivity|].
      rewrite Forall_forall in *. intros x Hin y Hy. apply (H x Hin); auto.
    - (* list *)
      destruct t as [| | | | | | | | | |a| |]; try discriminate. cbn [from_w] in *. cbn [closed_ty] in Hc.
      cbn [conforms] in Hcf. apply andb_true_iff in Hcf. destruct Hcf as [_ Hcf]. rewrite forallb_forall in Hcf.
      rewrite !ttype_of_spec in *.
      destruct (ttype_eqb et (spec_ttype a) || (length l =? 0)%nat); [|discriminate].
      apply bind_ok in Hr. destruct Hr as (xs & Hm & Hv). injection Hv as <-.
      rewrite (mapM_transfer _ (from_w n a) (adapt n a) l xs Hm); [reflexivity|].
      rewrite Forall_forall in *. intros x Hin y Hy. apply (H x Hin); auto.
  Qed.

  (* ---- top level ---- *)

  Lemma read_new_from_w e s wfs :
    find_struct e (s_name s) = Some s -> read_new e s (WStruct wfs) = from_w e (TRef (s_name s)) (WStruct wfs).
  Proof. intro Hs. rewrite from_w_struct, Hs. reflexivity. Qed.

  Theorem old_reads_new so sn v :
    find_struct o (s_name sn) = Some so -> find_struct n (s_name sn) = Some sn -> wt n sn v = true ->
    exists wfs, to_wire n sn v = Ok (WStruct wfs) /\
                read_new o so (WStruct wfs) = Ok (adapt_struct o so (norm_struct n sn v)).
  Proof.
    intros Hso Hsn Hwt. destruct (write_read n sn v Hwfn Hsn Hwt) as (wfs & Hw & Hr).
    exists wfs. split; [assumption|].
    destruct (find_struct_In _ _ _ Hso) as [_ Hname].
    rewrite read_new_from_w in Hr by assumption.
    rewrite read_new_from_w by (rewrite Hname; assumption). unfold adapt_struct. rewrite Hname.
    apply reads_agree_old; [|assumption]. cbn [closed_ty]. rewrite Hso. reflexivity.
  Qed.

  Theorem new_reads_old so sn v :
    find_struct o (s_name so) = Some so -> find_struct n (s_name so) = Some sn -> wt o so v = true ->
    exists wfs, to_wire o so v = Ok (WStruct wfs) /\
                read_new n sn (WStruct wfs) = Ok (adapt_struct n sn (norm_struct o so v)).
  Proof.
    intros Hso Hsn Hwt. destruct (write_read o so v Hwfo Hso Hwt) as (wfs & Hw & Hr).
    exists wfs. split; [assumption|].
    destruct (find_struct_In _ _ _ Hsn) as [_ Hname].
    rewrite read_new_from_w in Hr by assumption.
    rewrite read_new_from_w by (rewrite Hname; assumption). unfold adapt_struct. rewrite Hname.
    apply reads_agree_new; [| |assumption].
    - cbn [closed_ty]. rewrite Hso. reflexivity.
    - apply (to_w_conforms o _ _ _ Hw).
  Qed.
End Evolution.
