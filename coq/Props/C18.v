(* Props/C18.v — property C18: the DeepEqual method generated with gen_deep_equal is structural
   equality.  Statements only; proofs are in Wire/DeepEqFacts.v.

   Model: Wire/DeepEq.v.  deq e t x y is the code emitted by templates/deep_equal.go for a value of
   IDL type t (pointer shortcut, nil tests, per-field comparison, != / strings.Compare /
   bytes.Compare on base types, len then positional comparison for lists and sets, len then
   range-and-index WITH the presence test for maps — the repair of this round —, IEEE == on doubles,
   struct-typed map keys looked up by address); gen_deep_eq e s x y is x.DeepEqual(y) for the
   struct-like s; validate_set is the uniqueness loop Write runs over a set with that comparison.
   The model is tied to compiled generated code by the correspondence of Corr/C18.v on every run.

   Specification: same x y (Wire/DeepEq.v) — structural equality that never looks at addresses.

   Domains are decidable booleans written in the statements:
     shape e k t x      x has the Go shape of IDL type t (what the generated Go types can hold)
     no_struct_keys x   every map key in x is a base value
     shared_okb x y     an address occurring in x and in y names one object, and it holds no NaN
                        (always true for values built from fresh objects, e.g. a deep copy)
     eq_domain e t x y  = the conjunction of the above for x and y.  *)
From Coq Require Import List ZArith Bool.
From Verif Require Import Base.Bytes Wire.TType Wire.Schema Wire.Value Wire.DeepEq Wire.DeepEqFacts.
Import ListNotations.
Open Scope Z_scope.

(* ---- DeepEqual is structural equality ---- *)

(* every struct-like of every schema, every pair of values in the domain (x or y may be nil) *)
Theorem C18_deep_eq_iff_same : forall e s x y,
  eq_domain e (TRef (s_name s)) x y = true ->
  (gen_deep_eq e s x y = true <-> same x y = true).
Proof. exact gen_deep_eq_iff_same. Qed.
Print Assumptions C18_deep_eq_iff_same.

(* the same for the comparison emitted at any type: fields, elements, map values, set elements *)
Theorem C18_deq_same_any_type : forall e t x y, eq_domain e t x y = true -> deq e t x y = same x y.
Proof. exact deq_same. Qed.
Print Assumptions C18_deq_same_any_type.

(* the domain is inhabited by a non-trivial pair (maps in different entry order, nil against empty
   containers, an optional pointer, distinct objects), and DeepEqual answers true on it *)
Example C18_domain_inhabited :
  eq_domain Witness.E Witness.tM Witness.dom_x Witness.dom_y = true /\
  gen_deep_eq Witness.E Witness.M Witness.dom_x Witness.dom_y = true.
Proof. exact domain_witness. Qed.

(* KNOWN FINDING (C18-struct-map-key-identity): outside the domain the property fails.  A map key of
   struct type is a Go pointer, the generated code indexes the other map with it, so two values that
   are structurally the same but were built separately (a deep copy, a value read from the wire) are
   not DeepEqual. *)
Theorem C18_deep_eq_struct_keys_refuted : exists e s x y,
  shape e false (TRef (s_name s)) x = true /\ shape e false (TRef (s_name s)) y = true /\
  shared_okb x y = true /\ nan_free x = true /\ no_struct_keys x = false /\
  same x y = true /\ gen_deep_eq e s x y = false.
Proof. exists Witness.E, Witness.M, Witness.sk_x, Witness.sk_y. exact struct_keys_witness. Qed.
Print Assumptions C18_deep_eq_struct_keys_refuted.

(* REPAIRED in this round (proposed_fixes/C18-deep-equal-map-key-presence.patch): the pinned code read a
   missing map key as the zero value: same size, disjoint keys, zero values compared equal.  The
   pinned comparison (deq_gen false) is kept in the model only for this witness. *)
Theorem C18_pinned_map_missing_key_refuted : exists e s x y,
  eq_domain e (TRef (s_name s)) x y = true /\ same x y = false /\
  gen_deep_eq_pinned e s x y = true /\ gen_deep_eq e s x y = false.
Proof. exists Witness.E, Witness.M, Witness.mk_x, Witness.mk_y. exact missing_key_witness. Qed.
Print Assumptions C18_pinned_map_missing_key_refuted.

(* ---- reflexive ---- *)

(* on one object (or nil) DeepEqual is true whatever it holds: the pointer shortcut *)
Theorem C18_deep_eq_refl_same_object : forall e s x,
  (x = HNil \/ exists a fs, x = HStruct a fs) -> gen_deep_eq e s x x = true.
Proof. exact gen_deep_eq_self. Qed.
Print Assumptions C18_deep_eq_refl_same_object.

Theorem C18_pointer_shortcut : forall rep e n a fs gs,
  deq_gen rep e (TRef n) (HStruct a fs) (HStruct a gs) = true.
Proof. exact deq_same_object. Qed.
Print Assumptions C18_pointer_shortcut.

(* without the shortcut: the comparison of any NaN-free value with itself, at any type, is true
   (struct-typed keys included) *)
Theorem C18_deep_eq_refl : forall e k t x,
  shape e k t x = true -> nan_free x = true -> deq e t x x = true.
Proof. exact deq_refl. Qed.
Print Assumptions C18_deep_eq_refl.

(* and a NaN-free value is structurally equal to itself, so that by C18_deep_eq_iff_same every
   separately built copy of it (without struct-typed keys) is DeepEqual to it *)
Theorem C18_same_refl : forall x, nan_free x = true -> same x x = true.
Proof. exact same_refl. Qed.
Print Assumptions C18_same_refl.

(* why NaN-freeness is asked under shared pointers: IEEE says NaN <> NaN, the shortcut says true *)
Example C18_same_object_with_nan :
  gen_deep_eq Witness.E Witness.M Witness.nan_x Witness.nan_x = true /\ same Witness.nan_x Witness.nan_x = false /\
  shared_okb Witness.nan_x Witness.nan_x = false.
Proof. exact nan_object_witness. Qed.

(* ---- symmetric: all shaped values, any sharing, struct-typed keys included ---- *)

Theorem C18_deep_eq_sym : forall e t kx ky x y,
  shape e kx t x = true -> shape e ky t y = true -> deq e t x y = deq e t y x.
Proof. exact deq_sym. Qed.
Print Assumptions C18_deep_eq_sym.

Theorem C18_same_sym : forall x y, same x y = same y x.
Proof. exact same_sym. Qed.
Print Assumptions C18_same_sym.

(* ---- nil receivers, nil arguments, nil fields ---- *)

(* the model is a total function; against nil it answers what the specification says, whatever the
   other side holds (nil struct <> non-nil struct, nil container = empty container).  That the
   compiled code does not panic on these inputs is observed by the driver on every run (code 6). *)
Theorem C18_nil_safe : forall e k t y,
  shape e k t y = true -> deq e t HNil y = same HNil y /\ deq e t y HNil = same y HNil.
Proof. exact deq_nil. Qed.
Print Assumptions C18_nil_safe.

(* ---- the uniqueness check of Write ---- *)

(* one set: refused exactly when two of its elements (positions i < j) are structurally equal *)
Theorem C18_validate_set_exact : forall e et l,
  set_domain e et l = true ->
  (validate_set e et l = false <->
   exists i j, (i < j < length l)%nat /\ same (nth i l HNil) (nth j l HNil) = true).
Proof. exact validate_set_spec. Qed.
Print Assumptions C18_validate_set_exact.

(* a whole value: Write passes the uniqueness checks exactly when no set in it holds two
   structurally equal elements *)
Theorem C18_write_sets_exact : forall e k t x,
  shape e k t x = true -> no_struct_keys x = true -> sets_shared_ok e t x = true ->
  sets_ok true e t x = sets_distinct e t x.
Proof. exact sets_ok_distinct. Qed.
Print Assumptions C18_write_sets_exact.

(* KNOWN FINDING, same root cause: two structurally equal maps with struct-typed keys in one set
   are accepted by Write *)
Theorem C18_validate_set_struct_keys_refuted : exists e et l,
  same (nth 0%nat l HNil) (nth 1%nat l HNil) = true /\ validate_set e et l = true.
Proof. exists Witness.E, Witness.tKI, Witness.sk_set. exact struct_keys_set_witness. Qed.
Print Assumptions C18_validate_set_struct_keys_refuted.

(* ---- deep copies, and what the code computes on ALL shaped values (extension round) ---- *)

(* the specification never looks at addresses *)
Theorem C18_same_ignores_addresses : forall d x y, same x (readdr d y) = same x y.
Proof. exact same_readdr_r. Qed.
Print Assumptions C18_same_ignores_addresses.

(* "equal deep copies": a NaN-free value without struct-typed map keys, rebuilt from fresh objects
   (every address shifted, none in common), is DeepEqual to the original; any IDL type *)
Theorem C18_deep_copy_equal : forall e k t x d,
  shape e k t x = true -> no_struct_keys x = true -> nan_free x = true ->
  disjointb x (readdr d x) = true ->
  deq e t x (readdr d x) = true.
Proof. exact deep_copy_equal. Qed.
Print Assumptions C18_deep_copy_equal.

Example C18_deep_copy_inhabited :
  disjointb Witness.dom_x (readdr 100 Witness.dom_x) = true /\
  gen_deep_eq Witness.E Witness.M Witness.dom_x (readdr 100 Witness.dom_x) = true.
Proof. exact copy_witness. Qed.

(* full strength, no restriction on keys: on EVERY pair of shaped values whose heap is consistent
   (heap_okb: a shared address names one object, without NaN) the generated comparison is structural
   equality with map keys matched the way Go matches them (same_pk: a struct-typed key is the
   object itself).  The recorded finding is exactly the distance between same_pk and same. *)
Theorem C18_deq_exact_all_shaped : forall e t kx ky x y,
  shape e kx t x = true -> shape e ky t y = true -> heap_okb x y = true -> deq e t x y = same_pk x y.
Proof. exact deq_same_pk. Qed.
Print Assumptions C18_deq_exact_all_shaped.

Theorem C18_same_pk_is_same_without_struct_keys : forall x y,
  no_struct_keys x = true -> no_struct_keys y = true -> same_pk x y = same x y.
Proof. exact same_pk_same. Qed.
Print Assumptions C18_same_pk_is_same_without_struct_keys.

Example C18_exact_on_struct_keys :
  heap_okb Witness.sk_x Witness.sk_y = true /\
  same_pk Witness.sk_x Witness.sk_y = false /\ gen_deep_eq Witness.E Witness.M Witness.sk_x Witness.sk_y = false /\
  same Witness.sk_x Witness.sk_y = true.
Proof. exact pk_witness. Qed.

(* the uniqueness check of Write, struct-typed keys included: refused exactly when two elements are
   equal in the sense of same_pk *)
Theorem C18_validate_set_exact_all_shaped : forall e et l,
  set_domain_pk e et l = true ->
  (validate_set e et l = false <->
   exists i j, (i < j < length l)%nat /\ same_pk (nth i l HNil) (nth j l HNil) = true).
Proof. exact validate_set_pk_spec. Qed.
Print Assumptions C18_validate_set_exact_all_shaped.
