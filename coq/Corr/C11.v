(* Corr/C11.v — correspondence for property C11 (plugin protocol).

   The producer harness/cmd/c11 runs the real code (plugin.MarshalRequest / UnmarshalRequest /
   UnmarshalResponse, the include compression through the verif hook, args.Arguments, and the
   thriftgo binary with the fault-injecting plugin harness/cmd/faultplugin) and writes what it
   fed and what it observed.  Byte strings travel as rows of byte constructors ([blob]), the
   harness's own field-by-field dump of a request (astdump) in the little binary format of
   harness/reqdump, parsed here.

   mismatches : list case -> list (N * N)      (case index, code)
     1  model and implementation disagree (correspondence)
     9  model out of fuel
     2  the request Go's UnmarshalRequest decodes differs from the request that was marshalled
     3  ... with include compression + trailer
     4  the bytes FastAppend wrote do not conform to the schema regenerated from the .thrift files
     5  generator / plugin parameters or language differ from the command line
     6  a failing plugin (exit status, timeout, garbled output, Error) did not make thriftgo fail
        with a non-zero status and no files
     7  contents of a good response did not reach the output
     8  a warning was not shown
     10 the plugin process outlived thriftgo after the time limit
     11 the AST thriftgo holds after a compressed send is not the one it had before
     12 hasDataTrailerFeature answers differently from "all requested feature bits are set" *)
From Coq Require Import List Arith Bool NArith ZArith Lia.
From Coq.Strings Require Import Byte String.
From Verif Require Import Base.Bytes Base.BE Wire.TType Wire.WVal Wire.Codec Wire.Schema Wire.SchemaPlugin
  Idl.Ast Gen.FileManager Gen.Plugin.
Import ListNotations.
Local Open Scope Z_scope.
Local Open Scope list_scope.

Definition blob (rows : list (list byte)) : bytes := List.concat rows.

(* ================================================================ the dump format of harness/reqdump *)

Definition P (A : Type) := bytes -> option (A * bytes).
Definition ret {A} (a : A) : P A := fun bs => Some (a, bs).
Definition bindp {A B} (p : P A) (f : A -> P B) : P B :=
  fun bs => match p bs with Some (a, r) => f a r | None => None end.
Notation "x <- p ;; q" := (bindp p (fun x => q)) (at level 61, p at next level, right associativity).

Definition p_u8 : P Z := get_be 1.
Definition p_bool : P bool := x <- p_u8 ;; ret (negb (x =? 0)).
Definition p_i32 : P Z := get_s 4.
Definition p_z64 : P Z := get_s 8.
Definition p_u64 : P Z := get_be 8.
Definition p_len : P nat := x <- get_be 4 ;; ret (Z.to_nat x).
Definition p_str : P bytes :=
  fun bs => match p_len bs with
            | Some (n, r) => if (List.length r <? n)%nat then None else Some (firstn n r, skipn n r)
            | None => None end.
Definition p_opt {A} (p : P A) : P (option A) :=
  t <- p_u8 ;; if t =? 0 then ret None else (x <- p ;; ret (Some x)).
Definition p_list {A} (p : P A) : P (list A) := n <- p_len ;; rep p n.

Definition p_reference : P reference := n <- p_str ;; i <- p_i32 ;; ret (Ref n i).
Definition p_anno : P annotation := k <- p_str ;; v <- p_list p_str ;; ret (Anno k v).
Definition p_annos : P annotations := p_list p_anno.
Definition p_cat : P category :=
  x <- p_u8 ;; match cat_of_z x with Some c => ret c | None => fun _ => None end.
Definition p_req : P requiredness :=
  x <- p_u8 ;; match req_of_z x with Some c => ret c | None => fun _ => None end.
Definition p_kind : P sl_kind :=
  x <- p_u8 ;; if x =? 0 then ret SKStruct else if x =? 1 then ret SKUnion else if x =? 2 then ret SKException else fun _ => None.

Fixpoint p_ty (fuel : nat) : P ty :=
  match fuel with
  | O => fun _ => None
  | S n =>
      name <- p_str ;; k <- p_opt (p_ty n) ;; v <- p_opt (p_ty n) ;; cpp <- p_str ;; an <- p_annos ;;
      cat <- p_cat ;; r <- p_opt p_reference ;; td <- p_opt p_bool ;;
      ret (Ty name k v cpp an cat r td)
  end.

Definition p_extra : P const_extra :=
  b <- p_bool ;; i <- p_i32 ;; n <- p_str ;; s <- p_str ;; ret (Extra b i n s).

Fixpoint p_cv (fuel : nat) : P const_value :=
  match fuel with
  | O => fun _ => None
  | S n =>
      t <- p_u8 ;;
      if t =? 0 then (x <- p_u64 ;; ret (CDouble (Z.to_N x)))
      else if t =? 1 then (x <- p_z64 ;; ret (CInt x))
      else if t =? 2 then (x <- p_str ;; ret (CLiteral x))
      else if t =? 3 then (x <- p_str ;; e <- p_opt p_extra ;; ret (CIdent x e))
      else if t =? 4 then (l <- p_list (p_cv n) ;; ret (CList l))
      else if t =? 5 then (l <- p_list (pairp (p_cv n) (p_cv n)) ;; ret (CMap l))
      else fun _ => None
  end.

Section WithFuel.
  Variable fuel : nat.
  Definition p_field : P field :=
    i <- p_i32 ;; n <- p_str ;; r <- p_req ;; t <- p_ty fuel ;; d <- p_opt (p_cv fuel) ;; an <- p_annos ;; c <- p_str ;;
    ret (Field i n r t d an c).
  Definition p_struct_like : P struct_like :=
    k <- p_kind ;; n <- p_str ;; f <- p_list p_field ;; an <- p_annos ;; c <- p_str ;; ret (StructLike k n f an c).
  Definition p_function : P function :=
    n <- p_str ;; o <- p_bool ;; v <- p_bool ;; t <- p_ty fuel ;; a <- p_list p_field ;; th <- p_list p_field ;;
    an <- p_annos ;; c <- p_str ;; ret (Function n o v t a th an c).
  Definition p_service : P service :=
    n <- p_str ;; e <- p_str ;; f <- p_list p_function ;; an <- p_annos ;; r <- p_opt p_reference ;; c <- p_str ;;
    ret (Service n e f an r c).
  Definition p_include : P include := p <- p_str ;; r <- p_opt p_str ;; u <- p_opt p_bool ;; ret (Include p r u).
  Definition p_namespace : P namespace := l <- p_str ;; n <- p_str ;; an <- p_annos ;; ret (Namespace l n an).
  Definition p_typedef : P typedef := t <- p_ty fuel ;; a <- p_str ;; an <- p_annos ;; c <- p_str ;; ret (Typedef t a an c).
  Definition p_constant : P constant :=
    n <- p_str ;; t <- p_ty fuel ;; v <- p_cv fuel ;; an <- p_annos ;; c <- p_str ;; ret (Constant n t v an c).
  Definition p_enum_value : P enum_value := n <- p_str ;; v <- p_z64 ;; an <- p_annos ;; c <- p_str ;; ret (EnumValue n v an c).
  Definition p_enum : P enum := n <- p_str ;; v <- p_list p_enum_value ;; an <- p_annos ;; c <- p_str ;; ret (Enum n v an c).
  Definition p_file : P file :=
    n <- p_str ;; incs <- p_list p_include ;; cpp <- p_list p_str ;; ns <- p_list p_namespace ;;
    tds <- p_list p_typedef ;; cs <- p_list p_constant ;; es <- p_list p_enum ;;
    ss <- p_list p_struct_like ;; us <- p_list p_struct_like ;; xs <- p_list p_struct_like ;;
    svs <- p_list p_service ;; n2c <- p_opt (p_list (pairp p_str p_cat)) ;;
    ret (File n incs cpp ns tds cs es ss us xs svs n2c).
  Definition p_program : P program := l <- p_list p_file ;; ret (map (fun f => (f_filename f, f)) l).
End WithFuel.

(* header of a request + the program *)
Record rdump := mkrdump {
  du_version : bytes; du_gen : list bytes; du_plugin : list bytes; du_language : bytes;
  du_output : bytes; du_recursive : bool; du_prog : program }.

Definition p_rdump (fuel : nat) : P rdump :=
  v <- p_str ;; g <- p_list p_str ;; p <- p_list p_str ;; l <- p_str ;; o <- p_str ;; r <- p_bool ;;
  pr <- p_program fuel ;; ret (mkrdump v g p l o r pr).
Definition parse_request_dump (bs : bytes) : option rdump :=
  match p_rdump (List.length bs) bs with Some (d, []) => Some d | _ => None end.

Definition p_generated : P generated := c <- p_str ;; n <- p_opt p_str ;; i <- p_opt p_str ;; ret (mkgenerated c n i).
Definition p_response : P response :=
  e <- p_opt p_str ;; c <- p_opt (p_list p_generated) ;; w <- p_opt (p_list p_str) ;; ret (mkresp e c w).
Definition parse_response_dump (bs : bytes) : option response :=
  match p_response bs with Some (d, []) => Some d | _ => None end.

(* ================================================================ program <-> tree *)

Definition erase_ref (i : include) : include := Include (in_path i) None (in_used i).
Definition erase_refs (f : file) : file :=
  File (f_filename f) (map erase_ref (f_includes f)) (f_cpp_includes f) (f_namespaces f) (f_typedefs f) (f_constants f)
       (f_enums f) (f_structs f) (f_unions f) (f_exceptions f) (f_services f) (f_name2cat f).

(* the tree a pointer graph denotes: follow in_ref through the table *)
Fixpoint tree_of (fuel : nat) (p : program) (name : bytes) : option ast :=
  match fuel with
  | O => None
  | S n =>
      match lookup name p with
      | None => None
      | Some f =>
          let kids := map (fun i => match in_ref i with Some r => tree_of n p r | None => None end) (f_includes f) in
          (* an include whose reference is set must resolve *)
          if forallb (fun ik => match in_ref (fst ik), snd ik with Some _, None => false | _, _ => true end)
                     (combine (f_includes f) kids)
          then Some (Ast (erase_refs f) kids) else None
      end
  end.

(* ---- canonical form for comparison: Name2Category sorted by name, nil map = empty map ---- *)

Fixpoint bytes_leb (a b : bytes) : bool :=
  match a, b with
  | [], _ => true
  | _ :: _, [] => false
  | x :: ra, y :: rb =>
      let nx := Byte.to_N x in let ny := Byte.to_N y in
      if (nx <? ny)%N then true else if (ny <? nx)%N then false else bytes_leb ra rb
  end.
Fixpoint insert_nc (x : bytes * category) (l : list (bytes * category)) : list (bytes * category) :=
  match l with
  | [] => [x]
  | y :: r => if bytes_leb (fst x) (fst y) then x :: l else y :: insert_nc x r
  end.
Definition sort_nc (l : list (bytes * category)) : list (bytes * category) := fold_right insert_nc [] l.

Definition canon_file (f : file) : file :=
  File (f_filename f) (f_includes f) (f_cpp_includes f) (f_namespaces f) (f_typedefs f) (f_constants f)
       (f_enums f) (f_structs f) (f_unions f) (f_exceptions f) (f_services f)
       (Some (sort_nc (match f_name2cat f with Some l => l | None => [] end))).

Fixpoint ast_eqb (a b : ast) {struct a} : bool :=
  match a, b with
  | Ast f ka, Ast g kb =>
      file_eqb (canon_file f) (canon_file g) &&
      (fix go (la lb : list (option ast)) {struct la} : bool :=
         match la, lb with
         | [], [] => true
         | Some x :: ra, Some y :: rb => ast_eqb x y && go ra rb
         | None :: ra, None :: rb => go ra rb
         | _, _ => false
         end) ka kb
  end.

Definition list_beqb (a b : list bytes) : bool := list_eqb beqb a b.

Definition request_matches (r : request) (d : rdump) (t : ast) : bool :=
  beqb (rq_version r) (du_version d) && list_beqb (rq_gen_params r) (du_gen d) &&
  list_beqb (rq_plugin_params r) (du_plugin d) && beqb (rq_language r) (du_language d) &&
  beqb (rq_output_path r) (du_output d) && Bool.eqb (rq_recursive r) (du_recursive d) &&
  ast_eqb (rq_ast r) t.

Definition request_of_dump (d : rdump) (t : ast) : request :=
  mkreq (du_version d) (du_gen d) (du_plugin d) (du_language d) (du_output d) (du_recursive d) t.

(* ================================================================ cases *)

Definition tref (n : string) : Schema.ty := TRef (B n).

Record req_case := mkreqcase {
  rc_lang_arg : bytes;            (* the -g string *)
  rc_plugin_arg : bytes;          (* the -p string *)
  rc_dump : bytes;                (* harness dump of the Go request that was marshalled *)
  rc_plain : bytes;               (* MarshalRequest bytes (or the plugin's stdin) *)
  rc_has_comp : bool;
  rc_comp : bytes;                (* compress + MarshalRequest + trailer *)
  rc_go_unm_plain : bool;         (* dump (UnmarshalRequest plain) = dump *)
  rc_go_unm_comp : bool;          (* dump (UnmarshalRequest comp) = dump *)
  rc_go_restored : bool;          (* after the deferred decompress the sender's AST dumps as before,
                                     and node sharing (pointer identity per Filename) is as before *)
  rc_check_args : bool            (* parameters were derived from the two strings above *)
}.

Record proc_case := mkproccase {
  pc_plugins : list (bytes * plugin_result);    (* in -p order: name, what the plugin process did *)
  pc_exit : Z;                                  (* exit status of thriftgo *)
  pc_files : list (bytes * bytes);              (* plugin-owned files found under the output dir: relative name, content *)
  pc_backend_ok : bool;                         (* every file of the plugin-less baseline run is present *)
  pc_any_file : bool;                           (* the output directory contains some file *)
  pc_stderr : bytes;                            (* what thriftgo printed on stderr *)
  pc_alive : bool;                              (* some plugin process still alive after thriftgo returned *)
  pc_outdir : bytes                             (* prefix the plugin put before its file names *)
}.

Inductive case :=
| CReq (c : req_case)
| CResp (bs : bytes) (go_ok : bool) (go_dump : bytes)      (* UnmarshalResponse on arbitrary bytes *)
| CTrailer (d : bytes) (f f' : Z) (go_appended : bytes) (go_has : bool) (go_plain_has : bool)
| CArgs (s : bytes) (go_ok : bool) (go_name : bytes) (go_packed : list bytes)
| CProc (c : proc_case).

Definition check_req (c : req_case) : list N :=
  match parse_request_dump (rc_dump c) with
  | None => [1%N]
  | Some d =>
    match d with
    | {| du_prog := [] |} => [1%N]
    | {| du_prog := (main, _) :: _ |} =>
      match tree_of (S (List.length (du_prog d))) (du_prog d) main with
      | None => [9%N]
      | Some t =>
        let expected := request_of_dump d t in
        let plain_codes :=
          match dec_struct (rc_plain c) with
          | None => [1%N]
          | Some (w, _) =>
              (if conforms (S (List.length (rc_plain c))) (tref "protocol.Request") w then [] else [4%N]) ++
              (match dec_request w with
               | Some r => if request_matches r d t then [] else [1%N]
               | None => [1%N] end) ++
              (if weq_mod false (enc_request expected) w then [] else [1%N]) ++
              (if has_feature (rc_plain c) feature_compress_include then [1%N] else []) ++
              (* the requests the compiler really builds satisfy the hypothesis of the round-trip theorems *)
              (if wf_request expected && wt_ast t then [] else [1%N])
          end in
        let comp_codes :=
          if rc_has_comp c then
            (match unmarshal_request (S (List.length (du_prog d))) (rc_comp c) with
             | UOk r => if request_matches r d t then [] else [1%N]
             | UDecompress DFuel => [9%N]
             | UDecompress _ => if rc_go_unm_comp c then [1%N] else []   (* both sides fail to decompress *)
             | _ => [1%N] end) ++
            (match dec_struct (rc_comp c) with
             | Some (w, _) =>
                 (if conforms (S (List.length (rc_comp c))) (tref "protocol.Request") w then [] else [4%N]) ++
                 (if weq_mod false (enc_request (with_ast expected (compress_top t))) w then [] else [1%N])
             | None => [1%N] end) ++
            (if has_feature (rc_comp c) feature_compress_include then [] else [1%N]) ++
            (if rc_go_unm_comp c then [] else [3%N]) ++
            (if rc_go_restored c then [] else [11%N])
          else [] in
        let args_ok (r : request) : bool :=
          match params_of (rc_lang_arg c), language_of (rc_lang_arg c), params_of (rc_plugin_arg c) with
          | Some g, Some l, Some p =>
              list_beqb g (rq_gen_params r) && beqb l (rq_language r) && list_beqb p (rq_plugin_params r)
          | _, _, _ => false end in
        let decoded (bs : bytes) : option request :=
          match dec_struct bs with Some (w, _) => dec_request w | None => None end in
        let arg_codes :=
          if rc_check_args c then
            (if args_ok expected then [] else [5%N]) ++
            (match decoded (rc_plain c) with Some r => if args_ok r then [] else [5%N] | None => [] end) ++
            (if rc_has_comp c then match decoded (rc_comp c) with Some r => if args_ok r then [] else [5%N] | None => [] end else [])
          else [] in
        plain_codes ++ comp_codes ++ arg_codes ++ (if rc_go_unm_plain c then [] else [2%N])
      end
    end
  end.

Definition generated_eqb (a b : generated) : bool :=
  beqb (gn_content a) (gn_content b) && opt_eqb beqb (gn_name a) (gn_name b) && opt_eqb beqb (gn_ip a) (gn_ip b).
Definition response_eqb (a b : response) : bool :=
  opt_eqb beqb (rs_error a) (rs_error b) && opt_eqb (list_eqb generated_eqb) (rs_contents a) (rs_contents b) &&
  opt_eqb list_beqb (rs_warnings a) (rs_warnings b).

Definition check_resp (bs : bytes) (go_ok : bool) (go_dump : bytes) : list N :=
  match unmarshal_response bs, go_ok with
  | None, false => []
  | Some r, true => match parse_response_dump go_dump with
                    | Some g => if response_eqb r g then [] else [1%N]
                    | None => [1%N] end
  | _, _ => [1%N]
  end.

(* ---- process level ---- *)

Fixpoint is_infix (p s : bytes) : bool :=
  is_prefix p s || match s with [] => false | _ :: r => is_infix p r end.

Definition strip_dir (dir name : bytes) : bytes :=
  match strip_prefix dir name with Some r => r | None => name end.

Definition files_subset (a b : list (bytes * bytes)) : bool :=
  forallb (fun x => existsb (fun y => beqb (fst x) (fst y) && beqb (snd x) (snd y)) b) a.

(* expected: the model of Generate's plugin loop on an empty file manager (the plugin's items
   only name plugin-owned files), then BuildResponse *)
Definition check_proc (c : proc_case) : list N :=
  match run_plugins fm0 [] (pc_plugins c) with
  | RFail shown =>
      (if (negb (pc_exit c =? 0)) && negb (pc_any_file c) then [] else [6%N]) ++
      (if forallb (fun w => is_infix w (pc_stderr c)) shown then [] else [8%N]) ++
      (if pc_alive c then [10%N] else [])
  | ROk shown m =>
      let want := map (fun f => (strip_dir (pc_outdir c) (fst f), snd f)) (build m) in
      (if (pc_exit c =? 0) && pc_backend_ok c && files_subset want (pc_files c) && files_subset (pc_files c) want
       then [] else [7%N]) ++
      (if forallb (fun w => is_infix w (pc_stderr c)) shown then [] else [8%N]) ++
      (if pc_alive c then [10%N] else [])
  end.

Definition check_case (c : case) : list N :=
  match c with
  | CReq r => check_req r
  | CResp bs ok d => check_resp bs ok d
  | CTrailer d f f' app has plain_has =>
      (if beqb (append_trailer d f) app then [] else [1%N]) ++
      (if Bool.eqb (has_feature app f') has then [] else [1%N]) ++
      (if Bool.eqb (has_feature d f') plain_has then [] else [1%N]) ++
      (if Bool.eqb has (Z.land f f' =? f') then [] else [12%N])
  | CArgs s ok name packed =>
      match parse_compact s, ok with
      | None, false => []
      | Some d, true => if beqb (d_name d) name && list_beqb (pack (d_opts d)) packed then [] else [1%N]
      | _, _ => [1%N]
      end
  | CProc p => check_proc p
  end.

Fixpoint dedup (l : list N) : list N :=
  match l with [] => [] | x :: r => if existsb (N.eqb x) r then dedup r else x :: dedup r end.

Fixpoint mismatches_from (i : N) (cs : list case) : list (N * N) :=
  match cs with
  | [] => []
  | c :: r => map (fun code => (i, code)) (dedup (check_case c)) ++ mismatches_from (i + 1)%N r
  end.
Definition mismatches (cs : list case) : list (N * N) := mismatches_from 0%N cs.
