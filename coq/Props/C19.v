(* Props/C19.v — property C19 "Concurrent persist: all files written or an error, under every
   schedule", stated about the transition system Gen/Persist.v of asyncPostProcess.OnFinished
   (generator/generator.go).  Statements only; every proof is [exact lemma].

   Every theorem is for ALL job lists (any number of files, any paths and contents), ALL
   concurrency limits k (k = 0 behaves as 1, as in the code), ALL post-processors pp, ALL fault
   oracles (fail_pp j / fail_w j: job j fails in PostProcess / in the write callback) and ALL
   executions: [reachable s] means that s is reached from the initial state by some interleaving
   of the steps of the caller and of the workers, including both arms of the select. *)
From Coq Require Import List Arith Bool Permutation.
From Verif Require Import Base.Bytes Gen.Persist Gen.PersistFacts.
Import ListNotations.

Section C19.
  Variable jobs : list job.
  Variable k : nat.
  Variable pp : bytes -> bytes -> bytes.
  Variable fail_pp fail_w : nat -> bool.

  Notation n := (n jobs).
  Notation step := (step jobs k pp fail_pp fail_w).
  Notation path := (path jobs k pp fail_pp fail_w).
  Notation reachable := (reachable jobs k pp fail_pp fail_w).
  Notation init := (init jobs).
  Notation failing := (failing fail_pp fail_w).

  (* The named invariants (record [Inv], fields I_len, I_front, I_tok, I_cap, I_wg, I_errs,
     I_errs_genuine, I_wlocal, I_disk, I_ret) hold in every reachable state. *)
  Theorem C19_invariant : forall s, reachable s -> Inv jobs k pp fail_pp fail_w s.
  Proof. exact (inv_reachable jobs k pp fail_pp fail_w). Qed.

  (* Token accounting: the semaphore count is the number of workers between acquire and release
     (plus the caller between acquire and go), and never exceeds the limit. *)
  Theorem C19_token_accounting : forall s, reachable s ->
    tokens s = count holds_token (ws s) + match d s with Spawn _ => 1 | _ => 0 end /\ tokens s <= cap k.
  Proof. exact (token_accounting jobs k pp fail_pp fail_w). Qed.

  (* WaitGroup accounting: the counter is the number of spawned workers that have not called Done. *)
  Theorem C19_waitgroup_accounting : forall s, reachable s -> wg s = count in_flight (ws s).
  Proof. exact (waitgroup_accounting jobs k pp fail_pp fail_w). Qed.

  (* The error channel (capacity n) is never full when a worker wants to send. *)
  Theorem C19_error_channel_never_full : forall s, reachable s ->
    List.length (errs s) <= n /\ forall j, getw s j = Failed -> List.length (errs s) < n.
  Proof. exact (error_channel_never_full jobs k pp fail_pp fail_w). Qed.

  (* nil is returned only if every job was post-processed and written, exactly once, under its
     own path with its own post-processed content (the write log is a permutation of the list of
     expected outputs), and then no job is a failing one. *)
  Theorem C19_ok_implies_all_written : forall s, reachable s -> d s = Ret None ->
    (forall j, j < n -> finished_ok (getw s j) = true) /\
    Permutation (disk s) (map (out pp) jobs) /\
    (forall j, j < n -> failing j = false).
  Proof. exact (ok_implies_all_written jobs k pp fail_pp fail_w). Qed.

  (* An error can not be lost: if any started job failed, the call returns an error, and that
     error is the error of a job that fails. *)
  Theorem C19_failure_implies_error : forall s r, reachable s -> d s = Ret r ->
    (exists j, has_failed (getw s j) = true) -> exists e, r = Some e /\ failing e = true.
  Proof. exact (failure_implies_error jobs k pp fail_pp fail_w). Qed.

  (* If the oracle makes any job fail (in either stage) the call can not return nil. *)
  Theorem C19_fault_implies_error : forall s r, reachable s -> d s = Ret r ->
    (exists j, j < n /\ failing j = true) -> r <> None.
  Proof. exact (fault_implies_error jobs k pp fail_pp fail_w). Qed.

  Theorem C19_returned_error_is_genuine : forall s e, reachable s -> d s = Ret (Some e) -> failing e = true.
  Proof. exact (returned_error_is_genuine jobs k pp fail_pp fail_w). Qed.

  (* Full strength of "returns an error iff something failed": the returned error was sent by a
     worker of THIS execution that was started and did fail (second invariant errs_reported: every
     entry of the error channel, and the received one, belongs to a worker in state Reported or
     later), and the result is an error exactly when some started job failed. *)
  Theorem C19_returned_error_from_failed_job : forall s e, reachable s -> d s = Ret (Some e) ->
    has_failed (getw s e) = true /\ failing e = true /\ e < n.
  Proof. exact (returned_error_from_failed_job jobs k pp fail_pp fail_w). Qed.

  Theorem C19_error_iff_failure : forall s r, reachable s -> d s = Ret r ->
    (r <> None <-> exists j, has_failed (getw s j) = true).
  Proof. exact (error_iff_failure jobs k pp fail_pp fail_w). Qed.

  (* At return no worker is between go and wg.Done(): no post-processing or write of this call
     is in flight or still to come ... *)
  Theorem C19_no_write_in_flight_at_return : forall s, reachable s -> is_ret s = true ->
    forall j, in_flight (getw s j) = false /\ write_pending (getw s j) = false.
  Proof. exact (no_write_in_flight_at_return jobs k pp fail_pp fail_w). Qed.

  (* ... and the only steps that remain after return are token releases: nothing is written. *)
  Theorem C19_after_return_only_release : forall s l s', reachable s -> is_ret s = true -> step s l s' ->
    (exists j, l = ERelease j) /\ disk s' = disk s /\ d s' = d s.
  Proof. exact (after_return_only_release jobs k pp fail_pp fail_w). Qed.

  (* In every state of every execution (also those ending in an error) the write log is a
     sub-multiset of the expected outputs: no job is written twice, no content under a foreign path. *)
  Theorem C19_never_twice_never_mixed : forall s, reachable s ->
    exists rest, Permutation (disk s ++ rest) (map (out pp) jobs).
  Proof. exact (never_twice_never_mixed jobs k pp fail_pp fail_w). Qed.

  Theorem C19_no_path_written_twice : forall s, NoDup (map fst jobs) -> reachable s -> NoDup (map fst (disk s)).
  Proof. exact (no_path_written_twice jobs k pp fail_pp fail_w). Qed.

  (* Deadlock freedom: every reachable state that has not returned has a successor. *)
  Theorem C19_progress : forall s, reachable s -> is_ret s = false -> exists l s', step s l s'.
  Proof. exact (progress jobs k pp fail_pp fail_w). Qed.

  (* Termination: a measure decreases on every step, executions have at most 10 n + 3 steps, a
     maximal execution ends in a returned state, and a returned state can always be reached. *)
  Theorem C19_terminates : forall s l s', reachable s -> step s l s' -> measure jobs s' < measure jobs s.
  Proof. exact (terminates jobs k pp fail_pp fail_w). Qed.

  Theorem C19_execution_length_bounded : forall tr s, path init tr s -> List.length tr <= 10 * n + 3.
  Proof. exact (execution_length_bounded jobs k pp fail_pp fail_w). Qed.

  Theorem C19_maximal_execution_returns : forall s tr s', reachable s -> path s tr s' ->
    (forall l s'', ~ step s' l s'') -> is_ret s' = true.
  Proof. exact (maximal_execution_returns jobs k pp fail_pp fail_w). Qed.

  Theorem C19_always_can_return : forall s, reachable s -> exists tr s', path s tr s' /\ is_ret s' = true.
  Proof. exact (always_can_return jobs k pp fail_pp fail_w). Qed.

  (* The written (path, content) pairs do not depend on the interleaving: two executions in which
     the same jobs have completed their write have the same write log up to order; in particular
     all successful executions write the same files. *)
  Theorem C19_schedule_free_content : forall s1 s2, reachable s1 -> reachable s2 ->
    (forall j, written (getw s1 j) = written (getw s2 j)) -> Permutation (disk s1) (disk s2).
  Proof. exact (schedule_free_content jobs k pp fail_pp fail_w). Qed.

  Theorem C19_schedule_free_content_ok : forall s1 s2, reachable s1 -> reachable s2 ->
    d s1 = Ret None -> d s2 = Ret None -> Permutation (disk s1) (disk s2).
  Proof. exact (schedule_free_content_ok jobs k pp fail_pp fail_w). Qed.

  (* The executable presentations used by the correspondence check are the relation. *)
  Theorem C19_accepted_trace_is_execution : forall tr,
    accepts_trace jobs k pp fail_pp fail_w tr = true <-> exists s, path init tr s.
  Proof. exact (accepted_trace_is_execution jobs k pp fail_pp fail_w). Qed.

  Theorem C19_succs_spec : forall s l s', In (l, s') (succs jobs k pp fail_pp fail_w s) <-> step s l s'.
  Proof. exact (succs_spec jobs k pp fail_pp fail_w). Qed.
End C19.

Print Assumptions C19_invariant.
Print Assumptions C19_token_accounting.
Print Assumptions C19_waitgroup_accounting.
Print Assumptions C19_error_channel_never_full.
Print Assumptions C19_ok_implies_all_written.
Print Assumptions C19_failure_implies_error.
Print Assumptions C19_fault_implies_error.
Print Assumptions C19_returned_error_is_genuine.
Print Assumptions C19_returned_error_from_failed_job.
Print Assumptions C19_error_iff_failure.
Print Assumptions C19_no_write_in_flight_at_return.
Print Assumptions C19_after_return_only_release.
Print Assumptions C19_never_twice_never_mixed.
Print Assumptions C19_no_path_written_twice.
Print Assumptions C19_progress.
Print Assumptions C19_terminates.
Print Assumptions C19_execution_length_bounded.
Print Assumptions C19_maximal_execution_returns.
Print Assumptions C19_always_can_return.
Print Assumptions C19_schedule_free_content.
Print Assumptions C19_schedule_free_content_ok.
Print Assumptions C19_accepted_trace_is_execution.
Print Assumptions C19_succs_spec.

(* Non-vacuity: concrete executions. Two jobs, limit 1, job 0 fails in the write callback; one
   schedule in which the caller receives the error in the loop and never starts job 1, one in
   which both jobs run and the error is picked up by the final select; and a successful run. *)
From Coq Require Import String.
Open Scope string_scope.
Definition ex_jobs : list job := [(B "a.go", B "A"); (B "b.go", B "B")].
Definition ex_pp (p c : bytes) : bytes := List.app c (B "!").

Example C19_example_error_in_loop :
  option_map (fun s => (d s, disk s))
    (run_trace ex_jobs 1 ex_pp (fun _ => false) (fun j => Nat.eqb j 0) (init ex_jobs)
       [EDispatch 0; EAcquire 0; ESpawn 0; EDispatch 1; EStart 0; EPP 0; EWrite 0; EErrSend 0;
        ERecvErr 1; EDone 0; EReturn; ERelease 0])
  = Some (Ret (Some 0), []).
Proof. vm_compute. reflexivity. Qed.

Example C19_example_error_at_final_select :
  option_map (fun s => (d s, disk s))
    (run_trace ex_jobs 1 ex_pp (fun _ => false) (fun j => Nat.eqb j 0) (init ex_jobs)
       [EDispatch 0; EAcquire 0; ESpawn 0; EDispatch 1; EStart 0; EPP 0; EWrite 0; EErrSend 0;
        EDone 0; ERelease 0; EAcquire 1; ESpawn 1; EStart 1; EPP 1; EWrite 1; EDone 1;
        EFinalWait; EReturn; ERelease 1])
  = Some (Ret (Some 0), [(B "b.go", B "B!")]).
Proof. vm_compute. reflexivity. Qed.

Example C19_example_ok :
  option_map (fun s => (d s, disk s))
    (run_trace ex_jobs 2 ex_pp (fun _ => false) (fun _ => false) (init ex_jobs)
       [EDispatch 0; EAcquire 0; ESpawn 0; EDispatch 1; EAcquire 1; ESpawn 1; EStart 1; EPP 1;
        EStart 0; EWrite 1; EPP 0; EWrite 0; EDone 0; EDone 1; EFinalWait; ERelease 1; EReturn; ERelease 0])
  = Some (Ret None, [(B "b.go", B "B!"); (B "a.go", B "A!")]).
Proof. vm_compute. reflexivity. Qed.

(* a step that the code can not take is rejected: return on the error path before the worker's Done *)
Example C19_example_rejected :
  accepts_trace ex_jobs 1 ex_pp (fun _ => false) (fun j => Nat.eqb j 0)
    [EDispatch 0; EAcquire 0; ESpawn 0; EDispatch 1; EStart 0; EPP 0; EWrite 0; EErrSend 0; ERecvErr 1; EReturn]
  = false.
Proof. vm_compute. reflexivity. Qed.
