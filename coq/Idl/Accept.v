(* Idl/Accept.v — executable model of the accept / reject decision of the thriftgo
   pipeline on a parsed program (sdk/invoke.go; property C04).  Definitions only;
   proofs are in Idl/AcceptFacts.v.

     InvokeThriftgo        [accepts] = [front_end] ; [backend_stage]
       parser.CircleDetect       [circle_detect]  (parser/circle_detect.go searchCircle:
                                 depth-first along the include statements with the
                                 path so far, no memo)
       checker.CheckAll          Idl/Check.v [check_program]
       semantic.ResolveSymbols   Idl/Resolve.v [resolve_program] (model of C05)
       g.Generate / Persist      [backend_stage]: of the Go backend only the decisions
                                 the property lists — the kind errors of constant and
                                 default values (generator/golang/resolver.go
                                 resolveConst, onBool .. onStructLike; they end in
                                 os.Exit(2) inside ensureCode, or, when they panic, in
                                 the recover of Scope.init) [kind_check], applied to the
                                 files a Scope is built for [scope_files]:
                                   -r      every file DepthFirstSearch delivers;
                                   else    the main file and, transitively, the
                                           includes marked Used (Scope.buildIncludes)
                                 The fastgo backend runs the go backend first
                                 (FastGoBackend.Generate), so both languages decide alike.
     args.Parse / Targets  [run_cmdline] over an abstract command line [cmdline]

   Not modelled (outside the rule catalogue): Go name reservation failures, template
   errors, plugins, I/O errors.  Identifiers: after ResolveSymbols every identifier
   other than true / false carries its binding; the model takes getIDValue to succeed
   on a bound identifier. *)
From Coq Require Import List Bool Arith NArith ZArith.
From Coq.Strings Require Import Byte String.
From Verif Require Import Base.Bytes Idl.Ast Idl.AstUtil Idl.Resolve Idl.Check.
Import ListNotations.

Inductive lang := LGo | LFastGo.
Record backend := Backend { be_lang : lang; be_recursive : bool }.

Inductive const_error :=
| EKindMismatch      (* errTypeMissMatch / "expect const value ... is a int or enum" / "type error" *)
| EBadKey            (* "expect literals as keys in default value of struct type" *)
| EUnknownField      (* "field %q not found in %q" *)
| EBackendInternal   (* a recovered Go panic: nil ValueType of a typedef'd container, nil Extra *)
| EBackendFuel.      (* model fuel exhausted *)

Inductive reject :=
| RIncludeCycle
| RCheck (e : check_error)
| RResolve (e : resolve_error)
| RConst (e : const_error).

(* result unit *)
Inductive aresult := AOk | ARej (r : reject).

(* model fuel ran out (never on the domain; the correspondence check reports it) *)
Definition is_fuel_reject (r : reject) : bool :=
  match r with
  | RCheck ECheckFuel | RConst EBackendFuel => true
  | _ => false
  end.

(* ---------------------------------------------------------------- CircleDetect *)

(* searchCircle(cur, nodes): true = a circle was found.  Out of fuel counts as found
   (the caller rejects); fuel = number of files + 2 is enough for every program: the
   path holds distinct Filenames of the program *)
Fixpoint search_circle (fuel : nat) (p : program) (path : list bytes) (fn : bytes) : bool :=
  match fuel with
  | O => true
  | S k =>
    match prog_file p fn with
    | None => false                                   (* cur == nil *)
    | Some f =>
      if memb fn path then true
      else existsb (search_circle k p (fn :: path)) (inc_refs f)
    end
  end.

Definition circle_detect (p : program) : bool :=
  match p with
  | [] => false
  | (m, _) :: _ => search_circle (S (S (List.length p))) p [] m
  end.

(* ---------------------------------------------------------------- constant kinds (Go backend) *)

(* an identifier: true / false carry no binding; any other is bound after resolution
   (an unbound one makes getIDValue dereference nil) *)
Definition ident_check (s : bytes) (e : option const_extra) : option const_error :=
  if ident_is_bool s then None
  else match e with Some _ => None | None => Some EBackendInternal end.
Definition bound_check (e : option const_extra) : option const_error :=
  match e with Some _ => None | None => Some EBackendInternal end.

Fixpoint first_err {A} (chk : A -> option const_error) (l : list A) : option const_error :=
  match l with
  | [] => None
  | x :: r => match chk x with Some e => Some e | None => first_err chk r end
  end.

(* resolveConst(g, name, t, v) on the resolved program [r]; None = code was produced *)
Fixpoint kind_check (fuel : nat) (r : program) (g : file) (t : ty) (v : const_value) : option const_error :=
  match fuel with
  | O => Some EBackendFuel
  | S k =>
    match ty_category t with
    | CatBool | CatDouble =>
      match v with
      | CInt _ | CDouble _ => None
      | CIdent s e => ident_check s e
      | _ => Some EKindMismatch
      end
    | CatByte | CatI16 | CatI32 | CatI64 =>
      match v with
      | CInt _ => None
      | CIdent s e => ident_check s e
      | _ => Some EKindMismatch
      end
    | CatString | CatBinary =>
      match v with
      | CLiteral _ => None
      | CIdent s e => if ident_is_bool s then Some EKindMismatch else bound_check e
      | _ => Some EKindMismatch
      end
    | CatEnum =>
      match v with
      | CInt _ => None
      | CIdent _ e => bound_check e
      | _ => Some EKindMismatch
      end
    | CatSet | CatList =>
      match v with
      | CList l =>
        match ty_value t with
        | Some et => first_err (kind_check k r g et) l
        | None => match l with [] => None | _ => Some EBackendInternal end
        end
      | CIdent _ e => bound_check e
      | _ => None                                     (* "fault tolerance": T{} *)
      end
    | CatMap =>
      match v with
      | CMap l =>
        match l with
        | [] => None
        | _ =>
          match ty_key t, ty_value t with
          | Some kt, Some vt =>
            first_err (fun kv => match kind_check k r g kt (fst kv) with
                                 | Some e => Some e
                                 | None => kind_check k r g vt (snd kv)
                                 end) l
          | _, _ => Some EBackendInternal
          end
        end
      | CIdent _ e => bound_check e
      | _ => None
      end
    | CatStruct | CatUnion | CatException =>
      match v with
      | CIdent _ e => bound_check e
      | CMap l =>
        (* getStructLike: semantic.Deref, then the struct-like of that name *)
        match deref (deref_fuel r) r g t with
        | Ok (h, x) =>
          match find_struct_like h (ty_name x) with
          | Some s =>
            first_err (fun kv =>
                         match fst kv with
                         | CLiteral n =>
                           match find_field s n with
                           | Some fd => kind_check k r h (fd_type fd) (snd kv)
                           | None => Some EUnknownField
                           end
                         | _ => Some EBadKey
                         end) l
          | None => Some EBackendInternal
          end
        | Error _ => Some EBackendInternal
        end
      | _ => Some EKindMismatch
      end
    | _ => Some EKindMismatch                         (* "type error: ... was declared as type" *)
    end
  end.

(* what resolveTypesAndValues hands to GetFieldInit / GetConstInit for one file: the
   defaults of all fields (struct-likes, then the synthesized argument and result
   structs), then the constants *)
Definition backend_values (g : file) : list (ty * const_value) :=
  flat_map (fun fd => match fd_default fd with Some v => [(fd_type fd, v)] | None => [] end) (file_fields g) ++
  map (fun c => (co_type c, co_value c)) (f_constants g).

Definition check_scope (r : program) (fn : bytes) : option const_error :=
  match prog_file r fn with
  | Some g => first_err (fun tv => kind_check (S (cv_depth (snd tv))) r g (fst tv) (snd tv)) (backend_values g)
  | None => None
  end.

(* the includes a Scope is built for: Include.Used *)
Definition used_refs (g : file) : list bytes :=
  flat_map (fun i => match in_used i, in_ref i with
                     | Some true, Some h => [h]
                     | _, _ => []
                     end) (f_includes g).

(* BuildScope(main): the main file and, transitively, its used includes *)
Fixpoint scope_closure (fuel : nat) (r : program) (visited : list bytes) (fn : bytes) : list bytes :=
  match fuel with
  | O => visited
  | S k =>
    if memb fn visited then visited
    else
      match prog_file r fn with
      | None => visited
      | Some g => fold_left (scope_closure k r) (used_refs g) (fn :: visited)
      end
  end.

(* [order]: the files DepthFirstSearch delivers (computed on the parsed program;
   resolution changes neither Filenames nor include references) *)
Definition scope_files (r : program) (order : list bytes) (b : backend) : list bytes :=
  if be_recursive b then order
  else match r with
       | [] => []
       | (m, _) :: _ => scope_closure (S (List.length r)) r [] m
       end.

Definition backend_stage (r : program) (order : list bytes) (b : backend) : option const_error :=
  first_err (check_scope r) (scope_files r order b).

(* ---------------------------------------------------------------- the pipeline *)

Inductive front := FrontOk (r : program) (order : list bytes) | FrontRej (why : reject).

(* CircleDetect ; CheckAll ; ResolveSymbols *)
Definition front_end (p : program) : front :=
  if circle_detect p then FrontRej RIncludeCycle
  else
    match dfs_order p with
    | None => FrontRej (RCheck ECheckFuel)
    | Some order =>
      match call_all (check_named p) order with
      | CErr e => FrontRej (RCheck e)
      | COk =>
        match resolve_program p with
        | Error e => FrontRej (RResolve e)
        | Ok r => FrontOk r order
        end
      end
    end.

Definition accepts (p : program) (b : backend) : aresult :=
  match front_end p with
  | FrontRej why => ARej why
  | FrontOk r order =>
    match backend_stage r order b with
    | Some e => ARej (RConst e)
    | None => AOk
    end
  end.

(* ---------------------------------------------------------------- the command line *)

(* what args.Parse / Arguments.Targets / Generator.Generate look at *)
Record cmdline := Cmdline {
  cl_flags_ok : bool;        (* the flag package accepted every option and its value *)
  cl_idl_args : nat;         (* number of positional arguments *)
  cl_specs_ok : bool;        (* every -g string parses (ParseCompactArguments, option values) *)
  cl_langs : list bytes;     (* the language of every -g, in order *)
  cl_recursive : bool }.

Definition lang_of (l : bytes) : option lang :=
  if beqb l (B "go") then Some LGo else if beqb l (B "fastgo") then Some LFastGo else None.

Definition cmdline_valid (c : cmdline) : bool :=
  cl_flags_ok c && (cl_idl_args c =? 1) && cl_specs_ok c &&
  negb (is_nil (cl_langs c)) &&
  forallb (fun l => match lang_of l with Some _ => true | None => false end) (cl_langs c).

Record outcome := Outcome {
  exit0 : bool;              (* exit status 0 *)
  wrote : bool }.            (* generated files were written *)

(* the loop over the -g languages: each one is generated and persisted before the
   next is looked at *)
Fixpoint gen_langs (r : program) (order : list bytes) (rec : bool) (langs : list bytes) (w : bool) : outcome :=
  match langs with
  | [] => Outcome true w
  | l :: rest =>
    match lang_of l with
    | None => Outcome false w                          (* "No generator for language" *)
    | Some lg =>
      match backend_stage r order (Backend lg rec) with
      | Some _ => Outcome false w
      | None => gen_langs r order rec rest true
      end
    end
  end.

Definition run_cmdline (c : cmdline) (p : program) : outcome :=
  if negb (cl_flags_ok c && (cl_idl_args c =? 1)) then Outcome false false
  else
    match front_end p with
    | FrontRej _ => Outcome false false
    | FrontOk r order =>
      if negb (cl_specs_ok c) then Outcome false false
      else match cl_langs c with
           | [] => Outcome false false               (* "No output language(s) specified" *)
           | langs => gen_langs r order (cl_recursive c) langs false
           end
    end.
