(* Gen/KeywordFacts.v — the keyword list of the model (Gen/Scope.v, go_keywords) is the table the
   translator read from generator/golang/types.go on this run (Gen/KeywordTable.v). *)
From Coq Require Import List Bool.
From Verif Require Import Base.Bytes Gen.Scope Gen.KeywordTable.
Import ListNotations.

Lemma existsb_beqb_In n l : existsb (beqb n) l = true <-> In n l.
Proof.
  rewrite existsb_exists. split.
  - intros [x [Hin He]]. apply beqb_true in He. subst x. exact Hin.
  - intro Hin. exists n. split; [exact Hin | apply beqb_refl].
Qed.

Definition included (a b : list bytes) : bool := forallb (fun k => existsb (beqb k) b) a.

Lemma included_In a b : included a b = true -> forall n, In n a -> In n b.
Proof.
  unfold included. rewrite forallb_forall. intros H n Hin. apply existsb_beqb_In. apply H, Hin.
Qed.

Theorem keyword_table_is_source n : is_keyword n = existsb (beqb n) src_keywords.
Proof.
  assert (H1 : included go_keywords src_keywords = true) by (vm_compute; reflexivity).
  assert (H2 : included src_keywords go_keywords = true) by (vm_compute; reflexivity).
  unfold is_keyword.
  destruct (existsb (beqb n) go_keywords) eqn:E1, (existsb (beqb n) src_keywords) eqn:E2; try reflexivity.
  - apply existsb_beqb_In in E1. apply (included_In _ _ H1) in E1. apply existsb_beqb_In in E1. congruence.
  - apply existsb_beqb_In in E2. apply (included_In _ _ H2) in E2. apply existsb_beqb_In in E2. congruence.
Qed.
