(* Mask/Spec.v — what a field mask means, stated on path SETS only.
   A (simple) path is a list of segments; a position in a thrift value is a list of query
   keys.  Query answers are defined from the set of paths alone, for white and black lists.
   Also: the path grammar (syntactic paths with grouped indices/keys, by name or id), its
   token rendering, its typing against a descriptor, the expansion of a typed path into
   simple paths and the decidable domain predicates used in Props/C14.v.
   No proofs in this file. *)
From Coq Require Import List Bool ZArith.
From Coq.Strings Require Import Byte.
From Verif Require Import Base.Bytes Mask.Path Mask.Desc Mask.Trie.
Import ListNotations.

(* ------------------------------------------------------------------ path sets *)

(* SInt is a list/set index or an integer map key: both are asked with Int(i).
   SStar is the star of a list, set or map; SStarF the star over the fields of a struct. *)
Inductive seg := SFld (id : Z) | SInt (i : Z) | SStr (s : bytes) | SStar | SStarF.
Definition spath := list seg.

Definition seg_matches (s : seg) (k : qkey) : bool :=
  match s, k with
  | SFld a, QF b => (a =? b)%Z
  | SInt a, QI b => (a =? b)%Z
  | SStr a, QS b => beqb a b
  | SStar, _ | SStarF, _ => true
  | _, _ => false
  end.

Definition seg_is_star (s : seg) : bool := match s with SStar | SStarF => true | _ => false end.

(* the path ends at the position q or above it: everything at q is inside the path *)
Fixpoint covers (p : spath) (q : list qkey) : bool :=
  match p, q with
  | [], _ => true
  | _ :: _, [] => false
  | s :: p', k :: q' => seg_matches s k && covers p' q'
  end.

(* the path runs through the position q (q is on the way to the end of the path, or is it) *)
Fixpoint touches (p : spath) (q : list qkey) : bool :=
  match q, p with
  | [], _ => true
  | _ :: _, [] => false
  | k :: q', s :: p' => seg_matches s k && touches p' q'
  end.

(* the path runs through q and goes on with a star *)
Fixpoint star_at (p : spath) (q : list qkey) : bool :=
  match q, p with
  | [], [] => false
  | [], s :: _ => seg_is_star s
  | _ :: _, [] => false
  | k :: q', s :: p' => seg_matches s k && star_at p' q'
  end.

(* q is completely covered by the set *)
Definition complete (ps : list spath) (q : list qkey) : bool := existsb (fun p => covers p q) ps.
Definition touched (ps : list spath) (q : list qkey) : bool := existsb (fun p => touches p q) ps.
Definition starred (ps : list spath) (q : list qkey) : bool := existsb (fun p => star_at p q) ps.

(* Does the element at the (non-root) position q pass (is it written / read)?
   white list: iff some path covers it or runs through it; the empty set passes everything.
   black list: iff no path ends at it or above it. *)
Definition spec_pass (black : bool) (ps : list spath) (q : list qkey) : bool :=
  match q with
  | [] => true                     (* the root value itself is never asked about *)
  | _ =>
    if black then negb (complete ps q)
    else match ps with [] => true | _ => complete ps q || touched ps q end
  end.

(* The answer of All() on the sub mask reached at a passing position q: every child of q
   is treated alike.  white: q is covered, or a path goes on from q with a star; the empty
   set.  black: a path goes on from q with a star, or no path runs through q at all. *)
Definition spec_all (black : bool) (ps : list spath) (q : list qkey) : bool :=
  if black then starred ps q || negb (touched ps q)
  else match ps with [] => true | _ => complete ps q || starred ps q end.

(* ------------------------------------------------------------------ the path grammar *)

(* $ followed by segments:  .name  .id  .*  [i,..]  [*]  {i,..}  {"s",..}  {*}  *)
Inductive pseg :=
| PName (n : bytes) | PId (id : Z) | PStarF
| PIdx (ids : list Z) | PIdxStar
| PKeyI (ids : list Z) | PKeyS (ss : list bytes) | PKeyStar.

Fixpoint sep_by (sep : token) (l : list token) : list token :=
  match l with
  | [] => []
  | [x] => [x]
  | x :: r => x :: sep :: sep_by sep r
  end.

Definition seg_tokens (s : pseg) : list token :=
  match s with
  | PName n => [TField; TLitStr n]
  | PId id => [TField; TLitInt id]
  | PStarF => [TField; TAny]
  | PIdx ids => TIndexL :: sep_by TElem (map TLitInt ids) ++ [TIndexR]
  | PIdxStar => [TIndexL; TAny; TIndexR]
  | PKeyI ids => TMapL :: sep_by TElem (map TLitInt ids) ++ [TMapR]
  | PKeyS ss => TMapL :: sep_by TElem (map TStr ss) ++ [TMapR]
  | PKeyStar => [TMapL; TAny; TMapR]
  end.

Definition tokens_of (p : list pseg) : list token := TRoot :: flat_map seg_tokens p.

(* recogniser of the grammar on token lists: some list of segments renders to these tokens *)
Fixpoint items_int (ts : list token) (close : token -> bool) : option (list token) :=
  match ts with
  | TLitInt _ :: t :: r => if close t then Some r else
                           match t with TElem => items_int r close | _ => None end
  | _ => None
  end.
Fixpoint items_str (ts : list token) : option (list token) :=
  match ts with
  | TStr _ :: t :: r => match t with TMapR => Some r | TElem => items_str r | _ => None end
  | _ => None
  end.
Definition is_IndexR (t : token) : bool := match t with TIndexR => true | _ => false end.
Definition is_MapR (t : token) : bool := match t with TMapR => true | _ => false end.

Fixpoint gram_segs (fuel : nat) (ts : list token) : bool :=
  match fuel with
  | O => false
  | S f =>
    match ts with
    | [] => true
    | TField :: TLitStr _ :: r | TField :: TLitInt _ :: r | TField :: TAny :: r => gram_segs f r
    | TIndexL :: TAny :: TIndexR :: r => gram_segs f r
    | TMapL :: TAny :: TMapR :: r => gram_segs f r
    | TIndexL :: r => match items_int r is_IndexR with Some rest => gram_segs f rest | None => false end
    | TMapL :: TStr s :: r => match items_str (TStr s :: r) with Some rest => gram_segs f rest | None => false end
    | TMapL :: r => match items_int r is_MapR with Some rest => gram_segs f rest | None => false end
    | _ => false
    end
  end.

Definition grammatical (ts : list token) : bool :=
  match ts with
  | TRoot :: r => gram_segs (S (List.length r)) r
  | _ => false
  end.

Fixpoint nodupb {A} (eqb : A -> A -> bool) (l : list A) : bool :=
  match l with
  | [] => true
  | x :: r => negb (existsb (eqb x) r) && nodupb eqb r
  end.

(* integer literals are non-negative and fit int, key sets are non-empty without repetition *)
Definition lit_ok (z : Z) : bool := (0 <=? z)%Z && (z <=? max_int)%Z.

Definition wf_pseg (s : pseg) : bool :=
  match s with
  | PName n => match n with [] => false | _ => forallb (fun b => negb (is_sep b)) n && negb (forallb is_digit n) end
  | PId id => (0 <=? id)%Z && (id <=? max_int32)%Z
  | PIdx ids | PKeyI ids => match ids with [] => false | _ => forallb lit_ok ids && nodupb Z.eqb ids end
  | PKeyS ss => match ss with [] => false | _ => nodupb beqb ss end
  | PStarF | PIdxStar | PKeyStar => true
  end.

Definition wf_path (p : list pseg) : bool := forallb wf_pseg p.

(* ------------------------------------------------------------------ typed paths *)

(* a grouped segment resolved against the descriptor: the key(s) and the FieldMaskType t
   of the node(s) below *)
Inductive gseg :=
| GFld (id : Z) (t : ft)
| GInts (ids : list Z) (t : ft)
| GStrs (ss : list bytes) (t : ft)
| GStar (t : ft)
| GStarF (t : ft).
Definition gpath := list gseg.

Definition ok_ft (t : ft) : bool := negb (ft_eqb t FtInvalid).

(* typing of a syntactic path against a descriptor; a struct star must be the last segment
   (mask.go types the shared child by the first field only, see its NOTICE) *)
Fixpoint elab (env : senv) (d : ty) (p : list pseg) : option gpath :=
  match p with
  | [] => Some []
  | s :: r =>
      let fld (x : option field) :=
        match x with
        | Some f =>
            (* a field whose type has no mask type (union, exception) cannot be selected *)
            if ok_ft (switch_ft env (f_ty f)) then
              match elab env (f_ty f) r with
              | Some g => Some (GFld (f_id f) (switch_ft env (f_ty f)) :: g)
              | None => None
              end
            else None
        | None => None
        end in
      match s with
      | PName n => match struct_fields env d with Some fs => fld (field_by_name fs n) | None => None end
      | PId id => match struct_fields env d with Some fs => fld (field_by_id fs id) | None => None end
      | PStarF =>
          match struct_fields env d, r with
          | Some (f0 :: _), [] =>
              if ok_ft (switch_ft env (f_ty f0)) then Some [GStarF (switch_ft env (f_ty f0))] else None
          | _, _ => None
          end
      | PIdx ids =>
          match list_elem d with
          | Some e => if ok_ft (switch_ft env e)
                      then match elab env e r with Some g => Some (GInts ids (switch_ft env e) :: g) | None => None end
                      else None
          | None => None
          end
      | PIdxStar =>
          match list_elem d with
          | Some e => if ok_ft (switch_ft env e)
                      then match elab env e r with Some g => Some (GStar (switch_ft env e) :: g) | None => None end
                      else None
          | None => None
          end
      | PKeyI ids =>
          match map_kv d with
          | Some (k, v) => if ft_eqb (key_ft k) FtIntMap && ok_ft (switch_ft env v)
                           then match elab env v r with Some g => Some (GInts ids (switch_ft env v) :: g) | None => None end
                           else None
          | None => None
          end
      | PKeyS ss =>
          match map_kv d with
          | Some (k, v) => if ft_eqb (key_ft k) FtStrMap && ok_ft (switch_ft env v)
                           then match elab env v r with Some g => Some (GStrs ss (switch_ft env v) :: g) | None => None end
                           else None
          | None => None
          end
      | PKeyStar =>
          match map_kv d with
          | Some (_, v) => if ok_ft (switch_ft env v)
                           then match elab env v r with Some g => Some (GStar (switch_ft env v) :: g) | None => None end
                           else None
          | None => None
          end
      end
  end.

Fixpoint elab_all (env : senv) (d : ty) (ps : list (list pseg)) : option (list gpath) :=
  match ps with
  | [] => Some []
  | p :: r =>
      match elab env d p, elab_all env d r with
      | Some g, Some gs => Some (g :: gs)
      | _, _ => None
      end
  end.

(* well typed: the root has a mask type, every path is grammatical and types *)
Definition well_typed (env : senv) (d : ty) (ps : list (list pseg)) : bool :=
  ok_ft (switch_ft env d) && forallb wf_path ps &&
  match elab_all env d ps with Some _ => true | None => false end.

(* the simple paths a typed path stands for *)
Fixpoint expand (g : gpath) : list spath :=
  match g with
  | [] => [[]]
  | GFld id _ :: r => map (cons (SFld id)) (expand r)
  | GInts ids _ :: r => flat_map (fun i => map (cons (SInt i)) (expand r)) ids
  | GStrs ss _ :: r => flat_map (fun s => map (cons (SStr s)) (expand r)) ss
  | GStar _ :: r => map (cons SStar) (expand r)
  | GStarF _ :: r => map (cons SStarF) (expand r)
  end.

Definition path_set (gs : list gpath) : list spath := flat_map expand gs.

(* decidable equality of path sets (as sets) *)
Definition seg_eqb (x y : seg) : bool :=
  match x, y with
  | SFld i, SFld j | SInt i, SInt j => (i =? j)%Z
  | SStr s, SStr t => beqb s t
  | SStar, SStar | SStarF, SStarF => true
  | _, _ => false
  end.

Fixpoint spath_eqb (a b : spath) : bool :=
  match a, b with
  | [], [] => true
  | x :: a', y :: b' => seg_eqb x y && spath_eqb a' b'
  | _, _ => false
  end.

Definition same_set (a b : list spath) : bool :=
  forallb (fun p => existsb (spath_eqb p) b) a && forallb (fun p => existsb (spath_eqb p) a) b.

(* ------------------------------------------------------------------ the domain *)

Definition disjointb {A} (eqb : A -> A -> bool) (a b : list A) : bool :=
  forallb (fun x => negb (existsb (eqb x) b)) a.

(* two typed paths do not conflict: neither is a proper prefix of the other, at no common
   position one has a star and the other a key, a struct star is not given twice, and a
   child selected by both has one type *)
Fixpoint compat2 (a b : gpath) : bool :=
  match a, b with
  | [], [] => true
  | [], _ :: _ | _ :: _, [] => false
  | GFld i t :: a', GFld j u :: b' => if (i =? j)%Z then ft_eqb t u && compat2 a' b' else true
  | GInts x t :: a', GInts y u :: b' => if disjointb Z.eqb x y then true else ft_eqb t u && compat2 a' b'
  | GStrs x t :: a', GStrs y u :: b' => if disjointb beqb x y then true else ft_eqb t u && compat2 a' b'
  | GStar t :: a', GStar u :: b' => ft_eqb t u && compat2 a' b'
  | _, _ => false
  end.

Fixpoint no_conflict (gs : list gpath) : bool :=
  match gs with
  | [] => true
  | g :: r => forallb (compat2 g) r && no_conflict r
  end.

Fixpoint ends_with_star (g : gpath) : bool :=
  match g with
  | [] => false
  | [GStar _] | [GStarF _] => true
  | _ :: r => ends_with_star r
  end.

(* black lists: no path ends with a star segment *)
Definition no_tail_star (gs : list gpath) : bool := forallb (fun g => negb (ends_with_star g)) gs.

Definition has_star (g : gpath) : bool :=
  existsb (fun s => match s with GStar _ | GStarF _ => true | _ => false end) g.
Definition star_free (gs : list gpath) : bool := forallb (fun g => negb (has_star g)) gs.

(* the domain of the main theorem *)
Definition in_domain (black : bool) (gs : list gpath) : bool :=
  no_conflict gs && (if black then no_tail_star gs else true).

(* ------------------------------------------------------------------ domain predicates of the GetPath / PathInMask theorem *)

(* field ids are unique in every struct of the environment *)
Definition env_ok (env : senv) : bool :=
  forallb (fun sf => nodupb Z.eqb (map f_id (snd sf))) env.

(* a segment with exactly one key (no star, no key set) *)
Definition simple_seg (s : pseg) : bool :=
  match s with
  | PName _ | PId _ => true
  | PIdx [_] | PKeyI [_] | PKeyS [_] => true
  | _ => false
  end.

(* no struct star *)
Fixpoint no_starf (p : list pseg) : bool :=
  match p with [] => true | PStarF :: _ => false | _ :: r => no_starf r end.

(* the query keys of a typed single-key path *)
Fixpoint qkeys (g : gpath) : list qkey :=
  match g with
  | [] => []
  | GFld id _ :: r => QF id :: qkeys r
  | GInts [i] _ :: r => QI i :: qkeys r
  | GStrs [x] _ :: r => QS x :: qkeys r
  | _ :: r => qkeys r
  end.

(* no path is the root path "$" *)
Definition no_root_path (gs : list gpath) : bool :=
  forallb (fun g => match g with [] => false | _ => true end) gs.
