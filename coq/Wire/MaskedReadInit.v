(* Wire/MaskedReadInit.v — Read under a mask into an ARBITRARY start object (not only NewX()):
   the statement of Wire/MaskedReadFacts.v for every current state of the object. *)
From Coq Require Import List ZArith Bool Lia.
From Verif Require Import Base.Bytes Base.BE Wire.TType Wire.WVal Wire.Codec Wire.CodecFacts
  Wire.Schema Wire.Value Wire.GenTables Wire.Std Wire.StdFacts Wire.Masked Wire.MaskedFacts Wire.MaskedRead
  Wire.MaskedReadFacts.
Import ListNotations.
Open Scope Z_scope.

Theorem masked_read_any_init cfg m e s fs0 wfs v0 :
  find_struct e (s_name s) = Some s ->
  from_wire e s (VStruct fs0) (WStruct wfs) = Ok v0 ->
  exists v, from_wire_masked cfg m e s (VStruct fs0) (WStruct wfs) = Ok v /\
            from_wire (relax e) (relax_s s) (VStruct fs0)
                      (filter_w_mask e m (TRef (s_name s)) (WStruct wfs)) = Ok v.
Proof.
  intros Hs H0. unfold from_wire in H0.
  destruct (foldM (read_step e s) wfs (fs0, [])) as [[fs' seen']|] eqn:Ef; [|discriminate]. cbn [bind] in H0.
  assert (HT : Forall (fun wf => Pt (option mask) mquery e (snd wf)) wfs)
    by (apply Forall_forall; intros wf _; apply from_wm_total).
  destruct (fold_total (option mask) mquery e m s wfs HT _ _ _ _ Ef fs0) as (fs2 & Hm).
  assert (Hfin : finish_read s (fs2, seen') = Ok (VStruct fs2)).
  { unfold finish_read in *. cbn [fst snd] in *. destruct (first_missing (s_fields s) seen'); [discriminate | reflexivity]. }
  exists (VStruct fs2). unfold from_wire_masked, from_wire_m. rewrite Hm. cbn [bind]. split; [exact Hfin|].
  assert (HF : Forall (fun wf => Pm (option mask) mquery None e (snd wf)) wfs)
    by (apply Forall_forall; intros wf _; apply (from_wm_filter (option mask) mquery None mquery_nil)).
  destruct (fold_filter (option mask) mquery None e m s wfs HF _ _ _ _ Hm []) as (seen2 & Hf).
  unfold filter_w_mask. rewrite filter_w_struct, Hs. unfold from_wire. rewrite Hf. cbn [bind]. apply finish_read_relax.
Qed.
