(* Wire/MaskedHalfway.v — field_mask_halfway on objects that already carry sub masks.

   With field_mask_halfway the generated code hands a sub mask to a struct value with
   Pass_FieldMask(fm):   if p == nil || p._fieldmask != nil { return };  p._fieldmask = fm
   so a mask that is already set on a sub object wins over what the parent passes, and a Write
   under a mask LEAVES the sub masks it passed in the sub objects.

   [to_wm_again cfg e s1 s2 t v] models Write on an object that was written once before (as a
   fresh object) under the selector state s1 at this position, and is now written with s2
   arriving from the parent (or set on the root by Set_FieldMask):
     - a struct value consults its own mask if the first Write left a non-nil one: the
       effective mask is s1 when s1 is not nil, else s2;
     - lists, sets and maps carry no mask: they filter with what arrives (s2);
     - below, the first Write reached a child exactly when the child passed under s1, and then
       left the sub mask it computed there.
   [None] is the nil mask (also: not reached, or reached with nil: Pass_FieldMask(nil) is a no-op).
   With s1 = None (a fresh object) this is to_wm_mask (Wire/MaskedHalfwayFacts.v).
   Without field_mask_halfway the parent uses Set_FieldMask: what arrives always wins
   (to_wm_mask).  No proofs in this file. *)
From Coq Require Import List ZArith Bool Lia.
From Verif Require Import Base.Bytes Base.BE Wire.TType Wire.WVal Wire.Codec Wire.Schema Wire.Value
  Wire.GenTables Wire.Std Wire.Masked.
Import ListNotations.
Open Scope Z_scope.

(* what the first Write left at the child asked for with k *)
Definition stale_sub (s1 : option mask) (k : qkey) : option mask :=
  if snd (mquery s1 k) then fst (mquery s1 k) else None.

(* the mask a struct value works with *)
Definition own_or (s1 s2 : option mask) : option mask :=
  match s1 with Some _ => s1 | None => s2 end.

Section Sel2.
  Context {A B : Type}.
  Variable key : nat -> A -> qkey.
  Variable s1 s2 : option mask.
  Variable f : option mask -> option mask -> A -> result B.
  Fixpoint mapM_sel2 (i : nat) (l : list A) : result (list B) :=
    match l with
    | [] => Ok []
    | x :: r =>
        if snd (mquery s2 (key i x)) then
          match f (stale_sub s1 (key i x)) (fst (mquery s2 (key i x))) x with
          | Err er => Err er
          | Ok y => match mapM_sel2 (S i) r with Err er => Err er | Ok ys => Ok (y :: ys) end
          end
        else mapM_sel2 (S i) r
    end.
End Sel2.

Fixpoint to_wm_again (cfg : mcfg) (e : env) (s1 s2 : option mask) (t : ty) (v : value) {struct v} : result rw :=
  match v with
  | VList l =>
      match t with
      | TList et =>
          bind (mapM_sel2 idx_key s1 s2 (fun a b x => to_wm_again cfg e a b et x) 0 l)
               (fun xs => Ok (RList (ttype_of e et) (list_hdr (option mask) mquery mlive mall cfg s2 l) xs))
      | TSet et =>
          if set_has_dup l then Err ESetDup else
          bind (mapM_sel2 idx_key s1 s2 (fun a b x => to_wm_again cfg e a b et x) 0 l)
               (fun xs => Ok (RSet (ttype_of e et) (list_hdr (option mask) mquery mlive mall cfg s2 l) xs))
      | _ => Err EBadValue end
  | VMap kvs =>
      match t with
      | TMap kt vt =>
          bind (mapM_sel2 (fun _ kv => map_qkey kt (fst kv)) s1 s2
                          (fun a b kv => bind (to_w e kt (fst kv)) (fun k =>
                                         bind (to_wm_again cfg e a b vt (snd kv)) (fun x => Ok (k, x)))) 0 kvs)
               (fun xs => Ok (RMap (ttype_of e kt) (ttype_of e vt) (map_hdr (option mask) mquery mlive kt s2 kvs) xs))
      | _ => Err EBadValue end
  | VStruct fs =>
      match t with
      | TRef n =>
        match find_struct e n with
        | Some s =>
            let c := count_set (s_fields s) fs in
            if is_union s && negb (c =? 1)%nat then Err (EUnionCount c) else
            let eff := own_or s1 s2 in          (* Pass_FieldMask: the mask already set wins *)
            bind (mapM (fun p =>
                    match find_field (fst p) (s_fields s) with
                    | None => Err EBadValue
                    | Some f =>
                        if present f (snd p) then
                          let k := QF (f_id f) in
                          let ex := snd (mquery eff k) in
                          if ex || (is_required f && negb (zero_required cfg)) then
                            let b := if ex then fst (mquery eff k) else None in
                            (* the first Write worked here with s1 (the object was fresh then) *)
                            let a := stale_sub s1 k in
                            if base_ptr f then
                              match snd p with
                              | VSome x => bind (to_wm_again cfg e a b (f_ty f) x)
                                                (fun x => Ok (Some (ttype_of e (f_ty f), f_id f, x)))
                              | _ => Err EBadValue end
                            else bind (to_wm_again cfg e a b (f_ty f) (snd p))
                                      (fun x => Ok (Some (ttype_of e (f_ty f), f_id f, x)))
                          else if is_required f then
                            Ok (Some (ttype_of e (f_ty f), f_id f, RV (zero_w e (f_ty f))))
                          else Ok None
                        else Ok None
                    end) fs)
                 (fun ofs => Ok (RStruct (cat_somes ofs)))
        | None => Err EUnknownStruct end
      | _ => Err EBadValue end
  | _ => bind (to_w e t v) (fun w => Ok (RV w))
  end.

(* x.Set_FieldMask(m1); x.Write(..); x.Set_FieldMask(m2); x.Write(..) on a fresh object x:
   the second Write.  Set_FieldMask on the root replaces the root's mask, so the root works
   with m2; the sub objects keep what the first Write passed them (halfway), or get what the
   second Write sets (default). *)
Definition second_write (cfg : mcfg) (m1 m2 : option mask) (e : env) (s : sschema) (v : value) : result rw :=
  if halfway cfg then
    match v with
    | VStruct fs =>
        match find_struct e (s_name s) with
        | Some s' =>
            let c := count_set (s_fields s') fs in
            if is_union s' && negb (c =? 1)%nat then Err (EUnionCount c) else
            bind (mapM (fun p =>
                    match find_field (fst p) (s_fields s') with
                    | None => Err EBadValue
                    | Some f =>
                        if present f (snd p) then
                          let k := QF (f_id f) in
                          let ex := snd (mquery m2 k) in
                          if ex || (is_required f && negb (zero_required cfg)) then
                            let b := if ex then fst (mquery m2 k) else None in
                            let a := stale_sub m1 k in
                            if base_ptr f then
                              match snd p with
                              | VSome x => bind (to_wm_again cfg e a b (f_ty f) x)
                                                (fun x => Ok (Some (ttype_of e (f_ty f), f_id f, x)))
                              | _ => Err EBadValue end
                            else bind (to_wm_again cfg e a b (f_ty f) (snd p))
                                      (fun x => Ok (Some (ttype_of e (f_ty f), f_id f, x)))
                          else if is_required f then
                            Ok (Some (ttype_of e (f_ty f), f_id f, RV (zero_w e (f_ty f))))
                          else Ok None
                        else Ok None
                    end) fs)
                 (fun ofs => Ok (RStruct (cat_somes ofs)))
        | None => Err EUnknownStruct end
    | _ => to_wire_masked cfg m2 e s v
    end
  else to_wire_masked cfg m2 e s v.
