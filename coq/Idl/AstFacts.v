(* Idl/AstFacts.v — facts about Idl/Ast.v: the boolean equalities decide Leibniz
   equality ([*_eqb_eq] : eqb a b = true <-> a = b), induction principles for the
   nested types [ty] and [const_value], and idempotence of the strip functions. *)
From Coq Require Import List Bool NArith ZArith Lia.
From Verif Require Import Base.Bytes Idl.Ast.
Import ListNotations.

(* ---------------------------------------------------------------- induction principles *)

(* [ty]: the automatically generated principle ignores the [option ty] children *)
Lemma ty_ind' (P : ty -> Prop) :
  (forall n k v c an cat r t,
      (forall x, k = Some x -> P x) -> (forall x, v = Some x -> P x) -> P (Ty n k v c an cat r t)) ->
  forall t, P t.
Proof.
  intro H. fix IH 1. intros [n k v c an cat r t]. apply H.
  - destruct k as [y|]; intros x Hx; [injection Hx as <-; apply IH | discriminate].
  - destruct v as [y|]; intros x Hx; [injection Hx as <-; apply IH | discriminate].
Qed.

(* [const_value]: children inside lists *)
Lemma const_value_ind' (P : const_value -> Prop) :
  (forall b, P (CDouble b)) -> (forall z, P (CInt z)) -> (forall s, P (CLiteral s)) ->
  (forall s e, P (CIdent s e)) ->
  (forall l, Forall P l -> P (CList l)) ->
  (forall l, Forall (fun kv => P (fst kv) /\ P (snd kv)) l -> P (CMap l)) ->
  forall c, P c.
Proof.
  intros Hd Hi Hl Hid Hls Hm. fix IH 1. intros [b|z|s|s e|l|l].
  - apply Hd.
  - apply Hi.
  - apply Hl.
  - apply Hid.
  - apply Hls. induction l as [|x l IHl]; constructor; [apply IH | exact IHl].
  - apply Hm. induction l as [|[k v] l IHl]; constructor; [split; apply IH | exact IHl].
Qed.

(* ---------------------------------------------------------------- generic helpers *)

Lemma opt_eqb_eq {A} (eq : A -> A -> bool) :
  (forall x y, eq x y = true <-> x = y) -> forall a b, opt_eqb eq a b = true <-> a = b.
Proof.
  intros H [x|] [y|]; cbn; try (split; congruence).
  rewrite H. split; congruence.
Qed.

Lemma list_eqb_eq {A} (eq : A -> A -> bool) :
  (forall x y, eq x y = true <-> x = y) -> forall a b, list_eqb eq a b = true <-> a = b.
Proof.
  intros H a. induction a as [|x a IH]; intros [|y b]; cbn; try (split; congruence).
  rewrite andb_true_iff, H, IH. split; [intros [-> ->]; reflexivity | intros [= -> ->]; auto].
Qed.

(* the same, with the element hypothesis restricted to the members of the first list *)
Lemma list_eqb_eq_in {A} (eq : A -> A -> bool) (a : list A) :
  Forall (fun x => forall y, eq x y = true <-> x = y) a -> forall b, list_eqb eq a b = true <-> a = b.
Proof.
  induction 1 as [|x a Hx _ IH]; intros [|y b]; cbn; try (split; congruence).
  rewrite andb_true_iff, Hx, IH. split; [intros [-> ->]; reflexivity | intros [= -> ->]; auto].
Qed.

Lemma bool_eqb_eq a b : Bool.eqb a b = true <-> a = b.
Proof. destruct a, b; cbn; split; congruence. Qed.

Lemma category_eqb_eq a b : category_eqb a b = true <-> a = b.
Proof. unfold category_eqb. rewrite N.eqb_eq. destruct a, b; cbn; split; congruence. Qed.

Lemma requiredness_eqb_eq a b : requiredness_eqb a b = true <-> a = b.
Proof. destruct a, b; cbn; split; congruence. Qed.

Lemma sl_kind_eqb_eq a b : sl_kind_eqb a b = true <-> a = b.
Proof. destruct a, b; cbn; split; congruence. Qed.

Ltac split_andb :=
  repeat match goal with
         | H : _ && _ = true |- _ => apply andb_true_iff in H; destruct H
         end.

(* ---------------------------------------------------------------- node equalities *)

Lemma reference_eqb_eq a b : reference_eqb a b = true <-> a = b.
Proof.
  destruct a, b; unfold reference_eqb; cbn. rewrite andb_true_iff, beqb_true, Z.eqb_eq.
  split; [intros [-> ->]; reflexivity | intros [= -> ->]; auto].
Qed.

Lemma annotation_eqb_eq a b : annotation_eqb a b = true <-> a = b.
Proof.
  destruct a, b; unfold annotation_eqb; cbn.
  rewrite andb_true_iff, beqb_true, (list_eqb_eq beqb beqb_true).
  split; [intros [-> ->]; reflexivity | intros [= -> ->]; auto].
Qed.

Lemma annotations_eqb_eq a b : annotations_eqb a b = true <-> a = b.
Proof. apply list_eqb_eq, annotation_eqb_eq. Qed.

Lemma ty_eqb_eq : forall a b, ty_eqb a b = true <-> a = b.
Proof.
  induction a as [n k v c an cat r t IHk IHv] using ty_ind'. intros [n2 k2 v2 c2 an2 cat2 r2 t2].
  cbn [ty_eqb].
  assert (Hk : match k, k2 with Some x, Some y => ty_eqb x y | None, None => true | _, _ => false end = true <-> k = k2).
  { destruct k as [x|], k2 as [y|]; try (split; congruence).
    rewrite (IHk x eq_refl). split; congruence. }
  assert (Hv : match v, v2 with Some x, Some y => ty_eqb x y | None, None => true | _, _ => false end = true <-> v = v2).
  { destruct v as [x|], v2 as [y|]; try (split; congruence).
    rewrite (IHv x eq_refl). split; congruence. }
  rewrite !andb_true_iff, Hk, Hv, !beqb_true, annotations_eqb_eq, category_eqb_eq,
    (opt_eqb_eq _ reference_eqb_eq), (opt_eqb_eq _ bool_eqb_eq).
  split.
  - intros [[[[[[[-> ->] ->] ->] ->] ->] ->] ->]. reflexivity.
  - intros [= -> -> -> -> -> -> -> ->]. tauto.
Qed.

Lemma const_extra_eqb_eq a b : const_extra_eqb a b = true <-> a = b.
Proof.
  destruct a, b; unfold const_extra_eqb; cbn.
  rewrite !andb_true_iff, bool_eqb_eq, Z.eqb_eq, !beqb_true.
  split; [intros [[[-> ->] ->] ->]; reflexivity | intros [= -> -> -> ->]; auto].
Qed.

Lemma const_value_eqb_eq : forall a b, const_value_eqb a b = true <-> a = b.
Proof.
  induction a as [x|x|x|x ex|l IH|l IH] using const_value_ind'; intros [y|y|y|y ey|l2|l2];
    cbn [const_value_eqb]; try (split; congruence).
  - rewrite N.eqb_eq. split; congruence.
  - rewrite Z.eqb_eq. split; congruence.
  - rewrite beqb_true. split; congruence.
  - rewrite andb_true_iff, beqb_true, (opt_eqb_eq _ const_extra_eqb_eq).
    split; [intros [-> ->]; reflexivity | intros [= -> ->]; auto].
  - revert l2. induction IH as [|x l Hx _ IHl]; intros [|y l2]; try (split; congruence).
    rewrite andb_true_iff, Hx. specialize (IHl l2).
    split.
    + intros [-> H]. apply IHl in H. congruence.
    + intros [= -> ->]. split; [reflexivity | apply IHl; reflexivity].
  - revert l2. induction IH as [|[k v] l [Hk Hv] _ IHl]; intros [|[k2 v2] l2]; try (split; congruence).
    cbn [fst snd] in Hk, Hv. rewrite !andb_true_iff, Hk, Hv. specialize (IHl l2).
    split.
    + intros [[-> ->] H]. apply IHl in H. congruence.
    + intros [= -> -> ->]. split; [tauto | apply IHl; reflexivity].
Qed.

Ltac solve_rec :=
  let HH := fresh "HH" in
  split;
  [ intros HH; repeat match goal with H : _ /\ _ |- _ => destruct H end; subst; reflexivity
  | intros HH; injection HH; intros; subst; repeat split ].

Lemma namespace_eqb_eq : forall a b, namespace_eqb a b = true <-> a = b.
Proof.
  intros [] []; unfold namespace_eqb; cbn.
  rewrite !andb_true_iff, !beqb_true, annotations_eqb_eq. solve_rec.
Qed.

Lemma typedef_eqb_eq : forall a b, typedef_eqb a b = true <-> a = b.
Proof.
  intros [] []; unfold typedef_eqb; cbn.
  rewrite !andb_true_iff, !beqb_true, annotations_eqb_eq, ty_eqb_eq. solve_rec.
Qed.

Lemma enum_value_eqb_eq : forall a b, enum_value_eqb a b = true <-> a = b.
Proof.
  intros [] []; unfold enum_value_eqb; cbn.
  rewrite !andb_true_iff, !beqb_true, annotations_eqb_eq, Z.eqb_eq. solve_rec.
Qed.

Lemma enum_eqb_eq : forall a b, enum_eqb a b = true <-> a = b.
Proof.
  intros [] []; unfold enum_eqb; cbn.
  rewrite !andb_true_iff, !beqb_true, annotations_eqb_eq, (list_eqb_eq _ enum_value_eqb_eq). solve_rec.
Qed.

Lemma constant_eqb_eq : forall a b, constant_eqb a b = true <-> a = b.
Proof.
  intros [] []; unfold constant_eqb; cbn.
  rewrite !andb_true_iff, !beqb_true, annotations_eqb_eq, ty_eqb_eq, const_value_eqb_eq. solve_rec.
Qed.

Lemma field_eqb_eq : forall a b, field_eqb a b = true <-> a = b.
Proof.
  intros [] []; unfold field_eqb; cbn.
  rewrite !andb_true_iff, !beqb_true, annotations_eqb_eq, ty_eqb_eq, Z.eqb_eq, requiredness_eqb_eq,
    (opt_eqb_eq _ const_value_eqb_eq). solve_rec.
Qed.

Lemma struct_like_eqb_eq : forall a b, struct_like_eqb a b = true <-> a = b.
Proof.
  intros [] []; unfold struct_like_eqb; cbn.
  rewrite !andb_true_iff, !beqb_true, annotations_eqb_eq, sl_kind_eqb_eq, (list_eqb_eq _ field_eqb_eq). solve_rec.
Qed.

Lemma function_eqb_eq : forall a b, function_eqb a b = true <-> a = b.
Proof.
  intros [] []; unfold function_eqb; cbn.
  rewrite !andb_true_iff, !beqb_true, annotations_eqb_eq, ty_eqb_eq, !bool_eqb_eq, !(list_eqb_eq _ field_eqb_eq). solve_rec.
Qed.

Lemma service_eqb_eq : forall a b, service_eqb a b = true <-> a = b.
Proof.
  intros [] []; unfold service_eqb; cbn.
  rewrite !andb_true_iff, !beqb_true, annotations_eqb_eq, (list_eqb_eq _ function_eqb_eq),
    (opt_eqb_eq _ reference_eqb_eq). solve_rec.
Qed.

Lemma include_eqb_eq : forall a b, include_eqb a b = true <-> a = b.
Proof.
  intros [] []; unfold include_eqb; cbn.
  rewrite !andb_true_iff, !beqb_true, (opt_eqb_eq _ beqb_true), (opt_eqb_eq _ bool_eqb_eq). solve_rec.
Qed.

Lemma name2cat_eqb_eq : forall a b, name2cat_eqb a b = true <-> a = b.
Proof.
  apply list_eqb_eq. intros [n1 c1] [n2 c2]. cbn. rewrite andb_true_iff, beqb_true, category_eqb_eq.
  split; [intros [-> ->]; reflexivity | intros [= -> ->]; auto].
Qed.

Theorem file_eqb_eq : forall a b, file_eqb a b = true <-> a = b.
Proof.
  intros a b; destruct a, b; unfold file_eqb; cbn. rewrite !andb_true_iff.
  rewrite beqb_true, (list_eqb_eq _ include_eqb_eq), (list_eqb_eq _ beqb_true),
    (list_eqb_eq _ namespace_eqb_eq), (list_eqb_eq _ typedef_eqb_eq), (list_eqb_eq _ constant_eqb_eq),
    (list_eqb_eq _ enum_eqb_eq), !(list_eqb_eq _ struct_like_eqb_eq), (list_eqb_eq _ service_eqb_eq),
    (opt_eqb_eq _ name2cat_eqb_eq).
  split.
  - intros H. repeat match goal with H : _ /\ _ |- _ => destruct H end. subst. reflexivity.
  - intros [= -> -> -> -> -> -> -> -> -> -> -> ->]. tauto.
Qed.

Corollary file_eqb_refl a : file_eqb a a = true.
Proof. apply file_eqb_eq. reflexivity. Qed.

Theorem program_eqb_eq : forall p q, program_eqb p q = true <-> p = q.
Proof.
  apply list_eqb_eq. intros [n1 f1] [n2 f2]. cbn. rewrite andb_true_iff, beqb_true, file_eqb_eq.
  split; [intros [-> ->]; reflexivity | intros [= -> ->]; auto].
Qed.

(* the derived equalities are equalities of the stripped files *)
Lemma file_eqb_nc_eq a b : file_eqb_nc a b = true <-> strip_comments a = strip_comments b.
Proof. apply file_eqb_eq. Qed.
Lemma file_eqb_syn_eq a b :
  file_eqb_syn a b = true <-> strip_resolution (strip_comments a) = strip_resolution (strip_comments b).
Proof. apply file_eqb_eq. Qed.

(* ---------------------------------------------------------------- strip is idempotent *)

Lemma ty_strip_idem : forall t, ty_strip (ty_strip t) = ty_strip t.
Proof.
  induction t as [n k v c an cat r t IHk IHv] using ty_ind'. cbn.
  destruct k as [x|]; destruct v as [y|]; cbn; rewrite ?(IHk _ eq_refl), ?(IHv _ eq_refl); reflexivity.
Qed.

Lemma cv_strip_idem : forall c, cv_strip (cv_strip c) = cv_strip c.
Proof.
  induction c as [x|x|x|x ex|l IH|l IH] using const_value_ind'; cbn; try reflexivity.
  - f_equal. rewrite map_map. apply map_ext_Forall. exact IH.
  - f_equal. rewrite map_map. apply map_ext_Forall.
    eapply Forall_impl; [|exact IH]. intros [k v] [Hk Hv]; cbn in *. congruence.
Qed.

Lemma strip_comments_idem f : strip_comments (strip_comments f) = strip_comments f.
Proof.
  assert (Hfd : forall x, map_field (fun t => t) (fun c => c) (fun _ => []) (map_field (fun t => t) (fun c => c) (fun _ => []) x)
                          = map_field (fun t => t) (fun c => c) (fun _ : bytes => @nil Byte.byte) x).
  { intros []; unfold map_field; cbn. destruct fd_default; reflexivity. }
  assert (Hfds : forall l, map (map_field (fun t => t) (fun c => c) (fun _ => []))
                               (map (map_field (fun t => t) (fun c => c) (fun _ => [])) l)
                           = map (map_field (fun t => t) (fun c => c) (fun _ : bytes => @nil Byte.byte)) l).
  { intros l. rewrite map_map. apply map_ext. exact Hfd. }
  destruct f. unfold strip_comments, map_file. cbn. f_equal; rewrite map_map; apply map_ext; intros [].
  - reflexivity.
  - reflexivity.
  - reflexivity.
  - unfold map_enum; cbn. f_equal. rewrite map_map. apply map_ext. intros []; reflexivity.
  - unfold map_struct_like; cbn. f_equal. apply Hfds.
  - unfold map_struct_like; cbn. f_equal. apply Hfds.
  - unfold map_struct_like; cbn. f_equal. apply Hfds.
  - unfold map_service; cbn. f_equal. rewrite map_map. apply map_ext. intros []; unfold map_function; cbn.
    f_equal; apply Hfds.
Qed.
