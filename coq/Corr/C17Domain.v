(* Corr/C17Domain.v — how many correspondence cases of C17 lie inside the domains of the
   theorems (evaluated by checks/c17.py on every shard; reported in the evidence as a
   measured non-vacuity figure, never as a verdict). *)
From Coq Require Import List Bool NArith.
From Verif Require Import Base.Bytes Idl.Ast Idl.Dump Idl.DumpFacts Idl.DumpLexFacts Idl.DumpParseFacts Idl.DumpResolveFacts Corr.C17.
Import ListNotations.

(* (cases with dump_ok, cases with view_ok, cases with both, cases with lex_ok, cases with
   parsed_ok = the per-file hypothesis of dump_passes_semantic) *)
Definition domain_counts (cs : list case) : N * N * N * N * N :=
  fold_left (fun acc c =>
    let '(d, v, b, l, q) := acc in
    let fmt := fmt_of (c_fmt c) in
    let dk := dump_ok fmt (c_file c) in
    let vk := view_ok fmt (c_file c) in
    ((if dk then d + 1 else d), (if vk then v + 1 else v), (if dk && vk then b + 1 else b),
     (if lex_ok fmt (c_file c) then l + 1 else l),
     (if parsed_ok fmt (c_file c) then q + 1 else q))%N) cs (0, 0, 0, 0, 0)%N.
