// c04 produces the cases of property C04 (invalid input is diagnosed).
//
// It drives the REAL thriftgo binary at process level on generated IDL trees:
//
//	corpus     minimised triggers (tiny trees, bad command lines), run first
//	valid      small valid programs of harness/idlgen, unmodified (kind 0)
//	mutation   every valid program with ONE rule-breaking edit of the catalogue
//	           (harness/idlmut; rules = Idl/Rules.v), in the main file or in any
//	           transitively included file (kind 1 when the edited tree still
//	           parses, kind 2 for syntax errors / missing includes / command lines)
//
// For kinds 0 and 1 the tree is parsed in-process with the real parser exactly as
// sdk/invoke.go does (parser.ParseFile(main, nil, true), cwd = tree root) and the
// astdump of that AST is what the Coq model gets.  Every tree is then given to the
// binary (go and fastgo backends, with and without -r) and the projected
// observables are recorded: exit status 0, a file under -o, any output, a Go trace
// in the output, time limit hit.
//
//	c04 -seed N -tier quick|thorough -out DIR -thriftgo PATH [-jobs J]
//	    [-bases N] [-per-base N] [-max-coq-bytes N] [-norun]
//
// quick: 10 base programs x 25 edits (a seeded sample spread over the rules, and inside
// a rule over sites and files); thorough: 40 base programs x 100 edits, capped at 25 MB
// of Coq text (-per-base 0 takes every enumerated edit that fits the cap).
package main

import (
	"flag"
	"fmt"
	"os"
	"path/filepath"
	"sort"
	"strings"
	"sync"
	"time"

	"github.com/cloudwego/thriftgo/parser"
	"github.com/cloudwego/thriftgo/semantic"

	"verif/harness/astdump"
	"verif/harness/idlast"
	"verif/harness/idlgen"
	"verif/harness/idlmut"
	"verif/harness/rng"
)

// baseRef names a base program: idlgen.Generate(rng.New(Seed), Options{Valid, MaxFiles, Size}).
type baseRef struct {
	Gen      string `json:"gen"`
	Seed     uint64 `json:"seed"`
	Index    int    `json:"index"`
	MaxFiles int    `json:"max_files,omitempty"`
	Size     int    `json:"size,omitempty"`
}

var seedOf = map[*idlgen.Program]uint64{}

// caseRec is one case; the exported fields are the jsonl line.
type caseRec struct {
	Kind       int               `json:"kind"`
	Rule       int               `json:"rule"`
	RuleName   string            `json:"rule_name"`
	Strict     bool              `json:"strict"`
	What       string            `json:"what"`
	Position   string            `json:"position"`
	Site       string            `json:"site"`
	Depth      int               `json:"depth"`
	EditedFile string            `json:"edited_file"`
	Base       baseRef           `json:"base"`
	Files      map[string]string `json:"files"`
	Main       string            `json:"main"`
	Cmd        []string          `json:"cmd"`
	Runs       []*RunRes         `json:"runs"`

	baseIdx int    // index into bases, -1 = no shared base
	patch   string // Coq term: list (bytes * file)
	stream  string
}

type baseInfo struct {
	ref       baseRef
	prog      idlast.Program // astdump of the parsed base tree
	coq       string
	fileCoq   map[string]string
	mb        *idlmut.Base
	usedReach map[string]bool
	texts     map[string]string
	main      string
}

type config struct {
	lang      string
	recursive bool
}

var (
	startDir string
	scratch  string
	binary   string
	chdirMu  sync.Mutex
	treeSeq  int

	parseNanos int64
	noRun      bool
)

func fatal(err error) {
	fmt.Fprintln(os.Stderr, "c04:", err)
	if scratch != "" {
		os.RemoveAll(scratch)
	}
	os.Exit(2)
}

func writeTree(root string, tree map[string]string) error {
	for name, text := range tree {
		full := filepath.Join(root, filepath.FromSlash(name))
		if err := os.MkdirAll(filepath.Dir(full), 0o755); err != nil {
			return err
		}
		if err := os.WriteFile(full, []byte(text), 0o644); err != nil {
			return err
		}
	}
	return nil
}

// inTree runs f with the working directory set to root (the real parser looks includes
// up relative to the cwd); sequential by construction.
func inTree(root string, f func() error) (err error) {
	chdirMu.Lock()
	defer chdirMu.Unlock()
	t := time.Now()
	defer func() { parseNanos += int64(time.Since(t)) }()
	if err := os.Chdir(root); err != nil {
		return err
	}
	defer os.Chdir(startDir)
	defer func() {
		if r := recover(); r != nil {
			err = fmt.Errorf("panic: %v", r)
		}
	}()
	return f()
}

// parseTree is the parser's view of the tree: astdump of parser.ParseFile(main, nil, true).
func parseTree(root, main string) (p idlast.Program, err error) {
	err = inTree(root, func() error {
		ast, perr := parser.ParseFile(main, nil, true)
		if perr != nil {
			return perr
		}
		var derr error
		p, derr = astdump.ProgramChecked(ast)
		return derr
	})
	return p, err
}

// usedReach: the files reachable from the main file through includes that are marked
// Used after semantic.ResolveSymbols (a separate parse: the pass mutates the AST).
func usedReach(root, main string) (map[string]bool, error) {
	out := map[string]bool{}
	err := inTree(root, func() error {
		ast, perr := parser.ParseFile(main, nil, true)
		if perr != nil {
			return perr
		}
		if rerr := semantic.ResolveSymbols(ast); rerr != nil {
			return rerr
		}
		var walk func(t *parser.Thrift)
		walk = func(t *parser.Thrift) {
			if t == nil || out[t.Filename] {
				return
			}
			out[t.Filename] = true
			for _, inc := range t.Includes {
				if inc != nil && inc.GetUsed() {
					walk(inc.Reference)
				}
			}
		}
		walk(ast)
		return nil
	})
	return out, err
}

func newRoot() string {
	treeSeq++
	root := filepath.Join(scratch, fmt.Sprintf("t%06d", treeSeq))
	if err := os.MkdirAll(root, 0o755); err != nil {
		fatal(err)
	}
	return root
}

func fileCoqs(p idlast.Program) map[string]string {
	m := make(map[string]string, len(p))
	for _, e := range p {
		m[string(e.Filename)] = e.File.Coq()
	}
	return m
}

func expand(args []string, out, main string) []string {
	res := make([]string, len(args))
	for i, a := range args {
		switch a {
		case "{OUT}":
			res[i] = out
		case "{MAIN}":
			res[i] = main
		default:
			res[i] = a
		}
	}
	return res
}

type producer struct {
	pool  *pool
	bases []*baseInfo
	cases []*caseRec
	st    *stats
	mu    sync.Mutex
}

// launch writes nothing: the tree is already under root.  It queues the runs of the case
// and removes root when the last one has finished.
func (pr *producer) launch(c *caseRec, root string, tree map[string]string, cfgs []config, rawArgs []string) {
	type job struct {
		args []string
		cfg  config
		out  string
	}
	var jobs []job
	outBase := root + "-out"
	if rawArgs != nil {
		out := filepath.Join(outBase, "r0")
		jobs = append(jobs, job{args: expand(rawArgs, out, c.Main), cfg: config{"go", false}, out: out})
	} else {
		for i, cfg := range cfgs {
			out := filepath.Join(outBase, fmt.Sprintf("r%d", i))
			args := []string{"-g", cfg.lang}
			if cfg.recursive {
				args = append(args, "-r")
			}
			args = append(args, "-o", out, c.Main)
			jobs = append(jobs, job{args: args, cfg: cfg, out: out})
		}
	}
	if noRun {
		c.Runs = []*RunRes{}
		c.Cmd = append([]string{"thriftgo"}, jobs[0].args...)
		os.RemoveAll(root)
		return
	}
	c.Runs = make([]*RunRes, len(jobs))
	var wg sync.WaitGroup
	wg.Add(len(jobs))
	for i, j := range jobs {
		i, j := i, j
		pr.pool.submit(func() {
			defer wg.Done()
			res := execute(binary, root, j.out, tree, j.args)
			res.Lang, res.Recursive = j.cfg.lang, j.cfg.recursive
			// the recorded command line names the output directory abstractly
			for k, a := range res.argv {
				if a == j.out {
					res.argv[k] = "out"
				}
			}
			c.Runs[i] = res
		})
	}
	c.Cmd = append([]string{"thriftgo"}, jobs[0].args...)
	for k, a := range c.Cmd {
		if a == jobs[0].out {
			c.Cmd[k] = "out"
		}
	}
	go func() {
		wg.Wait()
		os.RemoveAll(root)
		os.RemoveAll(outBase)
	}()
}

// patchOf lists the files of the edited program that differ from the base (or are new).
func patchOf(edited idlast.Program, base map[string]string) string {
	var items []string
	for _, e := range edited {
		coq := e.File.Coq()
		if base != nil && base[string(e.Filename)] == coq {
			continue
		}
		items = append(items, "("+coqBytes(string(e.Filename))+", "+coq+")")
	}
	return "[" + strings.Join(items, ";\n  ") + "]"
}

func main() {
	seed := flag.Uint64("seed", 1, "random seed")
	tier := flag.String("tier", "quick", "quick | thorough")
	out := flag.String("out", "", "output directory")
	bin := flag.String("thriftgo", "", "path of the thriftgo binary under test")
	jobs := flag.Int("jobs", 4, "processes run at a time")
	maxBytes := flag.Int("max-coq-bytes", 0, "cap on the total size of the Coq shards (0 = tier default)")
	optBases := flag.Int("bases", 0, "number of base programs (0 = tier default)")
	optPerBase := flag.Int("per-base", -1, "edits per base program, 0 = all that fit the cap (-1 = tier default)")
	flag.DurationVar(&timeLimit, "time-limit", timeLimit, "time limit of one run of the binary")
	flag.BoolVar(&noRun, "norun", false, "debugging: do not run the binary (cases carry no runs; only the edits are checked against Idl/Rules.v)")
	flag.Parse()
	if *out == "" || *bin == "" {
		fatal(fmt.Errorf("-out and -thriftgo are required"))
	}
	if *jobs < 1 {
		*jobs = 1
	}
	t0 := time.Now()
	var err error
	if startDir, err = os.Getwd(); err != nil {
		fatal(err)
	}
	if *out, err = filepath.Abs(*out); err != nil {
		fatal(err)
	}
	if binary, err = filepath.Abs(*bin); err != nil {
		fatal(err)
	}
	if _, err = os.Stat(binary); err != nil {
		fatal(err)
	}
	if err = os.MkdirAll(*out, 0o755); err != nil {
		fatal(err)
	}
	if scratch, err = os.MkdirTemp(filepath.Dir(*out), "c04-trees-"); err != nil {
		fatal(err)
	}
	defer os.RemoveAll(scratch)

	nBases, perBase, budget := 10, 25, 3_000_000
	if *tier == "thorough" {
		nBases, perBase, budget = 40, 100, 25_000_000
	}
	if *maxBytes > 0 {
		budget = *maxBytes
	}
	if *optBases > 0 {
		nBases = *optBases
	}
	if *optPerBase >= 0 {
		perBase = *optPerBase
	}

	r := rng.New(*seed)
	pr := &producer{pool: newPool(*jobs), st: newStats()}
	all3 := []config{{"go", false}, {"fastgo", false}, {"go", true}}

	// ---- stream 0: corpus
	for _, e := range corpus() {
		c := &caseRec{Kind: e.kind, Rule: e.rule, RuleName: idlmut.RuleNames[e.rule], Strict: e.strict, What: "corpus: " + e.name,
			Position: e.position, Site: e.site, Depth: e.depth, EditedFile: e.edited, Base: baseRef{Gen: "corpus", Index: -1},
			Files: e.files, Main: e.main, baseIdx: -1, stream: "corpus", patch: "[]"}
		if e.kind == 0 {
			c.RuleName = ""
		}
		root := newRoot()
		if err := writeTree(root, e.files); err != nil {
			fatal(err)
		}
		if e.kind == 1 || e.kind == 0 {
			p, perr := parseTree(root, e.main)
			if perr != nil {
				fmt.Fprintf(os.Stderr, "c04: corpus entry %q does not parse: %v\n", e.name, perr)
				pr.st.EditDidNotParse++
				os.RemoveAll(root)
				continue
			}
			c.patch = patchOf(p, nil)
		}
		pr.cases = append(pr.cases, c)
		pr.launch(c, root, e.files, all3, e.args)
	}

	// ---- streams 1 and 2: valid programs and their edits
	spent := 0
	for _, c := range pr.cases {
		spent += len(c.patch) + 400
	}
	for bi := 0; bi < nBases; bi++ {
		gr := r.Fork()
		// the number of files wanted: mostly several (the property is about WHERE in the
		// include graph the defect sits); the generator draws 1..MaxFiles, so redraw a few times
		want := []int{2, 1, 3, 2, 4, 3, 2, 4, 1, 3}[bi%10]
		size := 2 + bi%2
		var p *idlgen.Program
		var bseed uint64
		for try := 0; try < 16; try++ {
			bseed = gr.U64()
			q := generate(bseed, want, size)
			if q == nil {
				pr.st.GeneratorGaveUp++
				break
			}
			if p == nil || len(q.AST()) > len(p.AST()) {
				p = q
			}
			if len(p.AST()) >= want {
				break
			}
		}
		if p == nil {
			continue
		}
		bseed = seedOf[p]
		mb := idlmut.NewBase(p.AST(), nil)
		b := &baseInfo{ref: baseRef{Gen: "idlgen", Seed: bseed, Index: bi, MaxFiles: want, Size: size}, mb: mb, texts: mb.Texts, main: p.Main()}
		root := newRoot()
		if err := writeTree(root, b.texts); err != nil {
			fatal(err)
		}
		if b.prog, err = parseTree(root, b.main); err != nil {
			fmt.Fprintf(os.Stderr, "c04: base program %d (seed %d) does not parse: %v\n", bi, bseed, err)
			pr.st.BaseUnusable++
			os.RemoveAll(root)
			continue
		}
		if b.usedReach, err = usedReach(root, b.main); err != nil {
			fmt.Fprintf(os.Stderr, "c04: base program %d (seed %d) does not resolve: %v\n", bi, bseed, err)
			pr.st.BaseUnusable++
			os.RemoveAll(root)
			continue
		}
		b.coq = b.prog.Coq()
		b.fileCoq = fileCoqs(b.prog)
		pr.bases = append(pr.bases, b)
		baseIdx := len(pr.bases) - 1
		pr.st.ValidPrograms++
		pr.st.FilesPerProgram[fmt.Sprint(len(b.prog))]++
		spent += len(b.coq)

		// kind 0
		vc := &caseRec{Kind: 0, Rule: 0, RuleName: "", What: fmt.Sprintf("valid program %d (%d files)", bi, len(b.prog)), Position: "none", Site: "none",
			EditedFile: "", Base: b.ref, Files: b.texts, Main: b.main, baseIdx: baseIdx, patch: "[]", stream: "valid"}
		pr.cases = append(pr.cases, vc)
		pr.launch(vc, root, b.texts, all3, nil)

		// kind 1 / 2 edits
		edits := mb.Enumerate()
		for _, cl := range idlmut.CommandLines() {
			edits = append(edits, &idlmut.Edit{Kind: 2, Rule: idlmut.BadCommandLine, Site: cl.Site, Style: "cmdline", What: "command line: " + cl.What, File: b.main})
		}
		pr.st.EditsEnumerated += len(edits)
		order := stratify(gr, edits)
		left := (budget - spent) / (nBases - bi)
		taken := 0
		for _, ed := range order {
			if perBase > 0 && taken >= perBase {
				break
			}
			cost := 500
			if ed.Kind == 1 {
				cost += len(b.fileCoq[ed.File])
			}
			if left < cost {
				if perBase == 0 {
					pr.st.EditsCutByBudget++
					continue
				}
				break
			}
			c := pr.edit(b, baseIdx, ed, gr)
			if c == nil {
				continue
			}
			taken++
			used := len(c.patch) + 150*len(c.Runs) + 100
			left -= used
			spent += used
		}
	}
	pr.pool.close()
	// launch's cleanup goroutines may still be removing directories; the deferred RemoveAll of scratch covers them

	if err := pr.write(*out); err != nil {
		fatal(err)
	}
	pr.st.WallSeconds = time.Since(t0).Seconds()
	if err := pr.writeMeta(*out); err != nil {
		fatal(err)
	}
	fmt.Printf("c04: %d cases, %d runs, %d shards, %.1f s (binary %.1f s summed over runs, file walks %.1f s, in-process parsing %.1f s)\n", len(pr.cases), pr.st.Evaluations,
		len(pr.st.shards), pr.st.WallSeconds, float64(procNanos)/1e9, float64(walkNanos)/1e9, float64(parseNanos)/1e9)
}

// generate calls the shared generator under a watchdog (it has been seen to spin).
func generate(seed uint64, maxFiles, size int) *idlgen.Program {
	ch := make(chan *idlgen.Program, 1)
	go func() {
		defer func() {
			if recover() != nil {
				ch <- nil
			}
		}()
		ch <- idlgen.Generate(rng.New(seed), idlgen.Options{Envelope: idlgen.Valid, MaxFiles: maxFiles, Size: size})
	}()
	select {
	case p := <-ch:
		if p != nil {
			seedOf[p] = seed
		}
		return p
	case <-time.After(10 * time.Second):
		return nil
	}
}

// stratify orders the edits so that every prefix is spread over the rules, and inside a
// rule over (site, file): round robin over the rules, each rule's list a round robin
// over its (site, file) groups, everything shuffled with the seeded generator.
func stratify(r *rng.R, edits []*idlmut.Edit) []*idlmut.Edit {
	shuffle := func(n int, swap func(i, j int)) {
		for i := n - 1; i > 0; i-- {
			swap(i, r.Intn(i+1))
		}
	}
	perRule := make([][]*idlmut.Edit, idlmut.NumRules)
	for rule := 0; rule < idlmut.NumRules; rule++ {
		groups := map[string][]*idlmut.Edit{}
		var keys []string
		for _, e := range edits {
			if e.Rule != rule {
				continue
			}
			k := fmt.Sprintf("%s|%s|%d", e.Site, e.Style, e.FileIndex)
			if _, ok := groups[k]; !ok {
				keys = append(keys, k)
			}
			groups[k] = append(groups[k], e)
		}
		sort.Strings(keys)
		shuffle(len(keys), func(i, j int) { keys[i], keys[j] = keys[j], keys[i] })
		for _, k := range keys {
			g := groups[k]
			shuffle(len(g), func(i, j int) { g[i], g[j] = g[j], g[i] })
		}
		for more := true; more; {
			more = false
			for _, k := range keys {
				if g := groups[k]; len(g) > 0 {
					perRule[rule] = append(perRule[rule], g[0])
					groups[k] = g[1:]
					more = true
				}
			}
		}
	}
	rules := make([]int, idlmut.NumRules)
	for i := range rules {
		rules[i] = i
	}
	shuffle(len(rules), func(i, j int) { rules[i], rules[j] = rules[j], rules[i] })
	var out []*idlmut.Edit
	for more := true; more; {
		more = false
		for _, rule := range rules {
			if l := perRule[rule]; len(l) > 0 {
				out = append(out, l[0])
				perRule[rule] = l[1:]
				more = true
			}
		}
	}
	return out
}

func (pr *producer) position(b *baseInfo, file string) string {
	if file == b.main {
		return "main"
	}
	if b.usedReach[file] {
		return "used-include"
	}
	return "unused-include"
}

// edit materialises one edit, parses it as the binary will and queues its runs; nil when
// the edit is dropped.
func (pr *producer) edit(b *baseInfo, baseIdx int, ed *idlmut.Edit, r *rng.R) *caseRec {
	c := &caseRec{Kind: ed.Kind, Rule: ed.Rule, RuleName: idlmut.RuleNames[ed.Rule], Strict: ed.Strict, What: ed.What,
		Position: pr.position(b, ed.File), Site: ed.Site, Depth: b.mb.Depth[ed.FileIndex], EditedFile: ed.File,
		Base: b.ref, Main: b.main, baseIdx: baseIdx, patch: "[]", stream: "mutation"}
	if ed.Rule == idlmut.BadCommandLine {
		c.Files = b.texts
		c.baseIdx = -1
		var args []string
		for _, cl := range idlmut.CommandLines() {
			if cl.Site == ed.Site {
				args = cl.Args
			}
		}
		root := newRoot()
		if err := writeTree(root, c.Files); err != nil {
			fatal(err)
		}
		pr.cases = append(pr.cases, c)
		pr.launch(c, root, c.Files, nil, args)
		return c
	}
	c.Files = ed.Tree()
	root := newRoot()
	if err := writeTree(root, c.Files); err != nil {
		fatal(err)
	}
	p, perr := parseTree(root, c.Main)
	switch {
	case ed.Kind == 1 && perr != nil:
		pr.st.EditDidNotParse++
		if len(pr.st.DidNotParseExamples) < 5 {
			pr.st.DidNotParseExamples = append(pr.st.DidNotParseExamples, ed.What+": "+perr.Error())
		}
		os.RemoveAll(root)
		return nil
	case ed.Kind == 2 && perr == nil:
		// the tree is ungrammatical / lacks a file BY CONSTRUCTION of the edit; a parser
		// (this one is the implementation's, linked in) that accepts it anyway is exactly
		// what the binary is judged on below: the case is kept, only counted here
		pr.st.TextEditParsed++
		if len(pr.st.TextEditParsedExamples) < 5 {
			pr.st.TextEditParsedExamples = append(pr.st.TextEditParsedExamples, ed.What)
		}
	}
	if ed.Kind == 1 {
		c.patch = patchOf(p, b.fileCoq)
	} else {
		c.baseIdx = -1
	}
	cfgs := []config{{"go", false}, {"fastgo", false}}
	if ed.FileIndex != 0 || r.Chance(1, 4) {
		cfgs = append(cfgs, config{"go", true})
	}
	pr.cases = append(pr.cases, c)
	pr.launch(c, root, c.Files, cfgs, nil)
	return c
}
