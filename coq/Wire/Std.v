(* Wire/Std.v — the STANDARD generated codec (generator/golang/templates/struct.go:
   StructLikeWrite / StructLikeWriteField / FieldWriteXxx, StructLikeRead / StructLikeReadField /
   FieldReadXxx), as functions between typed values (Wire/Value.v) and generic wire values
   (Wire/WVal.v).  Bytes enter through Wire/Codec.v (enc / dec).

     ttype_of e t                  wire type of an IDL type, through the regenerated table (GenTables)
     to_w e t v                    FieldWrite for a value of type t (element / map key / field payload)
     to_wire e s v                 X.Write: v = VStruct fs; result WStruct of the emitted fields
     from_w e t w                  FieldRead for type t
     from_wire e s init w          X.Read into the object [init] (NewX(), or any current state)
     read_new e s w                = from_wire e s (new_struct e s) w
     norm e t v                    what a value looks like after Write then Read
     write_bytes / read_bytes      the same through enc / dec_struct

   Errors (type err): the classes the generated code can produce, plus EBadValue / EUnknownStruct
   (ill-typed model input, excluded by wt) and EHeader (a container header on the wire disagrees
   with the schema: the generated reader ignores the header and reads schema-typed elements, which
   this value-level model does not follow; the harness never produces such input).
   No proofs in this file. *)
From Coq Require Import List ZArith Bool Lia.
From Coq.Strings Require Import Byte.
From Verif Require Import Base.Bytes Base.BE Wire.TType Wire.WVal Wire.Codec Wire.Schema Wire.Value Wire.GenTables.
Import ListNotations.
Open Scope Z_scope.

Inductive err :=
| EBadValue                  (* the model value does not fit the schema *)
| EUnknownStruct             (* a TRef names no struct of the env *)
| ERequiredMissing (id : Z)  (* Read: required field not set  -> TProtocolException INVALID_DATA *)
| EUnionCount (c : nat)      (* Write: union with c <> 1 fields set *)
| ESetDup                    (* Write: set elements not unique (validate_set, on by default) *)
| ENilUnion                  (* Write: nil union pointer: CountSetFields dereferences nil (Go panic) *)
| EHeader                    (* Read: container header / element type disagree with the schema *)
| EDecode.                   (* bytes do not decode (truncated, negative length, unknown type code) *)

Inductive result (A : Type) := Ok (a : A) | Err (e : err).
Arguments Ok {A} a.
Arguments Err {A} e.

Definition bind {A B} (r : result A) (f : A -> result B) : result B :=
  match r with Ok a => f a | Err e => Err e end.

Section MapM.
  Context {A B : Type} (f : A -> result B).
  Fixpoint mapM (l : list A) : result (list B) :=
    match l with
    | [] => Ok []
    | x :: r => match f x with
                | Err e => Err e
                | Ok y => match mapM r with Err e => Err e | Ok ys => Ok (y :: ys) end
                end
    end.
End MapM.

Section FoldM.
  Context {A S : Type} (step : S -> A -> result S).
  Fixpoint foldM (l : list A) (s : S) : result S :=
    match l with
    | [] => Ok s
    | x :: r => match step s x with Err e => Err e | Ok s' => foldM r s' end
    end.
End FoldM.

Fixpoint cat_somes {A} (l : list (option A)) : list A :=
  match l with [] => [] | Some x :: r => x :: cat_somes r | None :: r => cat_somes r end.

(* ---- wire type of an IDL type: GetTypeIDConstant = upper-case of category2TypeID, BINARY -> STRING ---- *)

Definition upper_byte (b : byte) : byte :=
  let n := Byte.to_N b in
  if ((97 <=? n) && (n <=? 122))%N then match Byte.of_N (n - 32)%N with Some c => c | None => b end else b.
Definition upper (s : bytes) : bytes := map upper_byte s.

Definition type_id_constant (c : category) : bytes :=
  match cat_lookup c category2TypeID with
  | Some s => let u := upper s in
              if beqb u const_BINARY then const_STRING else u
  | None => []
  end.
Definition ttype_of_cat (c : category) : ttype :=
  match ttype_of_const (type_id_constant c) with Some t => t | None => T_BOOL end.
Definition ttype_of (e : env) (t : ty) : ttype := ttype_of_cat (category_of e t).

(* ---- Write ---- *)

Definition set_has_dup (l : list value) : bool := has_dup deep_eq l.

Fixpoint to_w (e : env) (t : ty) (v : value) {struct v} : result wval :=
  match v with
  | VBool b => match t with TBool => Ok (WBool b) | _ => Err EBadValue end
  | VInt z => match t with
              | TByte => Ok (WByte z) | TI16 => Ok (WI16 z) | TI32 => Ok (WI32 z) | TI64 => Ok (WI64 z)
              | TEnum _ => Ok (WI32 (wrap32 z))            (* WriteI32(int32(v)) on an int64 *)
              | _ => Err EBadValue end
  | VDbl b => match t with TDouble => Ok (WDouble b) | _ => Err EBadValue end
  | VStr s => match t with TString => Ok (WStr s) | _ => Err EBadValue end
  | VBin s => match t with TBinary => Ok (WStr s) | _ => Err EBadValue end
  | VSome _ => Err EBadValue
  | VNil =>
      match t with
      | TBinary => Ok (WStr [])
      | TList et => Ok (WList (ttype_of e et) [])
      | TSet et => Ok (WSet (ttype_of e et) [])
      | TMap kt vt => Ok (WMap (ttype_of e kt) (ttype_of e vt) [])
      | TRef n => match find_struct e n with
                  | Some s => if is_union s then Err ENilUnion else Ok (WStruct [])
                  | None => Err EUnknownStruct end
      | _ => Err EBadValue end
  | VList l =>
      match t with
      | TList et => bind (mapM (to_w e et) l) (fun xs => Ok (WList (ttype_of e et) xs))
      | TSet et => if set_has_dup l then Err ESetDup
                   else bind (mapM (to_w e et) l) (fun xs => Ok (WSet (ttype_of e et) xs))
      | _ => Err EBadValue end
  | VMap kvs =>
      match t with
      | TMap kt vt =>
          bind (mapM (fun kv => bind (to_w e kt (fst kv)) (fun k =>
                                bind (to_w e vt (snd kv)) (fun x => Ok (k, x)))) kvs)
               (fun xs => Ok (WMap (ttype_of e kt) (ttype_of e vt) xs))
      | _ => Err EBadValue end
  | VStruct fs =>
      match t with
      | TRef n =>
        match find_struct e n with
        | Some s =>
            let c := count_set (s_fields s) fs in
            if is_union s && negb (c =? 1)%nat then Err (EUnionCount c) else
            bind (mapM (fun p =>
                          match find_field (fst p) (s_fields s) with
                          | None => Err EBadValue
                          | Some f =>
                              if present f (snd p) then
                                if base_ptr f then
                                  match snd p with
                                  | VSome x => bind (to_w e (f_ty f) x)
                                                    (fun x => Ok (Some (ttype_of e (f_ty f), f_id f, x)))
                                  | _ => Err EBadValue end
                                else bind (to_w e (f_ty f) (snd p))
                                          (fun x => Ok (Some (ttype_of e (f_ty f), f_id f, x)))
                              else Ok None
                          end) fs)
                 (fun ofs => Ok (WStruct (cat_somes ofs)))
        | None => Err EUnknownStruct end
      | _ => Err EBadValue end
  end.

Definition to_wire (e : env) (s : sschema) (v : value) : result wval := to_w e (TRef (s_name s)) v.

(* ---- Read ---- *)

Definition set_field (id : Z) (v : value) (fs : list (Z * value)) : list (Z * value) :=
  map (fun p => if fst p =? id then (fst p, v) else p) fs.

(* Go map assignment m[k] = v: an existing equal key is overwritten (key and value) *)
Fixpoint map_insert (k v : value) (m : list (value * value)) : list (value * value) :=
  match m with
  | [] => [(k, v)]
  | (k', v') :: r => if go_key_eq k k' then (k, v) :: r else (k', v') :: map_insert k v r
  end.
Definition map_build (kvs : list (value * value)) : list (value * value) :=
  fold_left (fun m kv => map_insert (fst kv) (snd kv) m) kvs [].

Definition wrap_slot (f : field) (v : value) : value := if base_ptr f then VSome v else v.

(* reader state: current slots, ids of required fields seen *)
Definition rstate := (list (Z * value) * list Z)%type.

Definition first_missing (fields : list field) (seen : list Z) : option Z :=
  match filter (fun f => is_required f && negb (existsb (Z.eqb (f_id f)) seen)) fields with
  | f :: _ => Some (f_id f) | [] => None end.

Fixpoint from_w (e : env) (t : ty) (w : wval) {struct w} : result value :=
  match w with
  | WBool b => match t with TBool => Ok (VBool b) | _ => Err EHeader end
  | WByte z => match t with TByte => Ok (VInt z) | _ => Err EHeader end
  | WDouble b => match t with TDouble => Ok (VDbl b) | _ => Err EHeader end
  | WI16 z => match t with TI16 => Ok (VInt z) | _ => Err EHeader end
  | WI32 z => match t with TI32 | TEnum _ => Ok (VInt z) | _ => Err EHeader end
  | WI64 z => match t with TI64 => Ok (VInt z) | _ => Err EHeader end
  | WStr s => match t with TString => Ok (VStr s) | TBinary => Ok (VBin s) | _ => Err EHeader end
  | WList et l =>
      match t with
      | TList a => if ttype_eqb et (ttype_of e a) || (length l =? 0)%nat
                   then bind (mapM (from_w e a) l) (fun xs => Ok (VList xs)) else Err EHeader
      | _ => Err EHeader end
  | WSet et l =>
      match t with
      | TSet a => if ttype_eqb et (ttype_of e a) || (length l =? 0)%nat
                  then bind (mapM (from_w e a) l) (fun xs => Ok (VList xs)) else Err EHeader
      | _ => Err EHeader end
  | WMap kt vt kvs =>
      match t with
      | TMap a b =>
          if (ttype_eqb kt (ttype_of e a) && ttype_eqb vt (ttype_of e b)) || (length kvs =? 0)%nat then
            bind (mapM (fun kv => bind (from_w e a (fst kv)) (fun k =>
                                  bind (from_w e b (snd kv)) (fun x => Ok (k, x)))) kvs)
                 (fun xs => Ok (VMap (map_build xs)))
          else Err EHeader
      | _ => Err EHeader end
  | WStruct wfs =>
      match t with
      | TRef n =>
        match find_struct e n with
        | Some s =>
            bind (foldM (fun (st : rstate) (wf : ttype * Z * wval) =>
                           match find_field (snd (fst wf)) (s_fields s) with
                           | Some f =>
                               if ttype_eqb (fst (fst wf)) (ttype_of e (f_ty f)) then
                                 bind (from_w e (f_ty f) (snd wf)) (fun v =>
                                   Ok (set_field (f_id f) (wrap_slot f v) (fst st),
                                       if is_required f then f_id f :: snd st else snd st))
                               else Ok st                       (* iprot.Skip(fieldTypeId) *)
                           | None => Ok st                      (* default: iprot.Skip(fieldTypeId) *)
                           end) wfs (new_fields s, []))
                 (fun st => match first_missing (s_fields s) (snd st) with
                            | Some id => Err (ERequiredMissing id)
                            | None => Ok (VStruct (fst st)) end)
        | None => Err EUnknownStruct end
      | _ => Err EHeader end
  end.

(* Read into an existing object: the top-level loop of from_w with an arbitrary start state *)
Definition read_step (e : env) (s : sschema) (st : rstate) (wf : ttype * Z * wval) : result rstate :=
  match find_field (snd (fst wf)) (s_fields s) with
  | Some f =>
      if ttype_eqb (fst (fst wf)) (ttype_of e (f_ty f)) then
        bind (from_w e (f_ty f) (snd wf)) (fun v =>
          Ok (set_field (f_id f) (wrap_slot f v) (fst st),
              if is_required f then f_id f :: snd st else snd st))
      else Ok st
  | None => Ok st
  end.

Definition finish_read (s : sschema) (st : rstate) : result value :=
  match first_missing (s_fields s) (snd st) with
  | Some id => Err (ERequiredMissing id)
  | None => Ok (VStruct (fst st)) end.

Definition from_wire (e : env) (s : sschema) (init : value) (w : wval) : result value :=
  match init, w with
  | VStruct fs0, WStruct wfs => bind (foldM (read_step e s) wfs (fs0, [])) (finish_read s)
  | _, WStruct _ => Err EBadValue
  | _, _ => Err EHeader
  end.

Definition read_new (e : env) (s : sschema) (w : wval) : result value := from_wire e s (new_struct e s) w.

(* ---- the value after one round trip ---- *)

Fixpoint norm (e : env) (t : ty) (v : value) {struct v} : value :=
  match v with
  | VInt z => match t with TEnum _ => VInt (wrap32 z) | _ => v end
  | VNil =>
      match t with
      | TBinary => VBin []
      | TList _ | TSet _ => VList []
      | TMap _ _ => VMap []
      | TRef n => match find_struct e n with Some s => new_struct e s | None => VNil end
      | _ => VNil end
  | VList l => match t with TList et | TSet et => VList (map (norm e et) l) | _ => v end
  | VMap kvs => match t with
                | TMap kt vt => VMap (map_build (map (fun kv => (norm e kt (fst kv), norm e vt (snd kv))) kvs))
                | _ => v end
  | VStruct fs =>
      match t with
      | TRef n =>
        match find_struct e n with
        | Some s =>
            VStruct (map (fun p => match find_field (fst p) (s_fields s) with
                                   | Some f =>
                                       if present f (snd p) then
                                         (fst p, if base_ptr f then match snd p with VSome x => VSome (norm e (f_ty f) x) | o => o end
                                                 else norm e (f_ty f) (snd p))
                                       else (fst p, init_slot f)
                                   | None => p end) fs)
        | None => v end
      | _ => v end
  | _ => v
  end.

Definition norm_struct (e : env) (s : sschema) (v : value) : value := norm e (TRef (s_name s)) v.

(* ---- through bytes ---- *)

Definition write_bytes (e : env) (s : sschema) (v : value) : result bytes :=
  bind (to_wire e s v) (fun w => Ok (enc w)).

Definition read_bytes (e : env) (s : sschema) (init : value) (bs : bytes) : result value :=
  match dec_struct bs with
  | Some (w, _) => from_wire e s init w
  | None => Err EDecode
  end.
