package main

import (
	"strings"

	"verif/harness/rng"
)

// Inputs of the totality stream: the only requirement is that the parser returns (AST or
// error) within the time limit and does not panic.

var soupWords = []string{"struct", "union", "exception", "enum", "service", "extends", "const", "typedef", "include",
	"cpp_include", "namespace", "oneway", "void", "throws", "required", "optional", "map", "set", "list", "cpp_type",
	"bool", "byte", "i8", "i16", "i32", "i64", "double", "string", "binary", "a", "b.c", "X_1", "requiredThing", "_",
	"true", "A.B.C"}
var soupPunct = []string{"{", "}", "(", ")", "[", "]", "<", ">", ",", ";", ":", "=", "*", ".", "-", "+", "/", "\\", "$", "#", "//", "/*", "*/", "\"", "'"}
var soupNums = []string{"0", "1", "-1", "+5", "0x10", "0o17", "0xZZ", "08", "1.5", ".5", "1e5", "1.5e-3", "1e", "99999999999999999999999",
	"-999999", "1e999", "0x", "5.", "1e 5", "1e0x10"}
var soupLits = []string{`""`, `''`, `"a"`, `'b'`, `"a\"b"`, `'a\'b'`, `"\\"`, `"\`, `"unterminated`, `'x"y'`, "\"a\nb\"", `"\xff"`}
var soupBlank = []string{" ", " ", "\n", "\t", "\r\n", "\v", "\f", "// c\n", "# c\n", "/* c */", "/* open", "//"}

func tokenSoup(r *rng.R, n int) string {
	var b strings.Builder
	for i := 0; i < n; i++ {
		switch r.Intn(10) {
		case 0, 1, 2:
			b.WriteString(rng.Pick(r, soupWords))
		case 3, 4:
			b.WriteString(rng.Pick(r, soupPunct))
		case 5:
			b.WriteString(rng.Pick(r, soupNums))
		case 6:
			b.WriteString(rng.Pick(r, soupLits))
		default:
			b.WriteString(rng.Pick(r, soupBlank))
		}
		if r.Chance(2, 3) {
			b.WriteString(rng.Pick(r, soupBlank))
		}
	}
	return b.String()
}

func randomBytes(r *rng.R, n int, ascii bool) string {
	b := make([]byte, n)
	for i := range b {
		if ascii {
			b[i] = byte(0x20 + r.Intn(0x5f))
			if r.Chance(1, 12) {
				b[i] = '\n'
			}
		} else {
			b[i] = byte(r.Intn(256))
		}
	}
	return string(b)
}

// a valid-looking document assembled from fragments; used as the base of mutations
var fragDefs = []string{
	"struct S%d {\n  1: required i32 a = 5 (k = \"v\"),\n  2: optional map<string, list<S%d>> b;\n  i64 c\n} (x = 'y')\n",
	"union U%d { 1: string s; 2: binary b = \"x\\\"y\" }\n",
	"exception E%d { 1: string msg }\n",
	"enum N%d { A = 1, B, C = 0x10 (p = \"q\"); D }\n",
	"const map<string, list<i32>> M%d = {\"a\": [1, 2, 3], 'b': [], \"c\": [0x7f -1 +2]}\n",
	"const double D%d = -1.5e-3\n",
	"typedef list<set<i32> cpp_type \"x\"> (a = \"b\") T%d\n",
	"service V%d extends base.W {\n  oneway void ping(),\n  S%d get(1: i32 id, 2: T%d t) throws (1: E%d e) (api = \"get\");\n}\n",
	"// comment %d\n/* block\n %d */\n# hash\n",
}
var fragHeaders = []string{"include \"base.thrift\"\n", "cpp_include 'x.h'\n", "namespace go a.b.c\n", "namespace * x (k = \"v\")\n"}

func validDoc(r *rng.R, approxLen int) string {
	var b strings.Builder
	for i, n := 0, r.Intn(4); i < n; i++ {
		b.WriteString(rng.Pick(r, fragHeaders))
	}
	i := 0
	for b.Len() < approxLen {
		f := rng.Pick(r, fragDefs)
		b.WriteString(strings.ReplaceAll(f, "%d", itoa(i)))
		i++
	}
	return b.String()
}

func itoa(i int) string {
	if i == 0 {
		return "0"
	}
	var d []byte
	for i > 0 {
		d = append([]byte{byte('0' + i%10)}, d...)
		i /= 10
	}
	return string(d)
}

// tokens of a document for token-level mutations (rough split, good enough to mutate)
func roughTokens(s string) []string {
	var out []string
	cur := ""
	flush := func() {
		if cur != "" {
			out = append(out, cur)
			cur = ""
		}
	}
	for i := 0; i < len(s); i++ {
		c := s[i]
		switch {
		case c == ' ' || c == '\n' || c == '\t' || c == '\r':
			flush()
			out = append(out, string(c))
		case strings.ContainsRune("{}()[]<>,;:=\"'*/#\\", rune(c)):
			flush()
			out = append(out, string(c))
		default:
			cur += string(c)
		}
	}
	flush()
	return out
}

func mutate(r *rng.R, doc string) (string, string) {
	toks := roughTokens(doc)
	if len(toks) == 0 {
		return doc, "none"
	}
	switch r.Intn(9) {
	case 0: // delete a token
		i := r.Intn(len(toks))
		return strings.Join(append(append([]string{}, toks[:i]...), toks[i+1:]...), ""), "delete-token"
	case 1: // duplicate a token
		i := r.Intn(len(toks))
		return strings.Join(append(append(append([]string{}, toks[:i+1]...), toks[i]), toks[i+1:]...), ""), "duplicate-token"
	case 2: // swap two tokens
		i, j := r.Intn(len(toks)), r.Intn(len(toks))
		t := append([]string{}, toks...)
		t[i], t[j] = t[j], t[i]
		return strings.Join(t, ""), "swap-tokens"
	case 3: // truncate anywhere (inside literals, comments, numbers)
		return doc[:r.Intn(len(doc)+1)], "truncate"
	case 4: // drop every closing bracket of one kind
		c := rng.Pick(r, []string{"}", ")", "]", ">", "{", "(", "[", "<", "\"", "'"})
		return strings.Replace(doc, c, "", 1+r.Intn(3)), "unbalance"
	case 5: // insert a random byte
		i := r.Intn(len(doc) + 1)
		return doc[:i] + string([]byte{byte(r.Intn(256))}) + doc[i:], "insert-byte"
	case 6: // replace a token by soup
		i := r.Intn(len(toks))
		t := append([]string{}, toks...)
		t[i] = tokenSoup(r, 1+r.Intn(3))
		return strings.Join(t, ""), "replace-token"
	case 7: // delete a byte range
		i := r.Intn(len(doc))
		j := i + r.Intn(20)
		if j > len(doc) {
			j = len(doc)
		}
		return doc[:i] + doc[j:], "delete-range"
	default: // splice two documents
		i := r.Intn(len(doc))
		return doc[i:] + doc[:i], "rotate"
	}
}

func deepNesting(r *rng.R, depth int) (string, string) {
	switch r.Intn(8) {
	case 0:
		return "struct S { 1: " + strings.Repeat("list<", depth) + "i32" + strings.Repeat(">", depth) + " a }", "deep-list-type"
	case 1:
		return "struct S { 1: " + strings.Repeat("list<", depth) + "i32 a }", "deep-list-type-unclosed"
	case 2:
		return "struct S { 1: " + strings.Repeat("map<i32,", depth) + "i32" + strings.Repeat(">", depth) + " a }", "deep-map-type"
	case 3:
		return "const list<i32> c = " + strings.Repeat("[", depth) + strings.Repeat("]", depth), "deep-const-list"
	case 4:
		return "const list<i32> c = " + strings.Repeat("[", depth), "deep-const-list-unclosed"
	case 5:
		return "const map<i32,i32> c = " + strings.Repeat("{1:", depth) + "1" + strings.Repeat("}", depth), "deep-const-map"
	case 6:
		return "struct S { 1: i32 a " + strings.Repeat("(", depth) + " }", "many-parens"
	default:
		return "service X { " + strings.Repeat("void f(", depth), "deep-args-unclosed"
	}
}

func bigInput(r *rng.R) (string, string) {
	const max = 64 * 1024
	switch r.Intn(12) {
	case 9:
		return "const list<i32> c = " + strings.Repeat("[", max-30), "64k-deep-const-list-unclosed"
	case 10:
		return "struct S { 1: " + strings.Repeat("list<", max/5-10), "64k-deep-list-type-unclosed"
	case 11:
		d := max/12 - 10
		return "struct S { 1: " + strings.Repeat("list<", d) + "i32" + strings.Repeat(">", d) + " a = " + strings.Repeat("[", d) + strings.Repeat("]", d) + "}", "64k-deep-balanced"
	case 0:
		return validDoc(r, max-2000), "64k-valid-document"
	case 1:
		d := validDoc(r, max-2000)
		m, _ := mutate(r, d)
		if len(m) > max {
			m = m[:max]
		}
		return m, "64k-mutated-document"
	case 2:
		return randomBytes(r, max, false), "64k-random-bytes"
	case 3:
		return tokenSoup(r, 9000), "64k-token-soup"
	case 4:
		return "const string s = \"" + strings.Repeat("a\\\"", max/3-20) + "\"", "64k-literal-escapes"
	case 5:
		return strings.Repeat("/* c */ // d\n", max/13), "64k-comments"
	case 6:
		return "const i32 c = " + strings.Repeat("9", max-20), "64k-digits"
	case 7:
		return "struct " + strings.Repeat("a.b_", max/4-10) + " {}", "64k-identifier"
	default:
		return "enum E { " + strings.Repeat("A B=1 (x='y'), ", max/16-2) + "}", "64k-enum"
	}
}

func totalityStream(p *producer, r *rng.R, tier string) {
	n := 2500
	nbig := 60
	if tier == "thorough" {
		n = 200000
		nbig = 600
	}
	// fixed edge inputs first
	for _, s := range []string{"", "\x00", "\xff\xfe", "struct", "struct S {", "\"", "'", "/*", "//", "#", "const i32 x = ",
		"const i32 x = 0x", "struct S { 1: }", "struct S { -999999: i32 a }", "enum E { A = }", "service S { void f( }",
		"include", "namespace", "namespace *", "struct S {}}", "struct S {} (", "const string s = \"\\", "struct $ {}",
		"const double d = 1e", "const double d = 1e99999999999999999999", "struct S { 99999999999999999999999999: i32 a }",
		"\xef\xbb\xbfstruct S {}", "struct S {} \x00", string(rune(0x10ffff)), "struct S { 1: i32 a = [ }"} {
		p.addTot("edge", s)
	}
	var chunk []totInput
	flush := func() {
		if len(chunk) > 0 {
			p.addTotBatch(chunk)
			chunk = nil
		}
	}
	for i := 0; i < n; i++ {
		cr := r.Fork()
		var src, sub string
		switch i % 10 {
		case 0:
			src, sub = randomBytes(cr, cr.Intn(200), false), "random-bytes"
		case 1:
			src, sub = randomBytes(cr, cr.Intn(400), true), "random-ascii"
		case 2, 3:
			src, sub = tokenSoup(cr, 1+cr.Intn(60)), "token-soup"
		case 4:
			src, sub = deepNesting(cr, 1+cr.Intn(3000))
		default:
			d := validDoc(cr, 200+cr.Intn(3000))
			src, sub = mutate(cr, d)
			for k := cr.Intn(3); k > 0; k-- {
				src, _ = mutate(cr, src)
				sub = "multi-mutation"
			}
		}
		if len(src) > 64*1024 {
			src = src[:64*1024]
		}
		chunk = append(chunk, totInput{sub, src})
		if len(chunk) >= 2000 {
			flush()
		}
	}
	flush()
	for i := 0; i < nbig; i++ {
		cr := r.Fork()
		src, sub := bigInput(cr)
		if len(src) > 64*1024 {
			src = src[:64*1024]
		}
		chunk = append(chunk, totInput{sub, src})
		if len(chunk) >= 200 {
			flush()
		}
	}
	flush()
}
