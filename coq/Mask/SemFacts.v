(* Mask/SemFacts.v — what one clean insertion [ins] does to every query walk, for white and
   black lists, and the invariant of masks built without conflicts. *)
From Coq Require Import List Bool ZArith Lia.
From Coq.Strings Require Import Byte.
From Verif Require Import Base.Bytes Mask.Path Mask.Desc Mask.Trie Mask.Spec Mask.TrieFacts.
Import ListNotations.

(* ------------------------------------------------------------------ invariant *)

(* a node some path went through or ended at *)
Definition done (c : mask) : bool := m_isall c || nonempty (m_kids c).

(* every node is set and carries the mode b; every child is done *)
Fixpoint inv (b : bool) (m : mask) : bool :=
  match m with
  | Node t a bl ks =>
      negb (ft_eqb t FtInvalid) && Bool.eqb bl b &&
      (fix go (l : list (key * mask)) : bool :=
         match l with
         | [] => true
         | (_, c) :: r => done c && inv b c && go r
         end) ks
  end.

Lemma inv_unfold b m :
  inv b m = live m && Bool.eqb (m_black m) b &&
            forallb (fun kc => done (snd kc) && inv b (snd kc)) (m_kids m).
Proof.
  destruct m as [t a bl ks]. cbn [inv live m_typ m_black m_kids]. f_equal.
  induction ks as [|[k c] ks IH]; [reflexivity|]. cbn [forallb snd]. rewrite IH. reflexivity.
Qed.

Lemma inv_live b m : inv b m = true -> live m = true.
Proof. rewrite inv_unfold, !andb_true_iff. tauto. Qed.
Lemma inv_black b m : inv b m = true -> m_black m = b.
Proof. rewrite inv_unfold, !andb_true_iff. intros [[_ H] _]. apply eqb_prop in H. exact H. Qed.

Lemma forallb_klookup (Q : mask -> bool) ks k c :
  forallb (fun kc => Q (snd kc)) ks = true -> klookup k ks = Some c -> Q c = true.
Proof.
  induction ks as [|[k' c'] ks IH]; cbn; [discriminate|].
  rewrite andb_true_iff. intros [H1 H2]. destruct (key_eqb k k'); [intros [= <-]; exact H1 | auto].
Qed.

Lemma forallb_kupsert (Q : mask -> bool) ks k c :
  forallb (fun kc => Q (snd kc)) ks = true -> Q c = true ->
  forallb (fun kc => Q (snd kc)) (kupsert k c ks) = true.
Proof.
  intros H Hc. induction ks as [|[k' c'] ks IH]; cbn; [rewrite Hc; reflexivity|].
  cbn in H. rewrite andb_true_iff in H. destruct H as [H1 H2].
  destruct (key_eqb k k'); cbn; [rewrite Hc, H2; reflexivity | rewrite H1, IH; auto].
Qed.

Lemma inv_child b m k c : inv b m = true -> klookup k (m_kids m) = Some c -> inv b c = true /\ done c = true.
Proof.
  rewrite inv_unfold, !andb_true_iff. intros [_ H] Hk.
  pose proof (forallb_klookup (fun x => done x && inv b x) _ _ _ H Hk) as H1.
  rewrite andb_true_iff in H1. tauto.
Qed.

Lemma inv_put b cur k c : inv b cur = true -> inv b c = true -> done c = true -> inv b (put k c cur) = true.
Proof.
  rewrite !(inv_unfold b cur), (inv_unfold b (put k c cur)), !andb_true_iff.
  intros [[H1 H2] H3] Hc Hd. rewrite live_put, m_black_put, m_kids_put. repeat split; auto.
  apply (forallb_kupsert (fun x => done x && inv b x)); [exact H3 | rewrite Hc, Hd; reflexivity].
Qed.

Lemma inv_set_isall b m a : inv b (set_isall m a) = inv b m.
Proof. rewrite !inv_unfold. reflexivity. Qed.

Lemma inv_fresh b t : ok_ft t = true -> inv b (fresh t b) = true.
Proof. intro H. rewrite inv_unfold. unfold fresh, live. cbn. unfold ok_ft in H. rewrite H, eqb_reflx. reflexivity. Qed.

(* the slot under a key that [sub_ok] accepts *)
Lemma sub_ok_slot k t (P : mask -> bool) cur :
  sub_ok k t P cur = true -> ok_ft t = true ->
  P (slot k t cur) = true /\ m_typ (slot k t cur) = t /\ live (slot k t cur) = true.
Proof.
  unfold sub_ok, slot. destruct (klookup k (m_kids cur)) as [c|].
  - rewrite !andb_true_iff. intros [[H1 H2] H3] _. rewrite H1. repeat split; auto.
    destruct (m_typ c), t; cbn in H2; congruence.
  - intros H Ht. repeat split; auto.
Qed.

Lemma sub_ok_slot_inv b k t (P : mask -> bool) cur :
  sub_ok k t P cur = true -> ok_ft t = true -> inv b cur = true -> inv b (slot k t cur) = true.
Proof.
  unfold sub_ok, slot. intros H Ht Hi. destruct (klookup k (m_kids cur)) as [c|] eqn:E.
  - rewrite !andb_true_iff in H. destruct H as [[H1 _] _]. rewrite H1. eapply inv_child; eauto.
  - rewrite (inv_black _ _ Hi). apply inv_fresh; assumption.
Qed.

Lemma sub_ok_put_other k k' t P c cur : k <> k' -> sub_ok k' t P (put k c cur) = sub_ok k' t P cur.
Proof. intro H. unfold sub_ok. rewrite m_kids_put, klookup_kupsert_other, m_black_put by assumption. reflexivity. Qed.

Lemma sub_ok_set_isall k t P cur a : sub_ok k t P (set_isall cur a) = sub_ok k t P cur.
Proof. reflexivity. Qed.

Lemma nodupb_cons k ks : nodupb key_eqb (k :: ks) = true -> (forall k', In k' ks -> k <> k') /\ nodupb key_eqb ks = true.
Proof.
  cbn. rewrite andb_true_iff, negb_true_iff. intros [H1 H2]. split; [|exact H2].
  intros k' Hin E. subst k'. assert (existsb (key_eqb k) ks = true) as X.
  { apply existsb_exists. exists k. split; [exact Hin | apply key_eqb_refl]. }
  congruence.
Qed.

(* insertion keeps the invariant and leaves a done node *)
Lemma ins_keys_inv b ks t f (P : mask -> bool) :
  (forall c, P c = true -> inv b c = true -> inv b (f c) = true /\ done (f c) = true) ->
  ok_ft t = true ->
  forall cur, inv b cur = true -> nodupb key_eqb ks = true ->
  forallb (fun k => sub_ok k t P cur) ks = true ->
  inv b (ins_keys ks t f cur) = true /\ (nonempty ks = true -> nonempty (m_kids (ins_keys ks t f cur)) = true).
Proof.
  intros Hf Ht. induction ks as [|k ks IH]; intros cur Hi Hnd Hall; [split; [exact Hi | discriminate]|].
  cbn [forallb] in Hall. rewrite andb_true_iff in Hall. destruct Hall as [Hk Hrest].
  apply nodupb_cons in Hnd. destruct Hnd as [Hne Hnd].
  destruct (sub_ok_slot _ _ _ _ Hk Ht) as [HP [_ _]].
  pose proof (sub_ok_slot_inv b _ _ _ _ Hk Ht Hi) as Hsi.
  destruct (Hf _ HP Hsi) as [Hfi Hfd].
  assert (inv b (child_ins k t f cur) = true) as Hi1 by (apply inv_put; assumption).
  assert (forallb (fun k0 => sub_ok k0 t P (child_ins k t f cur)) ks = true) as Hrest1.
  { rewrite forallb_forall in *. intros k' Hin. unfold child_ins. rewrite sub_ok_put_other; auto. }
  destruct (IH _ Hi1 Hnd Hrest1) as [A B]. unfold ins_keys in *. cbn [fold_left]. split; [exact A|].
  intros _. destruct ks as [|k2 ks2]; [|apply B; reflexivity].
  cbn [fold_left]. unfold child_ins. rewrite m_kids_put.
  destruct (kupsert k (f (slot k t cur)) (m_kids cur)) eqn:E; [exfalso; eapply kupsert_not_nil; eauto | reflexivity].
Qed.

Lemma compat_keys_nonempty s r cur : compat (s :: r) cur = true -> nonempty (gkeys s) = true.
Proof.
  cbn [compat]. rewrite !andb_true_iff. intros [[_ H] _].
  destruct s; cbn [gkeys]; try reflexivity; rewrite !andb_true_iff in H; tauto.
Qed.

Lemma compat_keys_nodup s r cur : compat (s :: r) cur = true -> nodupb key_eqb (gkeys s) = true.
Proof.
  cbn [compat]. rewrite !andb_true_iff. intros [[_ H] _].
  destruct s; cbn [gkeys]; try reflexivity; rewrite !andb_true_iff in H; tauto.
Qed.

Lemma ins_inv b : forall g cur, compat g cur = true -> inv b cur = true ->
  inv b (ins g cur) = true /\ done (ins g cur) = true.
Proof.
  induction g as [|s r IH]; intros cur Hc Hi.
  - cbn [ins]. rewrite inv_set_isall. split; [exact Hi | reflexivity].
  - pose proof (compat_keys_nonempty _ _ _ Hc) as Hne.
    pose proof (compat_keys_nodup _ _ _ Hc) as Hnd.
    cbn [compat] in Hc. rewrite !andb_true_iff in Hc. destruct Hc as [[Ht Hst] Hall].
    cbn [ins].
    assert (inv b (if is_gstar s then set_isall cur true else cur) = true) as Hi0
      by (destruct (is_gstar s); [rewrite inv_set_isall|]; exact Hi).
    assert (forallb (fun k => sub_ok k (gft s) (compat r) (if is_gstar s then set_isall cur true else cur)) (gkeys s) = true) as Hall0
      by (destruct (is_gstar s); exact Hall).
    destruct (ins_keys_inv b (gkeys s) (gft s) (ins r) (compat r) IH Ht _ Hi0 Hnd Hall0) as [A B].
    split; [exact A|]. unfold done. rewrite (B Hne). apply orb_true_r.
Qed.

(* ------------------------------------------------------------------ walks *)

Lemma walk_nil m : walk m [] = true.
Proof. reflexivity. Qed.

Lemma walk_cons m k r : walk m (k :: r) = snd (query m k) && walk (fst (query m k)) r.
Proof. unfold walk. cbn [walk_to]. destruct (query m k) as [c ok]. cbn [fst snd]. destruct (walk_to c r). reflexivity. Qed.

Lemma walk_none q : walk None q = true.
Proof. induction q as [|k q IH]; [reflexivity|]. rewrite walk_cons. cbn. exact IH. Qed.

Definition is_some {A} (o : option A) : bool := match o with Some _ => true | None => false end.

Lemma query_white cur k : live cur = true -> m_black cur = false ->
  query (Some cur) k =
  if m_isall cur then (klookup KAll (m_kids cur), true)
  else (get (key_of k) cur, is_some (get (key_of k) cur)).
Proof.
  intros Hl Hb. unfold query, ret. rewrite Hl, Hb. cbn [negb orb].
  destruct (m_isall cur); [reflexivity|]. destruct (get (key_of k) cur); reflexivity.
Qed.

Lemma query_black cur k : live cur = true -> m_black cur = true ->
  query (Some cur) k =
  if m_isall cur then (klookup KAll (m_kids cur), has_child cur)
  else (get (key_of k) cur, match get (key_of k) cur with None => true | Some c => has_child c end).
Proof.
  intros Hl Hb. unfold query, ret. rewrite Hl, Hb. cbn [negb orb].
  destruct (m_isall cur); reflexivity.
Qed.

Lemma get_put_same k c cur : get k (put k c cur) = if live c then Some c else None.
Proof. unfold get. rewrite m_kids_put, klookup_kupsert_same. reflexivity. Qed.

Lemma get_put_other k k' c cur : k <> k' -> get k' (put k c cur) = get k' cur.
Proof. intro H. unfold get. rewrite m_kids_put, klookup_kupsert_other by assumption. reflexivity. Qed.

(* ------------------------------------------------------------------ selection by typed paths *)

Definition gmatch (s : gseg) (k : qkey) : bool :=
  is_gstar s || existsb (key_eqb (key_of k)) (gkeys s).

(* white: the path and the position agree as far as both go *)
Fixpoint selg (g : gpath) (q : list qkey) : bool :=
  match g, q with
  | [], _ => true
  | _, [] => true
  | s :: r, k :: q' => gmatch s k && selg r q'
  end.

(* black: the path ends at the position or above it *)
Fixpoint rejg (g : gpath) (q : list qkey) : bool :=
  match g, q with
  | [], _ => true
  | _ :: _, [] => false
  | s :: r, k :: q' => gmatch s k && rejg r q'
  end.

Lemma selg_nil_r g : selg g [] = true.
Proof. destruct g; reflexivity. Qed.

Lemma key_of_not_all k : key_of k <> KAll.
Proof. destruct k; discriminate. Qed.

(* a new node: nothing below it passes (white) *)
Lemma walk_fresh_white t q : ok_ft t = true -> walk (Some (fresh t false)) q = match q with [] => true | _ => false end.
Proof.
  intro Ht. destruct q as [|k q]; [reflexivity|]. rewrite walk_cons, query_white; [|exact Ht|reflexivity].
  reflexivity.
Qed.

Lemma slot_cases k t cur :
  (klookup k (m_kids cur) = None /\ slot k t cur = fresh t (m_black cur)) \/
  (exists c, klookup k (m_kids cur) = Some c /\ (live c = true -> slot k t cur = c)).
Proof.
  unfold slot. destruct (klookup k (m_kids cur)) as [c|]; [right|left; auto].
  exists c. split; [reflexivity|]. intros ->. reflexivity.
Qed.

(* the walk below the slot of k, seen from the unchanged parent (white) *)
Lemma walk_slot_white k t P cur q r :
  sub_ok k t P cur = true -> ok_ft t = true -> m_black cur = false ->
  walk (Some (slot k t cur)) q || selg r q =
  (match get k cur with Some c => walk (Some c) q | None => false end) || selg r q.
Proof.
  intros Hs Ht Hb. unfold sub_ok in Hs. unfold slot, get.
  destruct (klookup k (m_kids cur)) as [c|].
  - rewrite !andb_true_iff in Hs. destruct Hs as [[H1 _] _]. rewrite H1. reflexivity.
  - rewrite Hb, walk_fresh_white by assumption. destruct q; [rewrite selg_nil_r; reflexivity | reflexivity].
Qed.

Lemma ins_keys_walk_white ks t f r :
  (forall c, compat r c = true -> inv false c = true ->
     (forall q, walk (Some (f c)) q = walk (Some c) q || selg r q) /\ inv false (f c) = true /\ done (f c) = true) ->
  (forall c, m_typ (f c) = m_typ c) ->
  ok_ft t = true ->
  forall cur, m_isall cur = false -> inv false cur = true ->
  nodupb key_eqb ks = true -> forallb (fun k => sub_ok k t (compat r) cur) ks = true ->
  (forall k, In k ks -> k <> KAll) ->
  forall k q, walk (Some (ins_keys ks t f cur)) (k :: q) =
              walk (Some cur) (k :: q) || (existsb (key_eqb (key_of k)) ks && selg r q).
Proof.
  intros Hf Hft Ht. induction ks as [|k0 ks IH]; intros cur Ha Hi Hnd Hall Hna k q.
  - cbn. rewrite orb_false_r. reflexivity.
  - cbn [forallb] in Hall. rewrite andb_true_iff in Hall. destruct Hall as [Hk Hrest].
    apply nodupb_cons in Hnd. destruct Hnd as [Hne Hnd].
    destruct (sub_ok_slot _ _ _ _ Hk Ht) as [HP [Hty Hlv]].
    pose proof (sub_ok_slot_inv false _ _ _ _ Hk Ht Hi) as Hsi.
    destruct (Hf _ HP Hsi) as [Hw [Hfi Hfd]].
    set (cur1 := child_ins k0 t f cur).
    assert (inv false cur1 = true) as Hi1 by (apply inv_put; assumption).
    assert (forallb (fun k1 => sub_ok k1 t (compat r) cur1) ks = true) as Hrest1.
    { rewrite forallb_forall in *. intros k' Hin. unfold cur1, child_ins. rewrite sub_ok_put_other; auto. }
    assert (m_isall cur1 = false) as Ha1 by exact Ha.
    assert (forall k1, In k1 ks -> k1 <> KAll) as Hna1 by (intros; apply Hna; right; assumption).
    change (ins_keys (k0 :: ks) t f cur) with (ins_keys ks t f cur1).
    rewrite (IH cur1 Ha1 Hi1 Hnd Hrest1 Hna1 k q).
    (* one step *)
    assert (walk (Some cur1) (k :: q) = walk (Some cur) (k :: q) || (key_eqb (key_of k) k0 && selg r q)) as Hstep.
    { rewrite !walk_cons.
      rewrite (query_white cur1), (query_white cur); try (apply (inv_live false); assumption); try (apply (inv_black false); assumption).
      rewrite Ha1, Ha. cbn [fst snd].
      destruct (key_eqb (key_of k) k0) eqn:E.
      - apply key_eqb_eq in E. subst k0. unfold cur1, child_ins. rewrite get_put_same.
        assert (live (f (slot (key_of k) t cur)) = true) as -> by (unfold live; rewrite Hft; exact Hlv).
        cbn [is_some andb]. rewrite Hw.
        rewrite (walk_slot_white _ _ _ _ _ r Hk Ht (inv_black _ _ Hi)).
        destruct (get (key_of k) cur); reflexivity.
      - apply key_eqb_neq in E. unfold cur1, child_ins. rewrite get_put_other by congruence.
        rewrite andb_false_l, orb_false_r. reflexivity. }
    rewrite Hstep. cbn [existsb].
    destruct (walk (Some cur) (k :: q)), (key_eqb (key_of k) k0), (existsb (key_eqb (key_of k)) ks), (selg r q); reflexivity.
Qed.

Lemma gkeys_not_all s : is_gstar s = false -> forall k, In k (gkeys s) -> k <> KAll.
Proof.
  destruct s; cbn; try discriminate; intros _ k.
  - intros [<-|[]]; discriminate.
  - rewrite in_map_iff. intros [x [<- _]]; discriminate.
  - rewrite in_map_iff. intros [x [<- _]]; discriminate.
Qed.

Lemma star_state_cases cur :
  star_state cur = true ->
  (m_isall cur = false /\ m_kids cur = []) \/ (m_isall cur = true /\ exists a, m_kids cur = [(KAll, a)]).
Proof.
  unfold star_state. destruct (m_kids cur) as [|[k a] [|x l]]; try discriminate.
  - rewrite negb_true_iff. auto.
  - destruct k; try discriminate. intros ->. right. split; [reflexivity | exists a; reflexivity].
  - destruct k; discriminate.
Qed.

Lemma gstar_keys s : is_gstar s = true -> gkeys s = [KAll].
Proof. destruct s; cbn; try discriminate; reflexivity. Qed.

Lemma star_node_state s r cur :
  is_gstar s = true -> compat (s :: r) cur = true ->
  (m_isall cur = false /\ m_kids cur = []) \/ (m_isall cur = true /\ exists a, m_kids cur = [(KAll, a)]).
Proof.
  intros Hs Hc. cbn [compat] in Hc. rewrite !andb_true_iff in Hc. destruct Hc as [[_ H] _].
  destruct s; try discriminate.
  - apply star_state_cases; exact H.
  - rewrite andb_true_iff in H. destruct H as [H _]. unfold fresh_state in H.
    rewrite andb_true_iff, !negb_true_iff in H. destruct H as [H1 H2]. left. split; [exact H1|].
    destruct (m_kids cur); [reflexivity | discriminate].
Qed.

Theorem ins_walk_white : forall g cur, compat g cur = true -> inv false cur = true ->
  forall q, walk (Some (ins g cur)) q = walk (Some cur) q || selg g q.
Proof.
  induction g as [|s r IH]; intros cur Hc Hi q.
  - cbn [ins selg]. rewrite orb_true_r. destruct q as [|k q]; [reflexivity|].
    rewrite walk_cons, query_white; [|exact (inv_live _ _ Hi)|exact (inv_black _ _ Hi)].
    cbn [set_isall m_isall m_kids fst snd andb].
    cbn [compat] in Hc. destruct (m_kids cur); [|discriminate]. cbn. apply walk_none.
  - destruct q as [|k q]; [rewrite !walk_nil; reflexivity|].
    assert (forall c, compat r c = true -> inv false c = true ->
              (forall q, walk (Some (ins r c)) q = walk (Some c) q || selg r q) /\
              inv false (ins r c) = true /\ done (ins r c) = true) as Hf.
    { intros c H1 H2. split; [apply IH; assumption | apply ins_inv; assumption]. }
    pose proof (compat_keys_nodup _ _ _ Hc) as Hnd.
    destruct (is_gstar s) eqn:Hs.
    + (* star *)
      destruct (star_node_state _ _ _ Hs Hc) as [[Ha Hk]|[Ha [a Hk]]];
      cbn [compat] in Hc; rewrite !andb_true_iff in Hc; destruct Hc as [[Ht _] Hall];
      rewrite (gstar_keys _ Hs) in Hall; cbn [forallb] in Hall; rewrite andb_true_r in Hall;
      cbn [ins selg]; unfold gmatch; rewrite Hs, (gstar_keys _ Hs); cbn [orb andb];
      unfold ins_keys; cbn [fold_left]; unfold child_ins;
      rewrite <- sub_ok_set_isall with (a := true) in Hall;
      destruct (sub_ok_slot _ _ _ _ Hall Ht) as [HP [Hty Hlv]];
      pose proof (sub_ok_slot_inv false _ _ _ (set_isall cur true) Hall Ht) as Hsi;
      rewrite inv_set_isall in Hsi; specialize (Hsi Hi);
      destruct (Hf _ HP Hsi) as [Hw _];
      rewrite walk_cons, query_white; try (rewrite live_put; exact (inv_live _ _ Hi)); try (rewrite m_black_put; exact (inv_black _ _ Hi));
      rewrite m_isall_put; cbn [set_isall m_isall]; rewrite m_kids_put, klookup_kupsert_same; cbn [fst snd andb];
      rewrite Hw, walk_cons, (query_white cur) by (first [exact (inv_live _ _ Hi) | exact (inv_black _ _ Hi)]);
      rewrite Ha; cbn [fst snd].
      * (* no child yet *)
        unfold slot, get. cbn [set_isall m_kids m_black]. rewrite Hk. cbn [klookup is_some andb orb].
        rewrite (inv_black _ _ Hi), walk_fresh_white by exact Ht.
        destruct q; [rewrite selg_nil_r; reflexivity | reflexivity].
      * (* the star child exists *)
        unfold sub_ok in Hall. cbn [set_isall m_kids] in Hall. unfold slot. cbn [set_isall m_kids m_black].
        rewrite Hk in *. cbn [klookup key_eqb] in *. rewrite !andb_true_iff in Hall. destruct Hall as [[Hl _] _].
        rewrite Hl. cbn [andb]. reflexivity.
    + (* explicit keys *)
      cbn [compat] in Hc. rewrite !andb_true_iff in Hc. destruct Hc as [[Ht Hst] Hall].
      assert (m_isall cur = false) as Ha.
      { destruct s; try discriminate; rewrite !andb_true_iff, negb_true_iff in Hst; tauto. }
      cbn [ins selg]. rewrite Hs. unfold gmatch. rewrite Hs. cbn [orb].
      apply (ins_keys_walk_white (gkeys s) (gft s) (ins r) r Hf (fun c => ins_typ r c) Ht cur Ha Hi Hnd Hall (gkeys_not_all s Hs)).
Qed.

(* ------------------------------------------------------------------ black lists *)

Lemma walk_fresh_black t q : ok_ft t = true -> walk (Some (fresh t true)) q = true.
Proof.
  intro Ht. destruct q as [|k q]; [reflexivity|]. rewrite walk_cons, query_black; [|exact Ht|reflexivity].
  cbn. apply walk_none.
Qed.

Lemma ends_with_star_cons s r : r <> [] -> ends_with_star (s :: r) = ends_with_star r.
Proof. destruct r as [|x r]; [congruence|]. intros _. destruct s; reflexivity. Qed.

Lemma ends_with_star_single s : ends_with_star [s] = is_gstar s.
Proof. destruct s; reflexivity. Qed.

Lemma rejg_nil_r g : g <> [] -> rejg g [] = false.
Proof. destruct g; [congruence | reflexivity]. Qed.

(* a done child that accepts a longer path has children *)
Lemma compat_done_has_child r c :
  compat r c = true -> r <> [] -> done c = true -> live c = true -> has_child c = true.
Proof.
  intros Hc Hr Hd Hl. destruct r as [|s r]; [congruence|].
  unfold has_child. rewrite Hl. cbn [andb]. unfold done in Hd.
  cbn [compat] in Hc. rewrite !andb_true_iff in Hc. destruct Hc as [[_ Hst] _].
  destruct s.
  1-3: rewrite !andb_true_iff, negb_true_iff in Hst; destruct Hst as [[[Ha _] _] _];
       rewrite Ha in Hd; cbn in Hd; destruct (m_kids c); [discriminate | reflexivity].
  - unfold star_state in Hst. destruct (m_kids c) as [|x l]; [|reflexivity].
    rewrite negb_true_iff in Hst. rewrite Hst in Hd. discriminate.
  - rewrite andb_true_iff in Hst. destruct Hst as [Hf _]. unfold fresh_state in Hf.
    rewrite andb_true_iff, !negb_true_iff in Hf. destruct Hf as [H1 H2]. rewrite H1, H2 in Hd. discriminate.
Qed.

Lemma has_child_ins_nil c : has_child (ins [] c) = has_child c.
Proof. reflexivity. Qed.

Lemma has_child_ins r c : compat r c = true -> r <> [] -> live c = true -> has_child (ins r c) = true.
Proof.
  intros Hc Hr Hl. destruct r as [|s r]; [congruence|].
  pose proof (compat_keys_nonempty _ _ _ Hc) as Hne.
  unfold has_child. rewrite ins_live, Hl. cbn [andb ins].
  destruct (gkeys s) as [|k ks]; [discriminate|].
  unfold ins_keys. cbn [fold_left].
  set (cur1 := child_ins k (gft s) (ins r) (if is_gstar s then set_isall c true else c)).
  assert (nonempty (m_kids cur1) = true) as H1.
  { unfold cur1, child_ins. rewrite m_kids_put. destruct (kupsert _ _ _) eqn:E; [exfalso; eapply kupsert_not_nil; eauto | reflexivity]. }
  clearbody cur1. clear Hne. revert cur1 H1. induction ks as [|k2 ks IH]; intros cur1 H1; cbn [fold_left].
  - destruct (m_kids cur1); [discriminate | reflexivity].
  - apply IH. unfold child_ins. rewrite m_kids_put. destruct (kupsert _ _ _) eqn:E; [exfalso; eapply kupsert_not_nil; eauto | reflexivity].
Qed.

Lemma ins_keys_walk_black ks t f r :
  (forall c, compat r c = true -> inv true c = true ->
     (r <> [] -> forall q, walk (Some (f c)) q = walk (Some c) q && negb (rejg r q)) /\
     inv true (f c) = true /\ done (f c) = true /\
     has_child (f c) = (if nonempty r then true else has_child c)) ->
  (forall c, m_typ (f c) = m_typ c) ->
  ok_ft t = true ->
  forall cur, m_isall cur = false -> inv true cur = true ->
  nodupb key_eqb ks = true -> forallb (fun k => sub_ok k t (compat r) cur) ks = true ->
  forall k q, walk (Some (ins_keys ks t f cur)) (k :: q) =
              walk (Some cur) (k :: q) && negb (existsb (key_eqb (key_of k)) ks && rejg r q).
Proof.
  intros Hf Hft Ht. induction ks as [|k0 ks IH]; intros cur Ha Hi Hnd Hall k q.
  - cbn. rewrite andb_true_r. reflexivity.
  - cbn [forallb] in Hall. rewrite andb_true_iff in Hall. destruct Hall as [Hk Hrest].
    apply nodupb_cons in Hnd. destruct Hnd as [Hne Hnd].
    destruct (sub_ok_slot _ _ _ _ Hk Ht) as [HP [Hty Hlv]].
    pose proof (sub_ok_slot_inv true _ _ _ _ Hk Ht Hi) as Hsi.
    destruct (Hf _ HP Hsi) as [Hw [Hfi [Hfd Hhc]]].
    set (cur1 := child_ins k0 t f cur).
    assert (inv true cur1 = true) as Hi1 by (apply inv_put; assumption).
    assert (forallb (fun k1 => sub_ok k1 t (compat r) cur1) ks = true) as Hrest1.
    { rewrite forallb_forall in *. intros k' Hin. unfold cur1, child_ins. rewrite sub_ok_put_other; auto. }
    assert (m_isall cur1 = false) as Ha1 by exact Ha.
    change (ins_keys (k0 :: ks) t f cur) with (ins_keys ks t f cur1).
    rewrite (IH cur1 Ha1 Hi1 Hnd Hrest1 k q).
    assert (walk (Some cur1) (k :: q) = walk (Some cur) (k :: q) && negb (key_eqb (key_of k) k0 && rejg r q)) as Hstep.
    { rewrite !walk_cons.
      rewrite (query_black cur1), (query_black cur); try (apply (inv_live true); assumption); try (apply (inv_black true); assumption).
      rewrite Ha1, Ha. cbn [fst snd].
      destruct (key_eqb (key_of k) k0) eqn:E.
      - apply key_eqb_eq in E. subst k0. unfold cur1, child_ins. rewrite get_put_same.
        assert (live (f (slot (key_of k) t cur)) = true) as -> by (unfold live; rewrite Hft; exact Hlv).
        cbn [andb]. rewrite Hhc.
        destruct r as [|s r'].
        + (* the path ends at this child: it is rejected *)
          cbn [nonempty rejg negb]. rewrite andb_false_r.
          cbn [compat] in HP. unfold has_child. destruct (m_kids (slot (key_of k) t cur)); [|discriminate].
          rewrite andb_false_r. reflexivity.
        + cbn [nonempty andb]. rewrite Hw by discriminate.
          unfold sub_ok in Hk. unfold slot, get in *.
          destruct (klookup (key_of k) (m_kids cur)) as [c|] eqn:Ek.
          * rewrite !andb_true_iff in Hk. destruct Hk as [[Hl _] Hcr]. rewrite Hl in *.
            destruct (inv_child _ _ _ _ Hi Ek) as [_ Hdc].
            rewrite (compat_done_has_child (s :: r') c Hcr ltac:(discriminate) Hdc Hl). reflexivity.
          * rewrite (inv_black _ _ Hi), walk_fresh_black by exact Ht. cbn. rewrite walk_none. reflexivity.
      - apply key_eqb_neq in E. unfold cur1, child_ins. rewrite get_put_other by congruence.
        cbn [andb negb]. rewrite andb_true_r. reflexivity. }
    rewrite Hstep. cbn [existsb].
    destruct (walk (Some cur) (k :: q)), (key_eqb (key_of k) k0), (existsb (key_eqb (key_of k)) ks), (rejg r q); reflexivity.
Qed.

Theorem ins_walk_black : forall g cur, compat g cur = true -> inv true cur = true ->
  g <> [] -> ends_with_star g = false ->
  forall q, walk (Some (ins g cur)) q = walk (Some cur) q && negb (rejg g q).
Proof.
  induction g as [|s r IH]; intros cur Hc Hi Hg He q; [congruence|].
  destruct q as [|k q]; [rewrite !walk_nil; reflexivity|].
  assert (forall c, compat r c = true -> inv true c = true ->
     (r <> [] -> forall q, walk (Some (ins r c)) q = walk (Some c) q && negb (rejg r q)) /\
     inv true (ins r c) = true /\ done (ins r c) = true /\
     has_child (ins r c) = (if nonempty r then true else has_child c)) as Hf.
  { intros c H1 H2. destruct (ins_inv true r c H1 H2) as [A B]. repeat split; auto.
    - intros Hr q0. apply IH; auto. rewrite <- (ends_with_star_cons s r Hr). exact He.
    - destruct r as [|x r']; [reflexivity|]. cbn [nonempty]. apply has_child_ins; [exact H1 | discriminate | exact (inv_live _ _ H2)]. }
  pose proof (compat_keys_nodup _ _ _ Hc) as Hnd.
  destruct (is_gstar s) eqn:Hs.
  - (* star: the path goes on below it *)
    assert (r <> []) as Hr.
    { intro E. subst r. rewrite ends_with_star_single in He. congruence. }
    destruct (star_node_state _ _ _ Hs Hc) as [[Ha Hk]|[Ha [a Hk]]];
    cbn [compat] in Hc; rewrite !andb_true_iff in Hc; destruct Hc as [[Ht _] Hall];
    rewrite (gstar_keys _ Hs) in Hall; cbn [forallb] in Hall; rewrite andb_true_r in Hall;
    cbn [ins rejg]; unfold gmatch; rewrite Hs, (gstar_keys _ Hs); cbn [orb andb];
    unfold ins_keys; cbn [fold_left]; unfold child_ins;
    rewrite <- sub_ok_set_isall with (a := true) in Hall;
    destruct (sub_ok_slot _ _ _ _ Hall Ht) as [HP [Hty Hlv]];
    pose proof (sub_ok_slot_inv true _ _ _ (set_isall cur true) Hall Ht) as Hsi;
    rewrite inv_set_isall in Hsi; specialize (Hsi Hi);
    destruct (Hf _ HP Hsi) as [Hw _]; specialize (Hw Hr);
    rewrite walk_cons, query_black; try (rewrite live_put; exact (inv_live _ _ Hi)); try (rewrite m_black_put; exact (inv_black _ _ Hi));
    rewrite m_isall_put; cbn [set_isall m_isall]; rewrite m_kids_put, klookup_kupsert_same; cbn [fst snd];
    (assert (has_child (put KAll (ins r (slot KAll (gft s) (set_isall cur true))) (set_isall cur true)) = true) as ->
       by (unfold has_child; rewrite live_put; unfold live at 1; cbn [set_isall m_typ]; fold (live cur); rewrite (inv_live _ _ Hi), m_kids_put;
           destruct (kupsert _ _ _) eqn:E; [exfalso; eapply kupsert_not_nil; eauto | reflexivity]));
    cbn [andb]; rewrite Hw, walk_cons, (query_black cur) by (first [exact (inv_live _ _ Hi) | exact (inv_black _ _ Hi)]);
    rewrite Ha; cbn [fst snd].
    + unfold slot, get. cbn [set_isall m_kids m_black]. rewrite Hk. cbn [klookup andb].
      rewrite (inv_black _ _ Hi), walk_fresh_black by exact Ht. rewrite walk_none. reflexivity.
    + unfold sub_ok in Hall. cbn [set_isall m_kids] in Hall. unfold slot. cbn [set_isall m_kids m_black].
      assert (has_child cur = true) as -> by (unfold has_child; rewrite (inv_live _ _ Hi), Hk; reflexivity).
      rewrite Hk in *. cbn [klookup key_eqb] in *. rewrite !andb_true_iff in Hall. destruct Hall as [[Hl _] _].
      rewrite Hl. cbn [andb]. reflexivity.
  - cbn [compat] in Hc. rewrite !andb_true_iff in Hc. destruct Hc as [[Ht Hst] Hall].
    assert (m_isall cur = false) as Ha.
    { destruct s; try discriminate; rewrite !andb_true_iff, negb_true_iff in Hst; tauto. }
    cbn [ins rejg]. rewrite Hs. unfold gmatch. rewrite Hs. cbn [orb].
    apply (ins_keys_walk_black (gkeys s) (gft s) (ins r) r Hf (fun c => ins_typ r c) Ht cur Ha Hi Hnd Hall).
Qed.
