// Package faultplug is the body of the fault-injecting thriftgo plugin used by the C11 check.
//
// The behaviour of one plugin process is read from the file  <argv[0]>.cfg.json  (argv[0] is the
// path thriftgo ran, usually a symlink named after the role):
//
//	record      path prefix: the raw stdin is saved as <record>.stdin, the harness dump of
//	            plugin.UnmarshalRequest(stdin) as <record>.dump (or the error as <record>.err),
//	            the process id as <record>.pid; <record>.wrote-stderr / .wrote-stdout are created after
//	            the respective write, and <record>.done just before exit
//	stderr      text written to stderr
//	stdout_file file whose bytes are copied to stdout (a marshalled response, a truncated one,
//	            garbage, ...); nothing is written when empty
//	sleep_before_ms / sleep_after_ms   pause before / after writing stdout
//	exit        exit status
package faultplug

import (
	"encoding/json"
	"fmt"
	"io"
	"os"
	"time"

	"github.com/cloudwego/thriftgo/plugin"

	"verif/harness/reqdump"
)

type Config struct {
	Record        string `json:"record"`
	Stderr        string `json:"stderr"`
	StdoutFile    string `json:"stdout_file"`
	SleepBeforeMs int    `json:"sleep_before_ms"`
	SleepAfterMs  int    `json:"sleep_after_ms"`
	Exit          int    `json:"exit"`
}

func Main() {
	var cfg Config
	raw, err := os.ReadFile(os.Args[0] + ".cfg.json")
	if err != nil {
		fmt.Fprintln(os.Stderr, "faultplugin: no configuration:", err)
		os.Exit(97)
	}
	if err := json.Unmarshal(raw, &cfg); err != nil {
		fmt.Fprintln(os.Stderr, "faultplugin: bad configuration:", err)
		os.Exit(98)
	}
	if cfg.Record != "" {
		os.WriteFile(cfg.Record+".pid", []byte(fmt.Sprint(os.Getpid())), 0o644)
	}
	data, _ := io.ReadAll(os.Stdin)
	if cfg.Record != "" {
		os.WriteFile(cfg.Record+".stdin", data, 0o644)
		func() {
			defer func() {
				if r := recover(); r != nil {
					os.WriteFile(cfg.Record+".err", []byte(fmt.Sprint("panic: ", r)), 0o644)
				}
			}()
			req, err := plugin.UnmarshalRequest(data)
			if err != nil {
				os.WriteFile(cfg.Record+".err", []byte(err.Error()), 0o644)
				return
			}
			d, err := reqdump.Request(req)
			if err != nil {
				os.WriteFile(cfg.Record+".err", []byte(err.Error()), 0o644)
				return
			}
			os.WriteFile(cfg.Record+".dump", d, 0o644)
		}()
	}
	if cfg.Stderr != "" {
		os.Stderr.WriteString(cfg.Stderr)
	}
	if cfg.Record != "" {
		os.WriteFile(cfg.Record+".wrote-stderr", nil, 0o644)
	}
	if cfg.SleepBeforeMs > 0 {
		time.Sleep(time.Duration(cfg.SleepBeforeMs) * time.Millisecond)
	}
	if cfg.StdoutFile != "" {
		if b, err := os.ReadFile(cfg.StdoutFile); err == nil {
			os.Stdout.Write(b)
		}
	}
	if cfg.Record != "" {
		os.WriteFile(cfg.Record+".wrote-stdout", nil, 0o644)
	}
	if cfg.SleepAfterMs > 0 {
		time.Sleep(time.Duration(cfg.SleepAfterMs) * time.Millisecond)
	}
	if cfg.Record != "" {
		os.WriteFile(cfg.Record+".done", nil, 0o644)
	}
	os.Exit(cfg.Exit)
}
