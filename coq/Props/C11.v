(* Props/C11.v — property C11: "Plugins see the compiler's AST and options, and their answers
   are honoured".  Statements only; proofs in Gen/PluginFacts.v; the model is Gen/Plugin.v, whose
   field ids and wire types are read from Wire/SchemaPlugin.v (regenerated from
   parser/AST.thrift + plugin/protocol.thrift by translator T-thrift on every check). *)
From Coq Require Import List Arith Bool Lia NArith ZArith.
From Coq.Strings Require Import Byte String.
From Verif Require Import Base.Bytes Base.BE Wire.TType Wire.WVal Wire.Codec Wire.Schema Wire.SchemaPlugin
  Idl.Ast Gen.FileManager Gen.Plugin Gen.PluginFacts.
Import ListNotations.
Local Open Scope Z_scope.
Local Open Scope list_scope.

(* ---------------------------------------------------------------- include compression *)

(* For every well-formed include graph g (every reference set, equal Filenames denote the same
   node — so diamonds of any shape —, no Filename starting with the stub prefix) and enough
   fuel (one unit per level of g): decompressing the compressed tree with the table
   UnmarshalRequest collects from it gives g back. *)
Theorem decompress_compress : forall g fuel,
  wf_graph g -> (height g <= fuel)%nat -> decompress_top fuel (compress_top g) = DOk g.
Proof. exact PluginFacts.decompress_compress. Qed.
Print Assumptions decompress_compress.

(* Every Filename below the root occurs un-stubbed exactly once in the compressed tree (and
   nothing else does). *)
Theorem compress_no_dup : forall g, wf_graph g ->
  NoDup (map ast_name (live (compress_top g))) /\
  (forall n, In n (map ast_name (below g)) <-> In n (map ast_name (live (compress_top g)))) /\
  (forall n, In n (map ast_name (below g)) ->
     count_occ (list_eq_dec Byte.byte_eq_dec) (map ast_name (live (compress_top g))) n = 1%nat).
Proof. exact PluginFacts.compress_no_dup. Qed.
Print Assumptions compress_no_dup.

(* collectThriftInclude finds every un-stubbed node under its Filename. *)
Theorem collect_finds_all : forall a n, In n (map ast_name (live a)) ->
  exists x, lookup n (collect [] a) = Some x /\ In x (live a) /\ ast_name x = n.
Proof. exact PluginFacts.collect_finds_all. Qed.
Print Assumptions collect_finds_all.

(* ---------------------------------------------------------------- trailer *)

Theorem trailer_roundtrip : forall d f f', 0 <= f < 256 ->
  has_feature (append_trailer d f) f' = (Z.land f f' =? f').
Proof. exact PluginFacts.trailer_roundtrip. Qed.
Print Assumptions trailer_roundtrip.

(* a marshalled struct (it ends with the stop byte) is never taken for data with a trailer *)
Theorem trailer_absent_on_plain : forall fs f, has_feature (enc (WStruct fs)) f = false.
Proof. exact PluginFacts.trailer_absent_on_plain. Qed.
Print Assumptions trailer_absent_on_plain.

(* ---------------------------------------------------------------- request codec *)

(* decode (encode r) = r at the regenerated schema, for every AST node kind with every optional
   field set or unset (the quantification is over all of Idl.Ast: types, constants of every
   shape, fields, struct-likes, functions, services, includes, files, trees), for all requests
   that are encodable at all: kids parallel to includes (wt_ast) and every string, list and
   integer within its wire width (wfb of the encoding).  norm_request only turns a nil
   Name2Category map into the empty map (Go writes a nil map as an empty one). *)
Theorem request_roundtrip : forall r fuel,
  wt_ast (rq_ast r) = true -> wfb (enc_request r) = true ->
  unmarshal_request fuel (marshal_request r) = UOk (norm_request r).
Proof. exact PluginFacts.request_roundtrip. Qed.
Print Assumptions request_roundtrip.

(* the same through include compression and the trailer, for every well-formed graph *)
Theorem request_roundtrip_compressed : forall r fuel,
  wf_graph (rq_ast r) -> wt_ast (rq_ast r) = true ->
  wfb (enc_request (with_ast r (compress_top (rq_ast r)))) = true ->
  (height (rq_ast r) <= fuel)%nat ->
  unmarshal_request fuel (marshal_request_compressed r) = UOk (norm_request r).
Proof. exact PluginFacts.request_roundtrip_compressed. Qed.
Print Assumptions request_roundtrip_compressed.

(* the same two theorems with the encodability hypothesis replaced by a decidable predicate on
   the request itself: wf_request r = every string and list shorter than 2^31 (a Filename also
   leaves room for the 12-byte stub prefix), field ids / include indices within i32, enum values
   and integer constants within i64, double bit patterns within 64 bit *)
Theorem wf_request_encodable : forall r, wf_request r = true -> wfb (enc_request r) = true.
Proof. exact PluginFacts.wf_request_encodable. Qed.
Print Assumptions wf_request_encodable.

Theorem request_roundtrip_wf : forall r fuel,
  wt_ast (rq_ast r) = true -> wf_request r = true ->
  unmarshal_request fuel (marshal_request r) = UOk (norm_request r).
Proof. exact PluginFacts.request_roundtrip_wf. Qed.
Print Assumptions request_roundtrip_wf.

Theorem request_roundtrip_compressed_wf : forall r fuel,
  wf_graph (rq_ast r) -> wt_ast (rq_ast r) = true -> wf_request r = true -> (height (rq_ast r) <= fuel)%nat ->
  unmarshal_request fuel (marshal_request_compressed r) = UOk (norm_request r).
Proof. exact PluginFacts.request_roundtrip_compressed_wf. Qed.
Print Assumptions request_roundtrip_compressed_wf.

(* ---------------------------------------------------------------- response codec *)

(* decode (encode r) = r for every response (Response.FastRead / Generated.FastRead as modelled
   statement by statement): error set or unset, files, insertion-point patches, warnings, each
   present or absent; whatever bytes follow the encoding are not looked at *)
Theorem response_roundtrip : forall r rest, response_ok r = true ->
  unmarshal_response (marshal_response r ++ rest) = Some r.
Proof. exact PluginFacts.response_roundtrip. Qed.
Print Assumptions response_roundtrip.

(* ---------------------------------------------------------------- option strings *)

Theorem compact_roundtrip : forall d, desc_ok d = true -> parse_compact (render d) = Some d.
Proof. exact PluginFacts.compact_roundtrip. Qed.
Print Assumptions compact_roundtrip.

(* the parameters are name=value of every option, in the order written *)
Theorem pack_order : forall d, desc_ok d = true ->
  params_of (render d) = Some (map (fun o => o_name o ++ [x3d] ++ o_desc o) (d_opts d)) /\
  language_of (render d) = Some (d_name d).
Proof. exact PluginFacts.pack_order. Qed.
Print Assumptions pack_order.

(* ---------------------------------------------------------------- outcome *)

(* non-zero exit status, time limit exceeded, failure to start, undecodable stdout, or a
   non-empty Error: thriftgo fails (exit status 2, nothing written) *)
Theorem outcome_fail : forall name pr,
  match pr with
  | Exited code out _ =>
      code <> 0 \/ unmarshal_response out = None \/
      (exists r c e, unmarshal_response out = Some r /\ rs_error r = Some (c :: e))
  | TimedOut _ _ | NotStarted => True
  end ->
  exists shown, outcome name pr = Fail shown.
Proof. exact PluginFacts.outcome_fail. Qed.
Print Assumptions outcome_fail.

(* an answer without error: every content item is handed to FileManager.Feed, in order; every
   warning, and the plugin's stderr, is shown *)
Theorem outcome_ok_contents_reach_fm : forall m shown name out err r rest,
  unmarshal_response out = Some r -> no_error r ->
  run_plugins m shown ((name, Exited 0 out err) :: rest) =
  match feed m (map to_gen (get_list (rs_contents r))) with
  | FileManager.Ok m' => run_plugins m' (shown ++ shown_of name err r) rest
  | _ => RFail (shown ++ shown_of name err r)
  end.
Proof. exact PluginFacts.outcome_ok_contents_reach_fm. Qed.
Print Assumptions outcome_ok_contents_reach_fm.

(* a failing plugin stops the run: nothing is handed on, later plugins are not started *)
Theorem run_plugins_fail : forall m shown name pr rest ws,
  outcome name pr = Fail ws -> run_plugins m shown ((name, pr) :: rest) = RFail (shown ++ ws).
Proof. exact PluginFacts.run_plugins_fail. Qed.
Print Assumptions run_plugins_fail.

(* ---------------------------------------------------------------- the outcome, exactly and end to end *)

(* thriftgo goes on with a plugin's answer EXACTLY when the process exited with status 0, its
   stdout decodes and the decoded Error is unset or empty; in every other case it fails *)
Theorem outcome_proceed_iff : forall name pr,
  (exists ws cs, outcome name pr = Proceed ws cs) <->
  (exists out err r, pr = Exited 0 out err /\ unmarshal_response out = Some r /\ no_error r).
Proof. exact PluginFacts.outcome_proceed_iff. Qed.
Print Assumptions outcome_proceed_iff.

Theorem outcome_fail_iff : forall name pr,
  (exists ws, outcome name pr = Fail ws) <->
  ~ (exists out err r, pr = Exited 0 out err /\ unmarshal_response out = Some r /\ no_error r).
Proof. exact PluginFacts.outcome_fail_iff. Qed.
Print Assumptions outcome_fail_iff.

(* from the response VALUE a plugin builds (not from abstract bytes): exit 0 after writing the
   encoding of an error-free r (anything may follow): exactly r's contents are handed on, in
   order, exactly r's warnings and then the stderr note are shown *)
Theorem response_honoured : forall name r rest err,
  response_ok r = true -> no_error r ->
  outcome name (Exited 0 (marshal_response r ++ rest) err) = Proceed (shown_of name err r) (get_list (rs_contents r)).
Proof. exact PluginFacts.response_honoured. Qed.
Print Assumptions response_honoured.

Theorem response_error_fails : forall name r rest err c e,
  response_ok r = true -> rs_error r = Some (c :: e) ->
  exists ws, outcome name (Exited 0 (marshal_response r ++ rest) err) = Fail ws.
Proof. exact PluginFacts.response_error_fails. Qed.
Print Assumptions response_error_fails.

(* a whole run in which every plugin answers with an error-free response: the file manager is
   fed every plugin's contents, plugin after plugin, and all warnings are shown in order *)
Theorem run_plugins_all_honoured : forall (ps : list (bytes * response)) m shown m',
  Forall (fun p => response_ok (snd p) = true /\ no_error (snd p)) ps ->
  feed_all m (map snd ps) = FileManager.Ok m' ->
  run_plugins m shown (map (fun p => (fst p, Exited 0 (marshal_response (snd p)) [])) ps) =
  ROk (shown ++ List.concat (map (fun p => get_list (rs_warnings (snd p))) ps)) m'.
Proof. exact PluginFacts.run_plugins_all_honoured. Qed.
Print Assumptions run_plugins_all_honoured.

(* ---------------------------------------------------------------- the plugin loop of Generate *)

(* Whatever the external processes do ([run]), whatever the option lists are (empty ones
   included) and however many plugins there are: the i-th request sent goes to the i-th plugin
   of the command line, its PluginParameters are the pack of THAT plugin's options, and every
   other part (version, generator parameters, language, output path, recursive flag, AST) is the
   compiler's — nothing of an earlier plugin's options survives in the shared request object. *)
Theorem generate_loop_sends_own_options : forall run ds m shown req i name q,
  nth_error (snd (generate_loop run m shown req ds)) i = Some (name, q) ->
  exists d, nth_error ds i = Some d /\ name = plugin_name d /\
            rq_plugin_params q = pack (d_opts d) /\
            rq_version q = rq_version req /\ rq_gen_params q = rq_gen_params req /\
            rq_language q = rq_language req /\ rq_output_path q = rq_output_path req /\
            rq_recursive q = rq_recursive req /\ rq_ast q = rq_ast req.
Proof. exact PluginFacts.generate_loop_sends_own_options. Qed.
Print Assumptions generate_loop_sends_own_options.

(* the loop's result is run_plugins over the answers to exactly those requests *)
Theorem generate_loop_result : forall run ds m shown req,
  fst (generate_loop run m shown req ds) =
  run_plugins m shown (map (fun d => (plugin_name d, run (plugin_name d) (snd (sent_to req d)))) ds).
Proof. exact PluginFacts.generate_loop_result. Qed.
Print Assumptions generate_loop_result.

(* a successful run invoked every plugin, in command-line order *)
Theorem generate_loop_all_invoked : forall run ds m shown req shown' m',
  fst (generate_loop run m shown req ds) = ROk shown' m' ->
  snd (generate_loop run m shown req ds) = map (sent_to req) ds.
Proof. exact PluginFacts.generate_loop_all_invoked. Qed.
Print Assumptions generate_loop_all_invoked.

(* ---------------------------------------------------------------- the hypotheses are satisfiable *)

Local Open Scope string_scope.

(* a diamond: x includes z and y, y includes z *)
Definition ex_z := Ast (empty_file (B "z.thrift")) [].
Definition ex_y := Ast (File (B "y.thrift") [Include (B "z.thrift") None (Some true)] [] [] [] [] [] [] [] [] [] None) [Some ex_z].
Definition ex_x :=
  Ast (File (B "x.thrift") [Include (B "z.thrift") None None; Include (B "y.thrift") None None] []
        [Namespace (B "go") (B "a.b") []]
        [Typedef (Ty (B "list") None (Some (ty_named (B "i32"))) [] [] CatList None (Some false)) (B "L") [] []]
        [Constant (B "c") (ty_named (B "i32"))
           (CMap [(CInt 1, CList [CIdent (B "a.b") (Some (Extra true 0 (B "b") (B "a"))); CDouble 3%N])]) [] []]
        [] [] [] [] [] (Some [(B "L", CatTypedef)]))
      [Some ex_z; Some ex_y].
Definition ex_req := mkreq (B "0.4.1") [B "a=b"] [] (B "go") (B "out") true ex_x.

Example ex_wt : wt_ast ex_x = true /\ wfb (enc_request ex_req) = true /\
                wfb (enc_request (with_ast ex_req (compress_top ex_x))) = true.
Proof. vm_compute. auto. Qed.


(* a richer request: every definition kind, optional fields set and unset, a diamond *)
Definition ex_ty_map :=
  Ty (B "map") (Some (Ty (B "string") None None [] [] CatString None None))
     (Some (Ty (B "y.Color") None None [] [Anno (B "k") [B "v1"; B "v2"]] CatEnum (Some (Ref (B "Color") 1)) (Some false)))
     (B "std::map") [] CatMap None None.
Definition ex_field := Field 3 (B "m") ReqOptional ex_ty_map (Some (CMap [(CLiteral (B "a"), CIdent (B "y.Color.RED") (Some (Extra true 1 (B "RED") (B "Color"))))])) [Anno (B "go.tag") [B "x"]] (B "// c").
Definition ex_rich :=
  Ast (File (B "dir/x.thrift") [Include (B "z.thrift") None (Some false); Include (B "y.thrift") None (Some true)] [B "<vector>"]
        [Namespace (B "go") (B "a.b") [Anno (B "n") []]]
        [Typedef ex_ty_map (B "M") [] []]
        [Constant (B "c") (ty_named (B "double")) (CList [CDouble 4607182418800017408%N; CInt (-9223372036854775808); CList []]) [] (B "// const")]
        [Enum (B "E") [EnumValue (B "A") (-1) [] []; EnumValue (B "B") 9223372036854775807 [Anno (B "a") [B "b"]] []] [] []]
        [StructLike SKStruct (B "S") [ex_field; Field (-32768) (B "r") ReqRequired (ty_named (B "i64")) None [] []] [] []]
        [StructLike SKUnion (B "U") [Field 1 (B "u") ReqOptional (ty_named (B "bool")) None [] []] [] []]
        [StructLike SKException (B "X") [] [Anno (B "e") [B "1"]] []]
        [Service (B "Svc") (B "y.Base") [Function (B "f") true true (ty_named (B "void")) [ex_field] [] [] [];
                                          Function (B "g") false false ex_ty_map [] [Field 1 (B "e") ReqOptional (ty_named (B "X")) None [] []] [] []]
                 [] (Some (Ref (B "Base") 1)) []]
        (Some [(B "E", CatEnum); (B "M", CatTypedef); (B "S", CatStruct)]))
      [Some ex_z; Some ex_y].
Definition ex_rich_req := mkreq (B "0.4.1") [B "naming_style=golint"; B "gen_setter="] [B "="; B "k=v=w"] (B "go") (B "./gen out") false ex_rich.

Example ex_rich_ok :
  wf_request ex_rich_req = true /\ wt_ast ex_rich = true /\
  unmarshal_request 3 (marshal_request ex_rich_req) = UOk (norm_request ex_rich_req) /\
  unmarshal_request 3 (marshal_request_compressed ex_rich_req) = UOk (norm_request ex_rich_req).
Proof. repeat split; vm_compute; reflexivity. Qed.

(* the predicate is not trivially true: a field id outside i32 is refused *)
Example ex_not_wf :
  wf_request (mkreq [] [] [] [] [] false
    (Ast (File (B "a.thrift") [] [] [] [] [] [] [StructLike SKStruct (B "S") [Field 2147483648 (B "f") ReqDefault (ty_named (B "i32")) None [] []] [] []]
               [] [] [] None) [])) = false.
Proof. vm_compute. reflexivity. Qed.

Definition ex_resp := mkresp None
  (Some [mkgenerated (B "head @@thriftgo_insertion_point(p) tail") (Some (B "/o/a.txt")) None;
         mkgenerated (B "patch") None (Some (B "p"));
         mkgenerated (B "named patch") (Some (B "/o/a.txt")) (Some (B "p"))])
  (Some [B "w1"; []]).
Example ex_response_ok : response_ok ex_resp = true /\ response_ok (mkresp (Some (B "boom")) None None) = true /\
  unmarshal_response ((marshal_response ex_resp ++ B "trailing")%list) = Some ex_resp.
Proof. repeat split; vm_compute; reflexivity. Qed.

(* three plugins, the middle one without options: it is sent an empty list, not its predecessor's *)
Example ex_loop :
  let ds := [mkdesc (B "first=/p1") [mkopt (B "alpha") (B "1"); mkopt (B "beta") []]; mkdesc (B "second=/p2") [];
             mkdesc (B "third") [mkopt (B "gamma") (B "3")]] in
  let run := fun (_ : bytes) (_ : request) => Exited 0 (marshal_response (mkresp None None None)) [] in
  map (fun nq => (fst nq, rq_plugin_params (snd nq))) (snd (generate_loop run fm0 [] ex_req ds)) =
  [(B "first", [B "alpha=1"; B "beta="]); (B "second", []); (B "third", [B "gamma=3"])].
Proof. vm_compute. reflexivity. Qed.

Example ex_wf_graph : wf_graph ex_x.
Proof.
  split; [reflexivity|]. split.
  - intros x y Hx Hy Hn.
    cbn in Hx, Hy.
    repeat (destruct Hx as [<-|Hx]); try contradiction;
    repeat (destruct Hy as [<-|Hy]); try contradiction; try reflexivity; vm_compute in Hn; discriminate.
  - intros x Hx. cbn in Hx. repeat (destruct Hx as [<-|Hx]); try contradiction; reflexivity.
Qed.

(* the compressed diamond really contains a stub, and really comes back *)
Example ex_compressed_has_stub :
  existsb is_stub (nodes (compress_top ex_x)) = true /\
  unmarshal_request 3 (marshal_request_compressed ex_req) = UOk (norm_request ex_req).
Proof. split; vm_compute; reflexivity. Qed.

Example ex_desc_ok : desc_ok (mkdesc (B "go") [mkopt (B "naming_style") (B "golint"); mkopt (B "gen_setter") []; mkopt (B "k") (B "a=b")]) = true.
Proof. reflexivity. Qed.

Example ex_outcomes :
  (exists ws, outcome (B "p") (Exited 3 [] []) = Fail ws) /\
  (exists ws, outcome (B "p") (Exited 0 (hx "de ad be ef") []) = Fail ws) /\
  (exists ws, outcome (B "p") (Exited 0 (marshal_response (mkresp (Some (B "no")) None None)) []) = Fail ws) /\
  outcome (B "p") (Exited 0 (marshal_response (mkresp None (Some [mkgenerated (B "x") (Some (B "f")) None]) (Some [B "w"]))) (B "e"))
    = Proceed [B "w"; warn_plugin_stderr (B "p") (B "e")] [mkgenerated (B "x") (Some (B "f")) None] /\
  (* a set but empty Error is not an error for Generate: GetError() != "" *)
  outcome (B "p") (Exited 0 (marshal_response (mkresp (Some []) None None)) []) = Proceed [] [].
Proof. repeat split; try (eexists; vm_compute; reflexivity); vm_compute; reflexivity. Qed.

(* ---------------------------------------------------------------- outside the hypotheses *)

(* A file whose name itself begins with the stub prefix (a legal file name) is taken for a stub:
   the compressed request cannot be decompressed (Go: panic "not found ref"), both in the plugin
   and in thriftgo's own deferred revert.  Known finding C11-stub-like-filename. *)
Definition ex_stublike :=
  Ast (File (B "main.thrift") [Include (B "THRIFGO_REF:a.thrift") None None] [] [] [] [] [] [] [] [] [] None)
      [Some (Ast (empty_file (B "THRIFGO_REF:a.thrift")) [])].

Theorem decompress_compress_refuted_on_stub_like_name :
  exists g, all_refs_set g = true /\ wt_ast g = true /\
    (forall x y, In x (nodes g) -> In y (nodes g) -> ast_name x = ast_name y -> x = y) /\
    decompress_top 5 (compress_top g) = DNotFound (B "a.thrift").
Proof.
  exists ex_stublike. split; [reflexivity|]. split; [reflexivity|]. split; [|vm_compute; reflexivity].
  intros x y Hx Hy Hn. cbn in Hx, Hy.
  repeat (destruct Hx as [<-|Hx]); try contradiction;
  repeat (destruct Hy as [<-|Hy]); try contradiction; try reflexivity; vm_compute in Hn; discriminate.
Qed.
Print Assumptions decompress_compress_refuted_on_stub_like_name.
