(* Wire/DeepEq.v — the DeepEqual method that thriftgo emits with gen_deep_equal
   (generator/golang/templates/deep_equal.go) and the set-uniqueness check that Write performs
   with it (templates/struct.go, FieldWriteSet under Features.ValidateSet), next to the
   specification "structural equality".

   Values are Wire.Value trees with an abstract ADDRESS on every Go pointer the generated code
   compares with "==" (pointers to struct-likes and pointers to optional base values): two nodes
   with the same address are the same Go object.  Slices and maps carry no address: the
   generated code never compares them by identity.

     hval                      values with addresses
     deq_gen rep e t x y       FieldDeepEqual for a value of IDL type t (element / key / plain slot);
                               rep = true: the code after the presence-test repair of this round,
                               rep = false: the code as pinned (missing map key reads the zero value)
     deq                       = deq_gen true
     gen_deep_eq e s x y       x.DeepEqual(y) for the struct-like s (x, y may be HNil)
     validate_set e et l       true = Write accepts the set (no i < j with element i "equal" element j)
     sets_ok e t x             every set Write reaches inside x is accepted
     same x y                  SPECIFICATION: structural equality, blind to addresses
     shape e key t x           x has the Go shape of type t (constructors fit, struct slots follow the
                               schema, map keys pairwise different under Go "==")
     no_struct_keys x          every map key in x is a base value
     nan_free x                no double in x is a NaN
     ptrs / shared_okb x y     pointers reachable in x, y; an address occurring in both names one
                               object (identical subtree) that holds no NaN
   No proofs in this file. *)
From Coq Require Import List ZArith Bool Lia.
From Verif Require Import Base.Bytes Wire.TType Wire.Schema Wire.Value.
Import ListNotations.
Open Scope Z_scope.

Inductive hval :=
| HBool (b : bool)
| HInt (z : Z)
| HDbl (bits : Z)
| HStr (s : bytes)
| HBin (s : bytes)
| HList (l : list hval)                 (* non-nil slice: list and set *)
| HMap (kvs : list (hval * hval))       (* non-nil map *)
| HStruct (a : Z) (fs : list (Z * hval))  (* non-nil pointer (address a) to a struct-like; slots in declaration order *)
| HNil                                  (* nil pointer / slice / map / []byte *)
| HSome (a : Z) (v : hval).             (* non-nil pointer (address a) to a base value *)

Definition is_empty {A} (l : list A) : bool := match l with [] => true | _ => false end.

(* Go zero value of the plain representation of a type *)
Definition hzero (t : ty) : hval :=
  match t with
  | TBool => HBool false
  | TByte | TI16 | TI32 | TI64 | TEnum _ => HInt 0
  | TDouble => HDbl 0
  | TString => HStr []
  | TBinary | TRef _ | TList _ | TSet _ | TMap _ _ => HNil
  end.

(* Go "==" on map keys: base values by value (doubles IEEE), struct keys are pointers *)
Definition hkey_eq (a b : hval) : bool :=
  match a, b with
  | HBool x, HBool y => Bool.eqb x y
  | HInt x, HInt y => x =? y
  | HDbl x, HDbl y => feq x y
  | HStr x, HStr y | HBin x, HBin y => beqb x y
  | HStruct x _, HStruct y _ => x =? y
  | HNil, HNil => true
  | _, _ => false
  end.

(* m[k] with the presence flag *)
Fixpoint hfind (k : hval) (l : list (hval * hval)) : option hval :=
  match l with [] => None | (k', v) :: r => if hkey_eq k k' then Some v else hfind k r end.

(* the bytes of a []byte (nil = no bytes); a binary map key is a Go string: HBin *)
Definition hbytes (x : hval) : option bytes :=
  match x with HBin s => Some s | HNil => Some [] | _ => None end.

(* ---- the generated comparison ---- *)

Fixpoint deq_gen (rep : bool) (e : env) (t : ty) (x y : hval) {struct x} : bool :=
  match t with
  | TBool => match x, y with HBool a, HBool b => Bool.eqb a b | _, _ => false end        (* != *)
  | TByte | TI16 | TI32 | TI64 | TEnum _ =>
      match x, y with HInt a, HInt b => a =? b | _, _ => false end                       (* != *)
  | TDouble => match x, y with HDbl a, HDbl b => feq a b | _, _ => false end             (* != on float64 *)
  | TString => match x, y with HStr a, HStr b => beqb a b | _, _ => false end            (* strings.Compare *)
  | TBinary => match hbytes x, hbytes y with Some a, Some b => beqb a b | _, _ => false end   (* bytes.Compare *)
  | TRef n =>                                                                            (* tgt.DeepEqual(src) *)
      match x with
      | HNil => match y with HNil => true | _ => false end
      | HStruct a fs =>
          match y with
          | HStruct b gs =>
              if a =? b then true                                                        (* p == ano *)
              else
                match find_struct e n with
                | None => false
                | Some s =>
                    (fix go (fs gs : list (Z * hval)) {struct fs} : bool :=
                       match fs, gs with
                       | [], [] => true
                       | (i, u) :: fr, (j, w) :: gr =>
                           (i =? j) &&
                           match find_field i (s_fields s) with
                           | Some f =>
                               if base_ptr f then
                                 match u with
                                 | HNil => match w with HNil => true | _ => false end
                                 | HSome pa u' =>
                                     match w with
                                     | HSome pb w' => (pa =? pb) || deq_gen rep e (f_ty f) u' w'
                                     | _ => false end
                                 | _ => false end
                               else deq_gen rep e (f_ty f) u w
                           | None => false
                           end && go fr gr
                       | _, _ => false
                       end) fs gs
                end
          | _ => false end
      | _ => false end
  | TList et | TSet et =>                                                                (* len, then by position *)
      match x with
      | HNil => match y with HNil => true | HList [] => true | _ => false end
      | HList lx =>
          match y with
          | HNil => is_empty lx
          | HList ly => (length lx =? length ly)%nat && all2 (deq_gen rep e et) lx ly
          | _ => false end
      | _ => false end
  | TMap kt vt =>                                                                        (* len, then range x, index y *)
      match x with
      | HNil => match y with HNil => true | HMap [] => true | _ => false end
      | HMap mx =>
          match y with
          | HNil => is_empty mx
          | HMap my =>
              (length mx =? length my)%nat &&
              forallb (fun kv => match hfind (fst kv) my with
                                 | Some w => deq_gen rep e vt (snd kv) w
                                 | None => if rep then false else deq_gen rep e vt (snd kv) (hzero vt)
                                 end) mx
          | _ => false end
      | _ => false end
  end.

Notation deq := (deq_gen true).

(* comparison of one struct slot (FieldNDeepEqual): the loop body above, named for the proofs *)
Definition deq_slot (rep : bool) (e : env) (f : field) (u w : hval) : bool :=
  if base_ptr f then
    match u with
    | HNil => match w with HNil => true | _ => false end
    | HSome pa u' => match w with HSome pb w' => (pa =? pb) || deq_gen rep e (f_ty f) u' w' | _ => false end
    | _ => false end
  else deq_gen rep e (f_ty f) u w.

(* x.DeepEqual(y) for the struct-like s *)
Definition gen_deep_eq (e : env) (s : sschema) (x y : hval) : bool := deq e (TRef (s_name s)) x y.
Definition gen_deep_eq_pinned (e : env) (s : sschema) (x y : hval) : bool := deq_gen false e (TRef (s_name s)) x y.

(* ---- validate_set inside Write:  for i, for j > i: if equal(l[i], l[j]) -> error ---- *)

Definition validate_set_gen (rep : bool) (e : env) (et : ty) (l : list hval) : bool :=
  negb (has_dup (deq_gen rep e et) l).
Notation validate_set := (validate_set_gen true).

(* a predicate on every set node of the tree (typed traversal).  Write reaches every set of the
   tree: an unset optional field is a nil slot and holds no set; optional base slots hold no set *)
Fixpoint sets_all (P : ty -> list hval -> bool) (e : env) (t : ty) (x : hval) {struct x} : bool :=
  match x with
  | HList l =>
      match t with
      | TList et => forallb (sets_all P e et) l
      | TSet et => P et l && forallb (sets_all P e et) l
      | _ => true end
  | HMap m =>
      match t with
      | TMap kt vt => forallb (fun kv => sets_all P e kt (fst kv) && sets_all P e vt (snd kv)) m
      | _ => true end
  | HStruct _ fs =>
      match t with
      | TRef n =>
          match find_struct e n with
          | Some s => forallb (fun p => match find_field (fst p) (s_fields s) with
                                        | Some f => sets_all P e (f_ty f) (snd p)
                                        | None => true end) fs
          | None => true end
      | _ => true end
  | _ => true
  end.

(* every set that Write reaches passes validate_set: Write does not fail with "slice is not unique" *)
Definition sets_ok (rep : bool) (e : env) (t : ty) (x : hval) : bool := sets_all (validate_set_gen rep e) e t x.

(* ---- SPECIFICATION: structural equality (addresses are not looked at) ----
   field-wise, element-wise for lists and sets, key-wise for maps (same size, every entry of
   either map has an entry with the same key and the same value in the other), recursive;
   a nil pointer differs from every non-nil one; nil and empty containers / byte strings are the
   same; doubles by IEEE "==" *)
Fixpoint same (x y : hval) {struct x} : bool :=
  match x with
  | HBool a => match y with HBool b => Bool.eqb a b | _ => false end
  | HInt a => match y with HInt b => a =? b | _ => false end
  | HDbl a => match y with HDbl b => feq a b | _ => false end
  | HStr a => match y with HStr b => beqb a b | _ => false end
  | HBin a => match y with HBin b => beqb a b | HNil => is_empty a | _ => false end
  | HNil => match y with HNil => true | HBin b => is_empty b | HList l => is_empty l | HMap m => is_empty m | _ => false end
  | HSome _ u => match y with HSome _ w => same u w | _ => false end
  | HList lx => match y with HList ly => all2 same lx ly | HNil => is_empty lx | _ => false end
  | HMap mx =>
      match y with
      | HMap my =>
          (length mx =? length my)%nat &&
          forallb (fun kv => existsb (fun kv' => same (fst kv) (fst kv') && same (snd kv) (snd kv')) my) mx &&
          forallb (fun kv' => existsb (fun kv => same (fst kv) (fst kv') && same (snd kv) (snd kv')) mx) my
      | HNil => is_empty mx
      | _ => false end
  | HStruct _ fs =>
      match y with
      | HStruct _ gs => all2 (fun p q => (fst p =? fst q) && same (snd p) (snd q)) fs gs
      | _ => false end
  end.

(* ---- domains ---- *)

(* a Go map key is comparable: never a slice, a map or a pointer to a base value *)
Definition keyable (k : hval) : bool := match k with HList _ | HMap _ | HSome _ _ => false | _ => true end.

Fixpoint shape (e : env) (key : bool) (t : ty) (x : hval) {struct x} : bool :=
  match x with
  | HBool _ => match t with TBool => true | _ => false end
  | HInt _ => match t with TByte | TI16 | TI32 | TI64 | TEnum _ => true | _ => false end
  | HDbl _ => match t with TDouble => true | _ => false end
  | HStr _ => match t with TString => true | _ => false end
  | HBin _ => match t with TBinary => true | _ => false end
  | HNil => match t with TBinary => negb key | TList _ | TSet _ | TMap _ _ | TRef _ => true | _ => false end
  | HSome _ _ => false
  | HList l => match t with TList et | TSet et => forallb (shape e false et) l | _ => false end
  | HMap m =>
      match t with
      | TMap kt vt =>
          forallb (fun kv => keyable (fst kv) && shape e true kt (fst kv) && shape e false vt (snd kv)) m &&
          negb (has_dup hkey_eq (map fst m))
      | _ => false end
  | HStruct _ fs =>
      match t with
      | TRef n =>
          match find_struct e n with
          | Some s =>
              list_eqbZ (map fst fs) (map f_id (s_fields s)) &&
              forallb (fun p => match find_field (fst p) (s_fields s) with
                                | Some f =>
                                    if base_ptr f then
                                      match snd p with
                                      | HNil => true
                                      | HSome _ u => shape e false (f_ty f) u
                                      | _ => false end
                                    else shape e false (f_ty f) (snd p)
                                | None => false end) fs
          | None => false end
      | _ => false end
  end.

Definition is_base_hval (x : hval) : bool :=
  match x with HBool _ | HInt _ | HDbl _ | HStr _ | HBin _ => true | _ => false end.

Fixpoint no_struct_keys (x : hval) : bool :=
  match x with
  | HList l => forallb no_struct_keys l
  | HMap m => forallb (fun kv => is_base_hval (fst kv) && no_struct_keys (snd kv)) m
  | HStruct _ fs => forallb (fun p => no_struct_keys (snd p)) fs
  | HSome _ u => no_struct_keys u
  | _ => true
  end.

Fixpoint nan_free (x : hval) : bool :=
  match x with
  | HDbl b => negb (dbl_is_nan b)
  | HList l => forallb nan_free l
  | HMap m => forallb (fun kv => nan_free (fst kv) && nan_free (snd kv)) m
  | HStruct _ fs => forallb (fun p => nan_free (snd p)) fs
  | HSome _ u => nan_free u
  | _ => true
  end.

(* every pointer node of x with its address *)
Fixpoint ptrs (x : hval) : list (Z * hval) :=
  match x with
  | HList l => flat_map ptrs l
  | HMap m => flat_map (fun kv => ptrs (fst kv) ++ ptrs (snd kv)) m
  | HStruct a fs => (a, HStruct a fs) :: flat_map (fun p => ptrs (snd p)) fs
  | HSome a u => (a, HSome a u) :: ptrs u
  | _ => []
  end.

(* syntactic equality *)
Fixpoint heqb (x y : hval) {struct x} : bool :=
  match x, y with
  | HBool a, HBool b => Bool.eqb a b
  | HInt a, HInt b | HDbl a, HDbl b => a =? b
  | HStr a, HStr b | HBin a, HBin b => beqb a b
  | HNil, HNil => true
  | HSome a u, HSome b w => (a =? b) && heqb u w
  | HList lx, HList ly => all2 heqb lx ly
  | HMap mx, HMap my => all2 (fun p q => heqb (fst p) (fst q) && heqb (snd p) (snd q)) mx my
  | HStruct a fs, HStruct b gs => (a =? b) && all2 (fun p q => (fst p =? fst q) && heqb (snd p) (snd q)) fs gs
  | _, _ => false
  end.

(* an address that occurs in x and in y names one object, and that object holds no NaN
   (x and y built from fresh objects: no address in common, trivially true) *)
Definition shared_okb (x y : hval) : bool :=
  forallb (fun p => forallb (fun q => negb (fst p =? fst q) || (heqb (snd p) (snd q) && nan_free (snd p))) (ptrs y)) (ptrs x).

(* pairwise version for the elements of one set *)
Fixpoint pairwise (r : hval -> hval -> bool) (l : list hval) : bool :=
  match l with [] => true | x :: t => forallb (r x) t && pairwise r t end.

(* SPECIFICATION for Write: no set of the tree holds two structurally equal elements *)
Definition sets_distinct (e : env) (t : ty) (x : hval) : bool := sets_all (fun _ l => negb (has_dup same l)) e t x.
(* the elements of every set are pairwise shared_okb *)
Definition sets_shared_ok (e : env) (t : ty) (x : hval) : bool := sets_all (fun _ l => pairwise shared_okb l) e t x.

(* the domain on which the generated comparison is claimed to be structural equality *)
Definition eq_domain (e : env) (t : ty) (x y : hval) : bool :=
  shape e false t x && shape e false t y && no_struct_keys x && no_struct_keys y && shared_okb x y.

(* ---- deep copies ----
   readdr d x: the same tree built from other objects (every address shifted by d);
   disjointb x y: no address of x occurs in y (y was built from fresh objects) *)
Fixpoint readdr (d : Z) (x : hval) {struct x} : hval :=
  match x with
  | HList l => HList (map (readdr d) l)
  | HMap m => HMap (map (fun kv => (readdr d (fst kv), readdr d (snd kv))) m)
  | HStruct a fs => HStruct (a + d) (map (fun p => (fst p, readdr d (snd p))) fs)
  | HSome a v => HSome (a + d) (readdr d v)
  | _ => x
  end.

Definition disjointb (x y : hval) : bool :=
  forallb (fun p => forallb (fun q => negb (fst p =? fst q)) (ptrs y)) (ptrs x).

(* ---- what the generated comparison computes on ALL shaped values ----
   same_pk: structural equality in which a map key is matched the way Go matches it (hkey_eq: base
   keys by value, a struct-typed key by the identity of the object).  It differs from [same] only
   in the key test of the map case; without struct-typed keys the two coincide. *)
Fixpoint same_pk (x y : hval) {struct x} : bool :=
  match x with
  | HBool a => match y with HBool b => Bool.eqb a b | _ => false end
  | HInt a => match y with HInt b => a =? b | _ => false end
  | HDbl a => match y with HDbl b => feq a b | _ => false end
  | HStr a => match y with HStr b => beqb a b | _ => false end
  | HBin a => match y with HBin b => beqb a b | HNil => is_empty a | _ => false end
  | HNil => match y with HNil => true | HBin b => is_empty b | HList l => is_empty l | HMap m => is_empty m | _ => false end
  | HSome _ u => match y with HSome _ w => same_pk u w | _ => false end
  | HList lx => match y with HList ly => all2 same_pk lx ly | HNil => is_empty lx | _ => false end
  | HMap mx =>
      match y with
      | HMap my =>
          (length mx =? length my)%nat &&
          forallb (fun kv => existsb (fun kv' => hkey_eq (fst kv) (fst kv') && same_pk (snd kv) (snd kv')) my) mx &&
          forallb (fun kv' => existsb (fun kv => hkey_eq (fst kv) (fst kv') && same_pk (snd kv) (snd kv')) mx) my
      | HNil => is_empty mx
      | _ => false end
  | HStruct _ fs =>
      match y with
      | HStruct _ gs => all2 (fun p q => (fst p =? fst q) && same_pk (snd p) (snd q)) fs gs
      | _ => false end
  end.

(* every map key is comparable in Go (true for every shaped value) *)
Fixpoint keys_ok (x : hval) : bool :=
  match x with
  | HList l => forallb keys_ok l
  | HMap m => forallb (fun kv => keyable (fst kv) && keys_ok (fst kv) && keys_ok (snd kv)) m
  | HStruct _ fs => forallb (fun p => keys_ok (snd p)) fs
  | HSome _ u => keys_ok u
  | _ => true
  end.

(* an address occurring in x and in y names one object; it holds no NaN (and comparable keys) *)
Definition heap_okb (x y : hval) : bool :=
  forallb (fun p => forallb (fun q => negb (fst p =? fst q) ||
                                      (heqb (snd p) (snd q) && nan_free (snd p) && keys_ok (snd p))) (ptrs y)) (ptrs x).

(* the domain of the exact statement for one set: elements shaped, pairwise consistent heaps *)
Definition set_domain_pk (e : env) (et : ty) (l : list hval) : bool :=
  pairwise (fun a b => shape e false et a && shape e false et b && heap_okb a b) l.
