package main

import "verif/harness/idlmut"

// corpusEntry is a minimised trigger: a tiny tree, the rule it breaks and where.
type corpusEntry struct {
	name     string
	kind     int // 0 = valid near miss (must be accepted), 1 = parses, 2 = no AST / command line
	rule     int
	strict   bool
	files    map[string]string
	main     string
	site     string
	position string
	edited   string
	depth    int
	args     []string // kind 2 command lines: arguments with {OUT} and {MAIN}; nil = the standard configurations
}

func one(text string) map[string]string { return map[string]string{"main.thrift": text} }

func corpus() []corpusEntry {
	c := []corpusEntry{
		{name: "union with two defaults", kind: 1, rule: idlmut.SecondUnionDefault, strict: true, site: "union",
			files: one("union U { 1: i32 a = 1, 2: i32 b = 2 }\n")},
		{name: "typedef 2-cycle next to a constant A.x (used to overflow the stack)", kind: 1, rule: idlmut.TypedefCycle, strict: true, site: "typedef/len2+const",
			files: one("typedef B A\ntypedef A B\nconst i32 c = A.x\n")},
		// an unresolvable chain in a file whose OTHER typedef references do resolve (some only
		// in a later round): the no-progress test must look at the chain, not at the total
		{name: "typedef 2-cycle next to a typedef chain that resolves", kind: 1, rule: idlmut.TypedefCycle, strict: true, site: "typedef/len2+resolvable",
			files: one("typedef Ping Pong\ntypedef Pong Ping\ntypedef R1 R2\ntypedef R0 R1\ntypedef i32 R0\nstruct S { 1: R2 a, 2: list<R1> b }\n")},
		{name: "typedef 2-cycle next to one resolvable typedef of a typedef, cycle declared last", kind: 1, rule: idlmut.TypedefCycle, strict: true, site: "typedef/len2+resolvable",
			files: one("typedef i32 Base\ntypedef Base Alias\ntypedef Ping Pong\ntypedef Pong Ping\n")},
		{name: "typedef 2-cycle next to a resolvable chain in an INCLUDED file", kind: 1, rule: idlmut.TypedefCycle, strict: true, site: "typedef/len2+resolvable",
			position: "used-include", edited: "inc.thrift", depth: 1,
			files: map[string]string{
				"main.thrift": "include \"inc.thrift\"\nstruct S { 1: inc.Alias a }\n",
				"inc.thrift":  "typedef i32 Base\ntypedef Base Alias\ntypedef Ping Pong\ntypedef Pong Ping\n"}},
		// an error on the KEY type of a map must survive a value type that resolves; an
		// unreferenced include is only looked at by the front end (no Go scope without -r)
		{name: "undefined type as a map key in the main file", kind: 1, rule: idlmut.UndefinedType, strict: true, site: "map-key",
			files: one("struct S { 1: map<Nope, string> m }\n")},
		{name: "undefined type as a map key in an UNREFERENCED include", kind: 1, rule: idlmut.UndefinedType, strict: true, site: "map-key",
			position: "unused-include", edited: "inc.thrift", depth: 1,
			files: map[string]string{
				"main.thrift": "include \"inc.thrift\"\nstruct S { 1: i32 a }\n",
				"inc.thrift":  "struct T { 1: map<Nope, string> m }\n"}},
		{name: "undefined type as a nested map key (typedef of list<map<..>>) in an unreferenced include at depth 2", kind: 1, rule: idlmut.UndefinedType, strict: true, site: "map-key/nested",
			position: "unused-include", edited: "deep.thrift", depth: 2,
			files: map[string]string{
				"main.thrift": "include \"mid.thrift\"\nstruct S { 1: i32 a }\n",
				"mid.thrift":  "include \"deep.thrift\"\nstruct M { 1: i32 a }\n",
				"deep.thrift": "typedef list<map<inc.Nope, list<i64>>> TD\nservice Sv { map<Nope2, i32> f(1: map<Nope3, string> a) }\n"}},
		{name: "undefined type as a map key in a REFERENCED include", kind: 1, rule: idlmut.UndefinedType, strict: true, site: "map-key",
			position: "used-include", edited: "inc.thrift", depth: 1,
			files: map[string]string{
				"main.thrift": "include \"inc.thrift\"\nstruct S { 1: inc.Ok a }\n",
				"inc.thrift":  "struct Ok { 1: i32 a }\nstruct T { 1: map<Nope, string> m }\n"}},
		{name: "a constant used as a map key in the main file", kind: 1, rule: idlmut.NonTypeAsType, strict: true, site: "map-key",
			files: one("const i32 MAX = 5\nstruct S { 1: map<MAX, string> m }\n")},
		{name: "a service used as a map key in an argument, a constant as a set element inside a map value", kind: 1, rule: idlmut.NonTypeAsType, strict: true, site: "map-key/argument",
			files: one("const i32 MAX = 5\nservice Base { void g() }\nservice Sv { void f(1: map<Base, string> a, 2: map<string, set<MAX>> b) }\n")},
		{name: "a constant used as a map key in an UNREFERENCED include", kind: 1, rule: idlmut.NonTypeAsType, strict: true, site: "map-key",
			position: "unused-include", edited: "inc.thrift", depth: 1,
			files: map[string]string{
				"main.thrift": "include \"inc.thrift\"\nstruct S { 1: i32 a }\n",
				"inc.thrift":  "const i32 MAX = 5\ntypedef map<MAX, string> TD\n"}},
		{name: "typedef T T", kind: 1, rule: idlmut.TypedefCycle, strict: true, site: "typedef/len1",
			files: one("typedef T T\n")},
		{name: "typedef 3-cycle with a chain into it used by a struct", kind: 1, rule: idlmut.TypedefCycle, strict: true, site: "typedef/len3+chain",
			files: one("typedef B A\ntypedef C B\ntypedef A C\ntypedef A Into\nstruct S { 1: list<Into> a }\n")},
		{name: "two arguments of one id", kind: 1, rule: idlmut.DupFieldId, strict: true, site: "args",
			files: one("service S { void f(1: i32 a, 1: i32 b) }\n")},
		{name: "two arguments of one name", kind: 1, rule: idlmut.DupField, strict: true, site: "args",
			files: one("service S { void f(1: i32 a, 2: i32 a) }\n")},
		{name: "two throws fields of one id", kind: 1, rule: idlmut.DupFieldId, strict: true, site: "throws",
			files: one("exception E1 {}\nexception E2 {}\nservice S { void f() throws (1: E1 a, 1: E2 b) }\n")},
		{name: "throws id 0 collides with the return value", kind: 1, rule: idlmut.DupFieldId, strict: true, site: "throws-id0",
			files: one("exception E1 {}\nservice S { i32 f() throws (0: E1 a) }\n")},
		{name: "kind mismatch in an UNUSED include", kind: 1, rule: idlmut.ConstKindMismatch, strict: true, site: "constant",
			position: "unused-include", edited: "inc_bad.thrift", depth: 1,
			files: map[string]string{
				"main.thrift":    "include \"inc_bad.thrift\"\nstruct S { 1: i32 t }\n",
				"inc_bad.thrift": "const i32 x = \"s\"\nstruct T { 1: i32 a }\n"}},
		{name: "kind mismatch in a used include", kind: 1, rule: idlmut.ConstKindMismatch, strict: true, site: "constant",
			position: "used-include", edited: "inc_bad.thrift", depth: 1,
			files: map[string]string{
				"main.thrift":    "include \"inc_bad.thrift\"\nstruct S { 1: inc_bad.T t }\n",
				"inc_bad.thrift": "const i32 x = \"s\"\nstruct T { 1: i32 a }\n"}},
		{name: "struct literal with an unknown key in an UNUSED include", kind: 1, rule: idlmut.StructLiteralBadKey, strict: true, site: "constant",
			position: "unused-include", edited: "inc_bad.thrift", depth: 1,
			files: map[string]string{
				"main.thrift":    "include \"inc_bad.thrift\"\nstruct S { 1: i32 t }\n",
				"inc_bad.thrift": "struct T { 1: i32 a }\nconst T x = {\"nope\": 1}\n"}},
		{name: "enum named like a struct (only the resolver looks)", kind: 1, rule: idlmut.DupGlobal, strict: true, site: "struct/enum",
			files: one("struct X { 1: i32 a }\nenum X { A }\n")},
		{name: "file includes itself", kind: 1, rule: idlmut.IncludeCycle, strict: true, site: "self",
			files: one("include \"main.thrift\"\nstruct S { 1: i32 a }\n")},
		{name: "include cycle of length 2 not through main", kind: 1, rule: idlmut.IncludeCycle, strict: true, site: "new-files/len2",
			position: "unused-include", edited: "a.thrift", depth: 1,
			files: map[string]string{
				"main.thrift": "include \"a.thrift\"\nstruct S { 1: i32 a }\n",
				"a.thrift":    "include \"b.thrift\"\nstruct A { 1: i32 a }\n",
				"b.thrift":    "include \"a.thrift\"\nstruct B { 1: i32 a }\n"}},
		{name: "oneway function returns", kind: 1, rule: idlmut.OnewayReturns, strict: true, site: "service",
			files: one("service S { oneway i32 f() }\n")},
		{name: "undefined identifier in an argument default", kind: 1, rule: idlmut.UndefinedConst, strict: true, site: "arg-default",
			files: one("service S { void f(1: i32 a = Nope) }\n")},
		{name: "enum value beyond int32", kind: 1, rule: idlmut.EnumOutOfInt32, strict: true, site: "enum",
			files: one("enum E { A = 2147483648 }\n")},
		{name: "string for i32 through a typedef", kind: 1, rule: idlmut.ConstKindMismatch, strict: false, site: "constant/via-typedef",
			files: one("typedef i32 T\nconst T c = \"s\"\n")},
		{name: "syntax error in an included file", kind: 2, rule: idlmut.SyntaxError, site: "missing-close-brace",
			position: "unused-include", edited: "inc.thrift", depth: 1,
			files: map[string]string{
				"main.thrift": "include \"inc.thrift\"\nstruct S { 1: i32 a }\n",
				"inc.thrift":  "struct T { 1: i32 a\n"}},
		{name: "missing include file", kind: 2, rule: idlmut.MissingInclude, site: "include",
			files: one("include \"nosuch_file.thrift\"\nstruct S { 1: i32 a }\n")},
		// the include string "base.thrift" resolves for main (next to it) and is missing for
		// sub/x.thrift; the run starts in the directory ABOVE the tree, so the working
		// directory has no base.thrift either
		{name: "include string found by an earlier includer, missing for a later one in another directory (cwd above the tree)", kind: 2,
			rule: idlmut.MissingInclude, site: "shadowed-by-other-directory/cwd-above", main: "tree/main.thrift",
			position: "used-include", edited: "tree/sub/x.thrift", depth: 1,
			files: map[string]string{
				"tree/main.thrift":  "include \"base.thrift\"\ninclude \"sub/x.thrift\"\nstruct S { 1: base.B b, 2: x.X x }\n",
				"tree/base.thrift":  "struct B { 1: i32 a }\n",
				"tree/sub/x.thrift": "include \"base.thrift\"\nstruct X { 1: i32 a }\n"}},
		{name: "include string found next to an earlier includer, missing for a later one (cwd = tree root, includes at depth 2)", kind: 2,
			rule: idlmut.MissingInclude, site: "shadowed-by-other-directory", position: "used-include", edited: "b/other.thrift", depth: 1,
			files: map[string]string{
				"main.thrift":    "include \"a/user.thrift\"\ninclude \"b/other.thrift\"\nstruct S { 1: user.U u, 2: other.O o }\n",
				"a/lib.thrift":   "struct L { 1: i32 a }\n",
				"a/user.thrift":  "include \"lib.thrift\"\nstruct U { 1: lib.L l }\n",
				"b/other.thrift": "include \"lib.thrift\"\nstruct O { 1: i32 a }\n"}},
		{name: "include string found next to an earlier includer, missing three levels down", kind: 2,
			rule: idlmut.MissingInclude, site: "shadowed-by-other-directory/deep", position: "unused-include", edited: "b/in/other.thrift", depth: 2,
			files: map[string]string{
				"main.thrift":       "include \"a/user.thrift\"\ninclude \"b/mid.thrift\"\nstruct S { 1: i32 a }\n",
				"a/lib.thrift":      "struct L { 1: i32 a }\n",
				"a/user.thrift":     "include \"lib.thrift\"\nstruct U { 1: i32 a }\n",
				"b/mid.thrift":      "include \"in/other.thrift\"\nstruct M { 1: i32 a }\n",
				"b/in/other.thrift": "include \"lib.thrift\"\nstruct O { 1: i32 a }\n"}},
	}
	// near misses: valid trees at the boundary of a rule; both the model and the binary
	// must ACCEPT them (an over-eager check shows up as a correspondence break)
	near := []struct{ name, text string }{
		{"enum values at the int32 bounds", "enum E { LO = -2147483648, HI = 2147483647, Z = 0 }\n"},
		{"union with exactly one default", "union U { 1: i32 a = 1, 2: i32 b, 3: string c }\n"},
		{"the same id in the arguments and in the throws of one function, and in two functions",
			"exception E1 {}\nservice S { void f(1: i32 a) throws (1: E1 e), i32 g(1: i32 a, 2: i32 b) throws (1: E1 e) }\n"},
		{"throws id 0 on a void function", "exception E1 {}\nservice S { void f() throws (0: E1 e) }\n"},
		{"the same field name and id in different structs, the same value name in different enums",
			"struct A { 1: i32 x }\nstruct B { 1: i32 x }\nexception X { 1: i32 x }\nenum E1 { V = 1 }\nenum E2 { V = 1 }\n"},
		{"oneway void function without throws, void function with throws", "exception E1 {}\nservice S { oneway void f(1: i32 a), void g() throws (1: E1 e) }\n"},
		{"typedef chain of length 3 written backwards, enum value through it by number",
			"typedef T2 T3\ntypedef T1 T2\ntypedef E T1\nenum E { A = 1 }\nstruct S { 1: T3 t = 1, 2: list<T3> l }\n"},
		{"every scalar with every written form it can hold",
			"const bool b1 = 1\nconst bool b2 = true\nconst i32 i1 = 5\nconst i32 i2 = true\nconst double d1 = 5\nconst double d2 = 1.5\nconst string s1 = \"x\"\nconst binary s2 = \"y\"\nconst i32 i3 = i1\nconst string s3 = s1\n"},
		{"struct literal naming every field, empty struct literal, list of literals",
			"struct T { 1: i32 a, 2: string b }\nconst T t1 = {\"a\": 1, \"b\": \"x\"}\nconst T t2 = {}\nconst list<T> t3 = [{\"a\": 2}]\nstruct U { 1: T t = {\"a\": 3} }\n"},
		{"a service extending a service of the same file", "service Base { void f() }\nservice S extends Base { void g() }\n"},
	}
	for _, n := range near {
		c = append(c, corpusEntry{name: "near miss: " + n.name, kind: 0, site: "near-miss", files: one(n.text)})
	}
	c = append(c,
		corpusEntry{name: "near miss: one include string resolving to a different file for each includer, and a long resolvable typedef chain", kind: 0, site: "near-miss",
			files: map[string]string{
				"main.thrift":    "include \"a/user.thrift\"\ninclude \"b/other.thrift\"\ntypedef R2 R3\ntypedef R1 R2\ntypedef R0 R1\ntypedef i32 R0\nstruct S { 1: user.U u, 2: other.O o, 3: R3 r }\n",
				"a/lib.thrift":   "namespace go a.lib\nstruct L { 1: i32 a }\n",
				"a/user.thrift":  "include \"lib.thrift\"\nstruct U { 1: lib.L l }\n",
				"b/lib.thrift":   "namespace go b.lib\nstruct LB { 1: string s }\n",
				"b/other.thrift": "include \"lib.thrift\"\nstruct O { 1: lib.LB l }\n"}},
		corpusEntry{name: "near miss: include diamond, equal definition names in different files, qualified base service and constant", kind: 0, site: "near-miss",
			files: map[string]string{
				"main.thrift": "include \"l.thrift\"\ninclude \"r.thrift\"\nstruct S { 1: l.S a, 2: r.S b, 3: i32 c = l.K }\nservice Svc extends l.Base { void g() }\n",
				"l.thrift":    "include \"b.thrift\"\nstruct S { 1: b.B x }\nconst i32 K = 1\nservice Base { void f() }\n",
				"r.thrift":    "include \"b.thrift\"\nstruct S { 1: b.B x }\nconst i32 K = 2\n",
				"b.thrift":    "struct B { 1: i32 a }\n"}},
		corpusEntry{name: "near miss: well-kinded constants in an unused include", kind: 0, site: "near-miss",
			files: map[string]string{
				"main.thrift": "include \"inc.thrift\"\nstruct S { 1: i32 t }\n",
				"inc.thrift":  "const i32 x = 1\nstruct T { 1: i32 a }\nconst T y = {\"a\": 1}\n"}})
	ok := one("struct S { 1: i32 a }\n")
	for _, cl := range idlmut.CommandLines() {
		c = append(c, corpusEntry{name: cl.What, kind: 2, rule: idlmut.BadCommandLine, site: cl.Site, files: ok, args: cl.Args})
	}
	for i := range c {
		if c[i].main == "" {
			c[i].main = "main.thrift"
		}
		if c[i].position == "" {
			c[i].position = "main"
		}
		if c[i].edited == "" {
			c[i].edited = c[i].main
		}
	}
	return c
}
