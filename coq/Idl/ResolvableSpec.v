(* Idl/ResolvableSpec.v — a decidable description of the programs symbol resolution
   accepts, written against the symbol table of the PARSED program only (Idl/ResolveSpec.v).
   Definitions only; Idl/ResolveComplete.v proves that the model succeeds on them.

     denote fuel p fn n     executable form of [name_denotes] (sound for every fuel,
                            complete with [denote_fuel p], see Idl/ResolvePath.v)
     ty_ok p fn t           the type has the shape the parser gives it (containers have
                            their element types, nothing else has children) and every
                            name in it denotes something
     base_ok p fn f sv      the base service of [sv] exists (locally / in the first include
                            with the prefix that defines a service of that name)
     includes_ok n p fn     every include below [fn] is present and the include tree below
                            [fn] is lower than [n] (no cycle)
     file_ok idok p fn f    global names distinct, every type occurrence [ty_ok], every base
                            service [base_ok], every identifier used as a value is a boolean
                            or accepted by [idok fn]
     resolvable_with idok p / resolvable_types p / resolvable p *)
From Coq Require Import List Bool Arith NArith ZArith.
From Coq.Strings Require Import Byte.
From Verif Require Import Base.Bytes Idl.Ast Idl.AstUtil Idl.Resolve Idl.ResolveSpec.
Import ListNotations.

Definition denote_def (rec : bytes -> bytes -> option tdef) (p : program) (fn a : bytes) : option tdef :=
  match def_of p fn a with
  | Some (DkEnum _) => Some (TEnum fn a)
  | Some (DkStruct k) => Some (TStruct fn a k)
  | Some (DkTypedef tgt) => rec fn tgt
  | _ => None
  end.

Fixpoint denote (fuel : nat) (p : program) (fn n : bytes) : option tdef :=
  match fuel with
  | O => None
  | S k =>
    match builtin_category n with
    | Some c => Some (TBuiltin c)
    | None =>
      match split_type n with
      | [a] => denote_def (denote k p) p fn a
      | [pre; m] =>
        match prog_file p fn with
        | Some f =>
          match spec_include p is_type_kind pre m (file_incs f) 0 with
          | Some (_, gn) => denote_def (denote k p) p gn m
          | None => None
          end
        | None => None
        end
      | _ => None
      end
    end
  end.

(* one level per typedef hop and one for the end of the chain *)
Definition denote_fuel (p : program) : nat := prog_typedef_count p + 2.

Definition denotes_b (p : program) (fn n : bytes) : bool :=
  match denote (denote_fuel p) p fn n with Some _ => true | None => false end.

Fixpoint ty_ok (p : program) (fn : bytes) (t : ty) : bool :=
  match t with
  | Ty n k v _ _ _ _ _ =>
    match builtin_category n with
    | Some CatMap =>
      match k, v with Some a, Some b => ty_ok p fn a && ty_ok p fn b | _, _ => false end
    | Some CatList | Some CatSet =>
      match k, v with None, Some b => ty_ok p fn b | _, _ => false end
    | Some _ => match k, v with None, None => true | _, _ => false end
    | None => match k, v with None, None => denotes_b p fn n | _, _ => false end
    end
  end.

Definition base_ok (p : program) (fn : bytes) (f : file) (sv : service) : bool :=
  match split_type (sv_extends sv) with
  | [a] => match def_of p fn a with Some DkService => true | _ => false end
  | [pre; m] => match spec_include p is_service_kind pre m (file_incs f) 0 with Some _ => true | None => false end
  | _ => true
  end.

(* the type of a void function is the leaf the parser builds *)
Definition void_ok (fu : function) : bool :=
  if fn_void fu then
    match ty_key (fn_type fu), ty_value (fn_type fu) with
    | None, None => negb (is_typedef_cat (ty_category (fn_type fu)))
    | _, _ => false
    end
  else true.

Fixpoint nodupb (l : list bytes) : bool :=
  match l with
  | [] => true
  | x :: r => negb (existsb (beqb x) r) && nodupb r
  end.

(* every identifier of the value is "true" / "false" or accepted by [ok] *)
Fixpoint cv_idents_ok (ok : bytes -> bool) (c : const_value) : bool :=
  match c with
  | CIdent s _ => ident_is_bool s || ok s
  | CList l => forallb (cv_idents_ok ok) l
  | CMap l => forallb (fun kv => cv_idents_ok ok (fst kv) && cv_idents_ok ok (snd kv)) l
  | _ => true
  end.

Definition file_ok (idok : bytes -> bytes -> bool) (p : program) (fn : bytes) (f : file) : bool :=
  nodupb (map fst (file_defs f)) &&
  forallb (ty_ok p fn) (file_top_occs f) &&
  forallb (base_ok p fn f) (f_services f) &&
  forallb (fun sv => forallb void_ok (sv_functions sv)) (f_services f) &&
  forallb (cv_idents_ok (idok fn)) (file_top_const_values f).

Fixpoint includes_ok (fuel : nat) (p : program) (fn : bytes) : bool :=
  match fuel with
  | O => false
  | S k =>
    match prog_file p fn with
    | None => false
    | Some f =>
      forallb (fun i => match in_ref i with Some g => includes_ok k p g | None => false end) (f_includes f)
    end
  end.

Definition resolvable_with (idok : bytes -> bytes -> bool) (p : program) : bool :=
  match p with
  | [] => true
  | (mainfn, _) :: _ =>
    includes_ok (S (List.length p)) p mainfn && forallb (fun e => file_ok idok p (fst e) (snd e)) p
  end.

(* the type / service part alone: no identifier is used as a value except true / false *)
Definition resolvable_types (p : program) : bool := resolvable_with (fun _ _ => false) p.
