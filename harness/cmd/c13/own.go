package main

import (
	"encoding/json"

	"verif/harness/maskkit"
	"verif/harness/schemagen"
	"verif/harness/valgen"
)

// field_mask_halfway: a mask the user sets on a NON-ROOT struct value (driver verb mwrite_own).
// The sub object is reached from the root through struct-typed fields; its mask is a
// value-directed list over the sub object's own descriptor; the root carries the nil mask or a
// list of its own. Compared on the default unit (the sub object's mask is overwritten) and on the
// halfway unit (it wins).

type ownSpec struct {
	Path []int
	Root *maskSpec
	Own  *maskSpec
}

func (o *ownSpec) pathJSON() string {
	b, _ := json.Marshal(o.Path)
	return string(b)
}

type ownSite struct {
	path []int
	s    *schemagen.Struct
	v    *valgen.Value
}

func ownSites(p *schemagen.Program, s *schemagen.Struct, v *valgen.Value, prefix []int, depth int, out *[]ownSite) {
	if v == nil || v.K != "struct" {
		return
	}
	seen := map[int]bool{}
	for _, f := range s.Fields {
		if seen[f.ID] {
			continue
		}
		seen[f.ID] = true
		if f.Type.Kind != "struct" {
			continue
		}
		ns := p.Struct(f.Type.Name)
		fv := v.Field(f.ID)
		if ns == nil || ns.Kind != "struct" || fv == nil || fv.K != "struct" {
			continue
		}
		path := append(append([]int(nil), prefix...), f.ID)
		*out = append(*out, ownSite{path: path, s: ns, v: fv})
		if depth > 0 {
			ownSites(p, ns, fv, path, depth-1, out)
		}
	}
}

func (g *pgen) maskOf(s *schemagen.Struct, v *valgen.Value, black bool, style string) *maskSpec {
	sub := &pgen{r: g.r, prog: g.prog, black: black}
	ps := sub.domain(s, v)
	return &maskSpec{Black: black, Paths: ps, Strs: renderAll(ps), Style: style}
}

func (g *pgen) ownSpecs(s *schemagen.Struct, v *valgen.Value, n int) []*ownSpec {
	var sites []ownSite
	ownSites(g.prog, s, v, nil, 1, &sites)
	var out []*ownSpec
	for i := 0; i < n && len(sites) > 0; i++ {
		site := sites[g.r.Intn(len(sites))]
		o := &ownSpec{Path: site.path}
		if g.r.Bool() {
			o.Root = &maskSpec{Nil: true, Style: "nil"}
		} else {
			o.Root = g.maskOf(s, v, g.r.Chance(2, 5), "own-root")
		}
		if g.r.Chance(1, 8) {
			o.Own = &maskSpec{Nil: true, Style: "nil"}
		} else {
			o.Own = g.maskOf(site.s, site.v, g.r.Chance(2, 5), "own")
		}
		out = append(out, o)
	}
	return out
}

// corpus: a.S.rq (6: required Rq) and a.S.rq.r (1: required In)
func corpusOwns() []*ownSpec {
	mk := func(black bool, ps ...maskkit.Path) *maskSpec {
		return &maskSpec{Black: black, Paths: ps, Strs: renderAll(ps), Style: "corpus-own"}
	}
	nilM := func() *maskSpec { return &maskSpec{Nil: true, Style: "nil"} }
	return []*ownSpec{
		{Path: []int{6}, Root: nilM(), Own: mk(false, P(nm("r"), nm("x")))},
		{Path: []int{6}, Root: nilM(), Own: mk(true, P(nm("o")))},
		{Path: []int{6, 1}, Root: nilM(), Own: mk(false, P(nm("x")))},
		{Path: []int{6}, Root: mk(false, P(nm("rq"), nm("o")), P(nm("l"), ix(0))), Own: mk(false, P(nm("r"), nm("y")))},
		{Path: []int{6, 1}, Root: mk(true, P(nm("rq"), nm("r"), nm("x"))), Own: mk(true, P(nm("y")))},
		{Path: []int{6}, Root: mk(false, P(nm("l"))), Own: mk(false, P(nm("o")))},
		{Path: []int{6}, Root: mk(false, P(nm("rq"))), Own: nilM()},
	}
}
