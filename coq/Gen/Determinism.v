(* Gen/Determinism.v — permutation-invariance library for C07.
   Go map iteration delivers the entries of a map in an arbitrary order chosen by the
   runtime: an emitter that consumes a map sees SOME permutation of its entries.  The lemmas
   here say when the emitted result does not depend on that permutation. *)
From Coq Require Import List Arith Bool Lia Permutation Sorted.
From Coq.Strings Require Import Byte.
From Verif Require Import Base.Bytes Gen.FileManager.
Import ListNotations.

Section Sorting.
  Variable A : Type.
  Variable leb : A -> A -> bool.
  Hypothesis leb_total : forall x y, leb x y = true \/ leb y x = true.
  Hypothesis leb_trans : forall x y z, leb x y = true -> leb y z = true -> leb x z = true.
  (* keys are distinct: two different elements are never equivalent *)
  Hypothesis leb_antisym : forall x y, leb x y = true -> leb y x = true -> x = y.

  Fixpoint insert (x : A) (l : list A) : list A :=
    match l with
    | [] => [x]
    | y :: r => if leb x y then x :: l else y :: insert x r
    end.
  Fixpoint isort (l : list A) : list A :=
    match l with [] => [] | x :: r => insert x (isort r) end.

  Definition le (x y : A) : Prop := leb x y = true.

  Lemma insert_perm x l : Permutation (x :: l) (insert x l).
  Proof.
    induction l as [|y r IH]; cbn; [reflexivity|].
    destruct (leb x y); [reflexivity|].
    rewrite perm_swap. constructor. exact IH.
  Qed.

  Lemma isort_perm l : Permutation l (isort l).
  Proof.
    induction l as [|x r IH]; cbn; [reflexivity|].
    rewrite <- insert_perm. constructor. exact IH.
  Qed.

  Lemma insert_sorted x l : StronglySorted le l -> StronglySorted le (insert x l).
  Proof.
    induction l as [|y r IH]; cbn; intro H.
    - constructor; constructor.
    - inversion H as [|? ? Hr Hy]; subst.
      destruct (leb x y) eqn:E.
      + constructor; [assumption|]. constructor; [exact E|].
        rewrite Forall_forall in *. intros z Hz. eapply leb_trans; [exact E | apply Hy; assumption].
      + constructor; [apply IH; assumption|].
        assert (Hyx : le y x) by (destruct (leb_total x y) as [H1|H1]; [congruence | exact H1]).
        rewrite Forall_forall in *. intros z Hz.
        apply (Permutation_in _ (Permutation_sym (insert_perm x r))) in Hz.
        destruct Hz as [<-|Hz]; [exact Hyx | apply Hy; assumption].
  Qed.

  Lemma isort_sorted l : StronglySorted le (isort l).
  Proof. induction l as [|x r IH]; cbn; [constructor | apply insert_sorted; exact IH]. Qed.

  (* two sorted lists with the same elements are equal *)
  Lemma sorted_perm_eq l : forall l', StronglySorted le l -> StronglySorted le l' ->
    Permutation l l' -> l = l'.
  Proof.
    induction l as [|x r IH]; intros l' Hs Hs' Hp.
    - apply Permutation_nil in Hp. subst; reflexivity.
    - destruct l' as [|y r']; [apply Permutation_sym, Permutation_nil in Hp; discriminate|].
      inversion Hs as [|? ? Hr Hx]; subst. inversion Hs' as [|? ? Hr' Hy]; subst.
      assert (x = y) as ->.
      { rewrite Forall_forall in Hx, Hy.
        assert (Hin1 : In x (y :: r')) by (eapply Permutation_in; [exact Hp | left; reflexivity]).
        assert (Hin2 : In y (x :: r)) by (eapply Permutation_in; [apply Permutation_sym; exact Hp | left; reflexivity]).
        destruct Hin1 as [->|Hin1]; [reflexivity|].
        destruct Hin2 as [->|Hin2]; [reflexivity|].
        apply leb_antisym; [apply Hx; assumption | apply Hy; assumption]. }
      f_equal. apply IH; try assumption. eapply Permutation_cons_inv; exact Hp.
  Qed.

  (* an emitter that sorts what it got from the map before emitting is deterministic *)
  Theorem sort_then_emit_perm_invariant (B : Type) (emit : list A -> B) l l' :
    Permutation l l' -> emit (isort l) = emit (isort l').
  Proof.
    intro Hp. f_equal. apply sorted_perm_eq; try apply isort_sorted.
    rewrite <- (isort_perm l), <- (isort_perm l'). exact Hp.
  Qed.
End Sorting.

(* a fold whose step commutes is insensitive to the order (set/map insertion, counters, marks) *)
Section CommFold.
  Variables A S : Type.
  Variable step : S -> A -> S.
  Hypothesis step_comm : forall s x y, step (step s x) y = step (step s y) x.

  Theorem commutative_fold_perm_invariant l l' :
    Permutation l l' -> forall s, fold_left step l s = fold_left step l' s.
  Proof.
    induction 1 as [|x l l' Hp IH|x y l|l l' l'' H1 IH1 H2 IH2]; intros s; cbn.
    - reflexivity.
    - apply IH.
    - rewrite step_comm. reflexivity.
    - rewrite IH1. apply IH2.
  Qed.
End CommFold.

(* strings.NewReplacer over the pairs of a map: when no key is a prefix of another, at most one
   key matches at any position, so the order in which the pairs were listed is irrelevant *)
Definition prefix_free (ks : list bytes) : Prop :=
  forall a b, In a ks -> In b ks -> forall s, is_prefix a s = true -> is_prefix b s = true -> a = b.

Lemma first_match_In pairs s k v : first_match pairs s = Some (k, v) ->
  In (k, v) pairs /\ is_prefix k s = true.
Proof.
  induction pairs as [|[k' v'] pairs IH]; cbn; [discriminate|].
  destruct (is_prefix k' s) eqn:E.
  - intros [= -> ->]. split; [left; reflexivity | exact E].
  - intro H. apply IH in H. destruct H; split; [right|]; assumption.
Qed.

Lemma first_match_None pairs s : first_match pairs s = None ->
  forall k v, In (k, v) pairs -> is_prefix k s = false.
Proof.
  induction pairs as [|[k' v'] pairs IH]; cbn; [intros _ k v []|].
  destruct (is_prefix k' s) eqn:E; [discriminate|].
  intros H k v [Heq|Hin]; [|eapply IH; eassumption].
  assert (k = k') as -> by congruence. exact E.
Qed.

Lemma first_match_some_of_In pairs s k v :
  In (k, v) pairs -> is_prefix k s = true -> exists k' v', first_match pairs s = Some (k', v').
Proof.
  intros Hin Hp. destruct (first_match pairs s) as [[k' v']|] eqn:E; [eauto|].
  rewrite (first_match_None _ _ E k v Hin) in Hp. discriminate.
Qed.

Lemma first_match_perm pairs pairs' s :
  NoDup (map fst pairs) -> prefix_free (map fst pairs) -> Permutation pairs pairs' ->
  first_match pairs s = first_match pairs' s.
Proof.
  intros Hnd Hpf Hperm.
  destruct (first_match pairs s) as [[k v]|] eqn:E1; destruct (first_match pairs' s) as [[k' v']|] eqn:E2; try reflexivity.
  - apply first_match_In in E1. apply first_match_In in E2. destruct E1 as [I1 P1], E2 as [I2 P2].
    apply (Permutation_in _ (Permutation_sym Hperm)) in I2.
    assert (k = k') as <-.
    { apply (Hpf k k') with (s := s); try assumption; apply in_map_iff; [exists (k, v) | exists (k', v')]; auto. }
    f_equal. f_equal.
    clear - Hnd I1 I2. induction pairs as [|[a b] pairs IH]; [destruct I1|].
    cbn in Hnd. inversion Hnd as [|? ? Hn Hr]; subst.
    destruct I1 as [I1|I1], I2 as [I2|I2].
    + congruence.
    + exfalso. apply Hn. apply in_map_iff. exists (k, v'). split; [cbn; congruence | assumption].
    + exfalso. apply Hn. apply in_map_iff. exists (k, v). split; [cbn; congruence | assumption].
    + apply IH; assumption.
  - apply first_match_In in E1. destruct E1 as [I1 P1].
    apply (Permutation_in _ Hperm) in I1.
    rewrite (first_match_None _ _ E2 k v I1) in P1. discriminate.
  - apply first_match_In in E2. destruct E2 as [I2 P2].
    apply (Permutation_in _ (Permutation_sym Hperm)) in I2.
    rewrite (first_match_None _ _ E1 k' v' I2) in P2. discriminate.
Qed.

Theorem replacer_perm_invariant pairs pairs' :
  NoDup (map fst pairs) -> prefix_free (map fst pairs) -> Permutation pairs pairs' ->
  forall s, replace pairs s = replace pairs' s.
Proof.
  intros Hnd Hpf Hperm s. unfold replace. generalize 0 as skip.
  induction s as [|c s IH]; intros skip; cbn [replace_go]; [reflexivity|].
  destruct skip as [|k]; [|apply IH].
  rewrite <- (first_match_perm pairs pairs' (c :: s) Hnd Hpf Hperm).
  destruct (first_match pairs (c :: s)) as [[k v]|]; rewrite IH; reflexivity.
Qed.

(* insertion-point markers end with ')' and their names never contain ')': they are prefix free *)
Definition no_rparen (s : bytes) : Prop := ~ In x29 s.

Lemma app_prefix_split {A} (a b c d : list A) : a ++ b = c ++ d ->
  exists t, (a = c ++ t /\ d = t ++ b) \/ (c = a ++ t /\ b = t ++ d).
Proof.
  revert c; induction a as [|x a IH]; intros c H; cbn in H.
  - exists c. right. split; [reflexivity | exact H].
  - destruct c as [|y c]; cbn in H.
    + exists (x :: a). left. split; [reflexivity | symmetry; exact H].
    + injection H as -> H. destruct (IH c H) as [t [[-> ->]|[-> ->]]]; exists t; [left|right]; split; reflexivity.
Qed.

Theorem markers_prefix_free (names : list bytes) :
  Forall no_rparen names -> prefix_free (map marker names).
Proof.
  intros Hall a b Ha Hb s Pa Pb.
  apply in_map_iff in Ha. destruct Ha as [na [<- Hna]].
  apply in_map_iff in Hb. destruct Hb as [nb [<- Hnb]].
  rewrite Forall_forall in Hall. pose proof (Hall na Hna) as Hra. pose proof (Hall nb Hnb) as Hrb.
  apply is_prefix_spec in Pa. apply is_prefix_spec in Pb. destruct Pa as [ra Ea], Pb as [rb Eb].
  unfold marker in *. rewrite Ea in Eb. rewrite <- !app_assoc in Eb.
  apply app_inv_head in Eb.
  (* na ++ ")" ++ ra = nb ++ ")" ++ rb with no ')' inside na, nb *)
  destruct (app_prefix_split _ _ _ _ Eb) as [t [[E1 E2]|[E1 E2]]].
  - destruct t as [|c t]; [rewrite app_nil_r in E1; subst; reflexivity|].
    cbn in E2. injection E2 as <- _. exfalso. apply Hra. rewrite E1. apply in_app_iff. right. left. reflexivity.
  - destruct t as [|c t]; [rewrite app_nil_r in E1; subst; reflexivity|].
    cbn in E2. injection E2 as <- _. exfalso. apply Hrb. rewrite E1. apply in_app_iff. right. left. reflexivity.
Qed.
