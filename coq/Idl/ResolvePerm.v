(* Idl/ResolvePerm.v — order independence: the name table and the per-definition
   passes do not depend on the order of the definitions. *)
From Coq Require Import List Bool Arith Lia NArith ZArith Permutation Sorting.Sorted.
From Coq.Strings Require Import Byte.
From Verif Require Import Base.Bytes Idl.Ast Idl.AstUtil Idl.AstFacts Idl.Resolve Idl.ResolveSpec Idl.ResolveTd
     Idl.ResolveLemmas.
Import ListNotations.
Local Open Scope resolve_scope.

(* ---------------------------------------------------------------- the order on names *)

Lemma byte_to_N_inj a b : Byte.to_N a = Byte.to_N b -> a = b.
Proof.
  intros H. pose proof (Byte.of_to_N a) as Ha. pose proof (Byte.of_to_N b) as Hb. rewrite H in Ha. congruence.
Qed.

Lemma bytes_ltb_irrefl a : bytes_ltb a a = false.
Proof. induction a as [|x a IH]; cbn [bytes_ltb]; [reflexivity|]. rewrite N.ltb_irrefl. exact IH. Qed.

Lemma bytes_ltb_trans a : forall b c, bytes_ltb a b = true -> bytes_ltb b c = true -> bytes_ltb a c = true.
Proof.
  induction a as [|x a IH]; intros [|y b] [|z c]; cbn [bytes_ltb]; try discriminate; try reflexivity.
  destruct (Byte.to_N x <? Byte.to_N y)%N eqn:Exy.
  - intros _. apply N.ltb_lt in Exy. destruct (Byte.to_N y <? Byte.to_N z)%N eqn:Eyz.
    + intros _. apply N.ltb_lt in Eyz. assert (Byte.to_N x <? Byte.to_N z = true)%N as -> by (apply N.ltb_lt; lia). reflexivity.
    + destruct (Byte.to_N z <? Byte.to_N y)%N eqn:Ezy; [discriminate|]. intros _.
      apply N.ltb_ge in Eyz, Ezy. assert (Byte.to_N x <? Byte.to_N z = true)%N as -> by (apply N.ltb_lt; lia). reflexivity.
  - destruct (Byte.to_N y <? Byte.to_N x)%N eqn:Eyx; [discriminate|]. apply N.ltb_ge in Exy, Eyx.
    assert (Byte.to_N x = Byte.to_N y) as Exy' by lia. rewrite Exy'. intros Hab.
    destruct (Byte.to_N y <? Byte.to_N z)%N; [reflexivity|]. destruct (Byte.to_N z <? Byte.to_N y)%N; [discriminate|].
    apply IH. exact Hab.
Qed.

Lemma bytes_ltb_total a : forall b, a <> b -> bytes_ltb a b = true \/ bytes_ltb b a = true.
Proof.
  induction a as [|x a IH]; intros [|y b] Hne; cbn [bytes_ltb].
  { congruence. } { auto. } { auto. }
  destruct (Byte.to_N x <? Byte.to_N y)%N eqn:Exy; [auto|].
  destruct (Byte.to_N y <? Byte.to_N x)%N eqn:Eyx; [auto|].
  apply N.ltb_ge in Exy, Eyx. assert (x = y) by (apply byte_to_N_inj; lia). subst.
  apply IH. congruence.
Qed.

(* ---------------------------------------------------------------- sorted tables *)

Definition key_lt (x y : bytes * category) : Prop := bytes_ltb (fst x) (fst y) = true.

Lemma n2c_insert_In k c m x : In x (n2c_insert k c m) <-> x = (k, c) \/ In x m.
Proof.
  induction m as [|[k' c'] m IH]; cbn [n2c_insert]; [cbn; intuition|].
  destruct (bytes_ltb k k'); cbn [In]; [intuition|]. rewrite IH. cbn [In]. intuition.
Qed.

Lemma n2c_insert_sorted k c m :
  StronglySorted key_lt m -> lookup k m = None -> StronglySorted key_lt (n2c_insert k c m).
Proof.
  induction m as [|[k' c'] m IH]; intros Hs Hk; cbn [n2c_insert].
  - constructor; constructor.
  - cbn [lookup] in Hk. destruct (beqb k k') eqn:E; [discriminate|]. apply beqb_false in E.
    inversion Hs as [|? ? Hs' Hall]; subst. destruct (bytes_ltb k k') eqn:L.
    + constructor; [exact Hs|]. constructor; [exact L|].
      rewrite Forall_forall in *. intros y Hy. unfold key_lt in *. cbn [fst].
      eapply bytes_ltb_trans; [exact L | exact (Hall y Hy)].
    + constructor; [apply IH; assumption|]. rewrite Forall_forall in *. intros y Hy.
      apply n2c_insert_In in Hy. destruct Hy as [->|Hy]; [|exact (Hall y Hy)].
      unfold key_lt. cbn [fst]. destruct (bytes_ltb_total k k' E) as [H|H]; [congruence | exact H].
Qed.

Lemma register_sorted defs : forall acc m, register defs acc = Ok m -> StronglySorted key_lt acc ->
  StronglySorted key_lt m /\ forall x, In x m <-> In x acc \/ In x defs.
Proof.
  induction defs as [|[k c] defs IH]; intros acc m H Hs; cbn [register] in H.
  - injection H as <-. split; [exact Hs|]. intros x. cbn. intuition.
  - destruct (lookup k acc) eqn:Hk; [discriminate|].
    destruct (IH _ _ H (n2c_insert_sorted k c acc Hs Hk)) as (S1 & I1). split; [exact S1|].
    intros x. rewrite I1, n2c_insert_In. cbn [In]. intuition.
Qed.

Lemma register_complete defs : forall acc,
  NoDup (map fst defs) -> (forall n, In n (map fst defs) -> lookup n acc = None) ->
  exists m, register defs acc = Ok m.
Proof.
  induction defs as [|[k c] defs IH]; intros acc ND Hf; cbn [register]; [eauto|].
  cbn [map fst] in *. inversion ND as [|? ? Hn ND']; subst.
  rewrite (Hf k (or_introl eq_refl)). apply IH; [exact ND'|].
  intros n Hin. rewrite lookup_n2c_insert by (apply Hf; left; reflexivity).
  destruct (beqb n k) eqn:E; [apply beqb_true in E; subst; contradiction|]. apply Hf. right. exact Hin.
Qed.

Lemma sorted_unique (l1 l2 : list (bytes * category)) :
  StronglySorted key_lt l1 -> StronglySorted key_lt l2 -> (forall x, In x l1 <-> In x l2) -> l1 = l2.
Proof.
  revert l2. induction l1 as [|a l1 IH]; intros l2 S1 S2 Heq.
  - destruct l2 as [|b l2]; [reflexivity|]. exfalso. apply (Heq b). left. reflexivity.
  - destruct l2 as [|b l2]; [exfalso; apply (Heq a); left; reflexivity|].
    inversion S1 as [|? ? S1' A1]; inversion S2 as [|? ? S2' A2]; subst. rewrite Forall_forall in A1, A2.
    assert (a = b).
    { destruct (proj1 (Heq a) (or_introl eq_refl)) as [->|Hin]; [reflexivity|].
      destruct (proj2 (Heq b) (or_introl eq_refl)) as [->|Hin']; [reflexivity|].
      pose proof (A1 b Hin') as H1. pose proof (A2 a Hin) as H2. unfold key_lt in *.
      pose proof (bytes_ltb_trans _ _ _ H1 H2) as H3. rewrite bytes_ltb_irrefl in H3. discriminate. }
    subst b. f_equal. apply IH; [exact S1' | exact S2' |].
    intros x. split; intros Hx.
    + destruct (proj1 (Heq x) (or_intror Hx)) as [<-|H]; [|exact H]. exfalso.
      pose proof (A1 a Hx) as H1. unfold key_lt in H1. rewrite bytes_ltb_irrefl in H1. discriminate.
    + destruct (proj2 (Heq x) (or_intror Hx)) as [<-|H]; [|exact H]. exfalso.
      pose proof (A2 a Hx) as H1. unfold key_lt in H1. rewrite bytes_ltb_irrefl in H1. discriminate.
Qed.

(* RegisterNames does not depend on the order of the definitions *)
Theorem register_perm defs defs' m :
  Permutation defs defs' -> register defs [] = Ok m -> register defs' [] = Ok m.
Proof.
  intros P H. destruct (register_spec _ _ _ H) as (ND & _ & _).
  assert (ND' : NoDup (map fst defs')) by (eapply Permutation_NoDup; [apply Permutation_map; exact P | exact ND]).
  destruct (register_complete defs' [] ND' (fun _ _ => eq_refl)) as (m' & H'). rewrite H'. f_equal.
  destruct (register_sorted _ _ _ H (SSorted_nil _)) as (S1 & I1).
  destruct (register_sorted _ _ _ H' (SSorted_nil _)) as (S2 & I2).
  apply sorted_unique; [exact S2 | exact S1 |]. intros x. rewrite I1, I2. cbn [In].
  split; intros [[]|Hx]; right; [eapply Permutation_in; [apply Permutation_sym; exact P | exact Hx] | eapply Permutation_in; eauto].
Qed.

Lemma register_perm_error defs defs' e :
  Permutation defs defs' -> register defs [] = Error e -> exists e', register defs' [] = Error e'.
Proof.
  intros P H. destruct (register defs' []) as [m'|e'] eqn:H'; [|eauto].
  rewrite (register_perm defs' defs m' (Permutation_sym P) H') in H. discriminate.
Qed.

(* ---------------------------------------------------------------- mapM over a permutation *)

Lemma mapM_perm {A B} (f : A -> result B) l l' r :
  Permutation l l' -> mapM f l = Ok r -> exists r', mapM f l' = Ok r' /\ Permutation r r'.
Proof.
  intros P. revert r. induction P as [|x l l' P IH|x y l|l l' l'' P1 IH1 P2 IH2]; intros r H.
  - exists r. split; [exact H | apply Permutation_refl].
  - cbn [mapM] in *. inv_bind H. injection H as <-. destruct (IH _ E0) as (r' & -> & Pr).
    rewrite E. cbn [bind]. eexists. split; [reflexivity|]. apply perm_skip. exact Pr.
  - cbn [mapM] in *. inv_bind H. inv_bind E0. injection H as <-. injection E0 as <-.
    rewrite E1, E. cbn [bind]. rewrite E2. cbn [bind]. eexists. split; [reflexivity|]. apply perm_swap.
  - destruct (IH1 _ H) as (r1 & H1 & Pr1). destruct (IH2 _ H1) as (r2 & H2 & Pr2).
    exists r2. split; [exact H2 | eapply Permutation_trans; eauto].
Qed.
