(* Corr/C16.v — correspondence record and comparison for property C16 (IDL trimming).

   A case = a resolved program (astdump of the real AST after CheckAll + ResolveSymbols),
   a trimmer configuration, the answers of the two regexp engines for every question the
   model can ask, and what trim.TrimAST did: its result class and the astdump of the AST
   afterwards.  [k_second] says that the input is itself the output of a first trimming
   with the same configuration.

   [mismatches] returns (case index, code):
     1  model and implementation disagree                               (correspondence)
     9  the model or the specification's closure ran out of fuel        (correspondence)
     2  a definition or an include the specification needs (something needed is written
        through it) is missing from the implementation's output
     3  the output contains a struct-like the specification does not need
     4  the output contains an include the specification does not need
     5  the trimmed program does not pass semantic analysis (TrimAST failed after
        trimming, or the rendered output is rejected by parser + checker + resolver,
        or a reference of the output dangles, or resolving the stripped output with
        the model of ResolveSymbols (Idl/Resolve.v) does not give the output back)
     6  trimming the trimmed program again changed it
     7  with a method filter a function remained that matches no pattern
     8  a kept definition differs from the original (beyond resolution info)
     10 a constant, typedef or enum of the input is missing from the output
     11 the input is not a well-formed resolved program (the case is useless)
     12 TrimAST panicked
     13 the input is outside the domain of the theorem C16_trim_resolves_all (not accepted by
        C05's [resolvable], struct-like lists not by kind, or a base-service reference
        that is not the include the specification chooses)                          *)
From Coq Require Import List Arith Bool NArith ZArith.
From Coq.Strings Require Import Byte.
From Verif Require Import Base.Bytes Idl.Ast Idl.AstUtil Idl.Trim Idl.TrimSpec.
From Verif Require Idl.Resolve Idl.ResolveSpec Idl.ResolvableSpec Idl.ResolvableConst.
Import ListNotations.

Record case := mkcase {
  k_cfg : cfg;
  k_match : list (bytes * bytes);   (* (pattern, name) pairs for which MatchString is true *)
  k_bad : list bytes;               (* patterns regexp2.Compile rejects *)
  k_preserve : list bytes;          (* comments the @preserve regexp matches *)
  k_second : bool;
  k_err : N;                        (* 0 ok, 1 bad pattern, 2 error after trimming, 3 panic *)
  k_reparse : bool;                 (* rendered output accepted by parser + checker + resolver *)
  k_before : program;
  k_after : program }.

Definition table_matches (c : case) (pat name : bytes) : bool :=
  existsb (fun e => beqb (fst e) pat && beqb (snd e) name) (k_match c).
Definition table_compiles (c : case) (pat : bytes) : bool := negb (existsb (beqb pat) (k_bad c)).
Definition table_preserves (c : case) (cm : bytes) : bool := existsb (beqb cm) (k_preserve c).

Definition program_eqb_stripped (p q : program) : bool :=
  list_eqb (fun x y => beqb (fst x) (fst y) && file_eqb (strip_resolution (snd x)) (strip_resolution (snd y))) p q.

(* ---------------------------------------------------------------- reading the observation *)

Section Observe.
  Variable p : program.     (* the input *)
  Variable obs : program.   (* what the implementation left *)

  (* position of the first element with that name *)
  Definition pos_by {A} (key : A -> bytes) (name : bytes) (l : list A) : option nat :=
    option_map fst (find_index (fun x => beqb (key x) name) l).

  (* the nodes (positions in [p]) of the services and functions present in [obs] *)
  Definition observed_services_functions : list node :=
    flat_map (fun e =>
      match prog_file p (fst e) with
      | None => []
      | Some pf =>
        flat_map (fun s =>
          match find_index (fun x => beqb (sv_name x) (sv_name s)) (f_services pf) with
          | None => []
          | Some (si, ps) =>
            NService (fst e) si ::
            flat_map (fun fn => match pos_by fn_name (fn_name fn) (sv_functions ps) with
                                | Some j => [NFunction (fst e) si j]
                                | None => []
                                end) (sv_functions s)
          end) (f_services (snd e))
      end) obs.

  (* is node [n] of [p] present in [obs] (same file, same kind, same name)? *)
  Definition present (n : node) : bool :=
    match n with
    | NStructLike f k i =>
      match prog_file p f, prog_file obs f with
      | Some pf, Some qf =>
        match nth_error (sl_list k pf) i with
        | Some s => existsb (fun x => beqb (sl_name x) (sl_name s)) (sl_list k qf)
        | None => false
        end
      | _, _ => false
      end
    | NEnum f i =>
      match prog_file p f, prog_file obs f with
      | Some pf, Some qf =>
        match nth_error (f_enums pf) i with
        | Some s => existsb (fun x => beqb (en_name x) (en_name s)) (f_enums qf)
        | None => false
        end
      | _, _ => false
      end
    | NTypedef f i =>
      match prog_file p f, prog_file obs f with
      | Some pf, Some qf =>
        match nth_error (f_typedefs pf) i with
        | Some s => existsb (fun x => beqb (td_alias x) (td_alias s)) (f_typedefs qf)
        | None => false
        end
      | _, _ => false
      end
    | NService f i =>
      match prog_file p f, prog_file obs f with
      | Some pf, Some qf =>
        match nth_error (f_services pf) i with
        | Some s => existsb (fun x => beqb (sv_name x) (sv_name s)) (f_services qf)
        | None => false
        end
      | _, _ => false
      end
    | NFunction f i j =>
      match prog_file p f, prog_file obs f with
      | Some pf, Some qf =>
        match nth_error (f_services pf) i with
        | Some s =>
          match nth_error (sv_functions s) j with
          | Some fn =>
            existsb (fun x => beqb (sv_name x) (sv_name s) &&
                              existsb (fun y => beqb (fn_name y) (fn_name fn)) (sv_functions x)) (f_services qf)
          | None => false
          end
        | None => false
        end
      | _, _ => false
      end
    | NInclude f i =>
      match prog_file p f, prog_file obs f with
      | Some pf, Some qf =>
        match nth_error (f_includes pf) i with
        | Some inc => existsb (fun x => beqb (in_path x) (in_path inc)) (f_includes qf)
        | None => false
        end
      | _, _ => false
      end
    end.

  Definition is_def_node (n : node) : bool := match n with NInclude _ _ => false | _ => true end.

  (* the struct-likes of [obs] as nodes of [p] (None: not a definition of the input) *)
  Definition present_struct_likes : list (option node) :=
    flat_map (fun e =>
      flat_map (fun k =>
        map (fun s => match prog_file p (fst e) with
                      | Some pf => option_map (fun i => NStructLike (fst e) k i) (pos_by sl_name (sl_name s) (sl_list k pf))
                      | None => None
                      end) (sl_list k (snd e))) all_kinds) obs.

  Definition present_includes : list (option (bytes * nat)) :=
    flat_map (fun e =>
      map (fun inc => match prog_file p (fst e) with
                      | Some pf => option_map (fun i => (fst e, i)) (pos_by in_path (in_path inc) (f_includes pf))
                      | None => None
                      end) (f_includes (snd e))) obs.

  (* ---- no dangling reference in the observed output (what ResolveSymbols checks, but
     on the recorded resolution info, which a second resolution pass does not refresh
     when the target is gone) *)
  Definition name2cat_has (f : file) (name : bytes) (ok : category -> bool) : bool :=
    existsb (fun d => beqb (fst d) name && ok (snd d)) (file_def_names f).
  Definition is_type_category (cat : category) : bool :=
    match cat with CatEnum | CatStruct | CatUnion | CatException | CatTypedef => true | _ => false end.
  Definition void_name : bytes := [x76; x6f; x69; x64].
  Definition prefix_of_name (n : bytes) : bytes :=
    match last_index_split dot n with Some (a, _) => a | None => [] end.

  Definition ty_ref_ok (f : file) (t : ty) : bool :=
    match ty_ref t with
    | Some r =>
      match nth_include f (ref_index r) with
      | Some inc =>
        beqb (idl_prefix (in_path inc)) (prefix_of_name (ty_name t)) &&
        match include_target obs inc with
        | Some tf => name2cat_has tf (ref_name r) is_type_category
        | None => false
        end
      | None => false
      end
    | None =>
      if is_base_type_name (ty_name t) || is_container_type_name (ty_name t) || beqb (ty_name t) void_name then true
      else name2cat_has f (ty_name t) is_type_category
    end.

  Definition sv_ref_ok (f : file) (s : service) : bool :=
    match sv_extends s with
    | [] => true
    | _ =>
      match sv_ref s with
      | Some r =>
        match nth_include f (ref_index r) with
        | Some inc =>
          beqb (idl_prefix (in_path inc)) (prefix_of_name (sv_extends s)) &&
          match include_target obs inc with
          | Some tf => name2cat_has tf (ref_name r) (fun cat => category_eqb cat CatService)
          | None => false
          end
        | None => false
        end
      | None => name2cat_has f (sv_extends s) (fun cat => category_eqb cat CatService)
      end
    end.

  Definition refs_consistent : bool :=
    forallb (fun e => forallb (ty_ref_ok (snd e)) (file_types (snd e)) &&
                      forallb (sv_ref_ok (snd e)) (f_services (snd e)) &&
                      forallb (fun inc => match include_target obs inc with Some _ => true | None => false end)
                              (f_includes (snd e))) obs.

  (* ---- kept definitions are the original ones *)
  Definition sl_unchanged (pf : file) (k : sl_kind) (s : struct_like) : bool :=
    match find_by sl_name (sl_name s) (sl_list k pf) with
    | Some o => struct_like_eqb (map_struct_like ty_strip cv_strip (fun x => x) s)
                                (map_struct_like ty_strip cv_strip (fun x => x) o)
    | None => false
    end.
  Definition fn_unchanged (ps : service) (fn : function) : bool :=
    match find_by fn_name (fn_name fn) (sv_functions ps) with
    | Some o => function_eqb (map_function ty_strip cv_strip (fun x => x) fn)
                             (map_function ty_strip cv_strip (fun x => x) o)
    | None => false
    end.
  Definition kept_defs_unchanged : bool :=
    forallb (fun e =>
      match prog_file p (fst e) with
      | None => false
      | Some pf =>
        forallb (fun k => forallb (sl_unchanged pf k) (sl_list k (snd e))) all_kinds &&
        forallb (fun s => match find_by sv_name (sv_name s) (f_services pf) with
                          | Some ps => forallb (fn_unchanged ps) (sv_functions s) &&
                                       (is_nil (sv_extends s) || beqb (sv_extends s) (sv_extends ps))
                          | None => false
                          end) (f_services (snd e))
      end) obs.

  (* ---- constants, typedefs and enums of every input file are all there *)
  Definition always_kept_present : bool :=
    forallb (fun e =>
      let pf := snd e in
      if has_enum_const_typedef pf
      then match prog_file obs (fst e) with
           | Some qf =>
             let sp := strip_resolution pf in
             let sq := strip_resolution qf in
             list_eqb constant_eqb (f_constants sp) (f_constants sq) &&
             list_eqb typedef_eqb (f_typedefs sp) (f_typedefs sq) &&
             list_eqb enum_eqb (f_enums sp) (f_enums sq)
           | None => false
           end
      else true) p.
End Observe.

(* ---- the observed output, stripped of all resolution info and resolved from scratch by the
   model of semantic.ResolveSymbols (Idl/Resolve.v, property C05), is the observed output:
   it passes symbol resolution and its recorded resolution is the right one *)
Definition resolves_to_itself (obs : program) : bool :=
  match Idl.Resolve.resolve_program (map (fun e => (fst e, strip_resolution (snd e))) obs) with
  | Idl.Resolve.Ok q => program_eqb q obs
  | Idl.Resolve.Error _ => false
  end.

(* ---- the input lies in the domain of the theorem C16_trim_resolves_all: it is accepted by
   C05's decidable test [resolvable], the three struct-like lists hold what their names say,
   and the recorded reference of every base service is the include the specification chooses
   (the hypothesis on type occurrences, [occ_good], is what C05 proves of every result of the
   resolver; it is not re-evaluated here) *)
Definition kinds_ok (p : program) : bool :=
  forallb (fun e => forallb (fun k => forallb (fun s => sl_kind_eqb (sl_category s) k) (sl_list k (snd e))) all_kinds) p.

Definition sv_ref_spec_ok (p : program) (f : file) (s : service) : bool :=
  match split_type (sv_extends s) with
  | [pre; m] =>
    match Idl.ResolveSpec.spec_include p Idl.ResolveSpec.is_service_kind pre m (Idl.ResolveSpec.file_incs f) 0 with
    | Some (i, _) => match sv_ref s with
                     | Some r => beqb (ref_name r) m && Z.eqb (ref_index r) (Z.of_nat i)
                     | None => false
                     end
    | None => false
    end
  | _ => is_none (sv_ref s)
  end.
Definition sv_refs_ok (p : program) : bool :=
  forallb (fun e => forallb (sv_ref_spec_ok p (snd e)) (f_services (snd e))) p.

Definition in_resolves_domain (p : program) : bool :=
  Idl.ResolvableConst.resolvable p && kinds_ok p && sv_refs_ok p.

(* ---------------------------------------------------------------- the method filter *)

Section Filter.
  Variable m : bytes -> bytes -> bool.
  Variable cf : cfg.
  Variable p : program.

  (* all services of the program as (file, position, service) *)
  Definition all_services : list (bytes * nat * service) :=
    flat_map (fun e => map (fun is => (fst e, fst is, snd is)) (indexed (f_services (snd e)))) p.

  (* the services from which [target] is reached through `extends` (itself included) *)
  Fixpoint derived_closure (fuel : nat) (acc : list node) : list node :=
    match fuel with
    | O => acc
    | S n =>
      let more := flat_map (fun x => match x with
                                     | (f, i, s) =>
                                       match base_of p f s with
                                       | Some (b, _) => if node_mem b acc then [NService f i] else []
                                       | None => []
                                       end
                                     end) all_services in
      derived_closure n (add_new more acc)
    end.

  Definition father_names (f : bytes) (si : nat) : list bytes :=
    flat_map (fun n => match n with
                       | NService g j => match prog_file p g with
                                         | Some gf => match nth_error (f_services gf) j with
                                                      | Some s => [sv_name s]
                                                      | None => []
                                                      end
                                         | None => []
                                         end
                       | _ => []
                       end) (derived_closure (List.length all_services) [NService f si]).

  (* every function left in [obs] matches some pattern under the name of its service or
     of a service derived from it (raw name, or Go name when match_go_name is on) *)
  Definition filter_respected (obs : program) : bool :=
    if is_nil (c_methods cf) then true
    else
      forallb (fun e =>
        match prog_file p (fst e) with
        | None => false
        | Some pf =>
          forallb (fun s =>
            match find_index (fun x => beqb (sv_name x) (sv_name s)) (f_services pf) with
            | None => false
            | Some (si, _) =>
              forallb (fun fn =>
                existsb (fun pat =>
                  existsb (fun father =>
                    m pat (qualified father (fn_name fn)) ||
                    (c_go_name cf && m pat (qualified father (to_go_name (fn_name fn)))))
                    (father_names (fst e) si)) (patterns cf p)) (sv_functions s)
            end) (f_services (snd e))
        end) obs.
End Filter.

(* ---------------------------------------------------------------- one case *)

Definition check (c : case) : list N :=
  let m := table_matches c in
  let pr := table_preserves c in
  let cf := k_cfg c in
  let p := k_before c in
  let obs := k_after c in
  let model := trim_resolved m (table_compiles c) pr cf p in
  let corr :=
    match model, k_err c with
    | Trimmed q, 0%N => if program_eqb q obs then [] else [1%N]
    | Trimmed q, 2%N => if program_eqb_stripped q obs then [] else [1%N]
    | BadPattern, 1%N => if program_eqb p obs then [] else [1%N]
    | Panics, 3%N => []
    | OutOfFuel, _ => [9%N]
    | _, _ => [1%N]
    end in
  let wf := (if wf_program p then [] else [11%N]) ++ (if in_resolves_domain p then [] else [13%N]) in
  let oracles :=
    match k_err c with
    | 0%N =>
      let K := if no_filter cf then [] else observed_services_functions p obs in
      (match needed_nodes pr cf p K with
       | None => [9%N]
       | Some nd =>
         (if forallb (fun n => present p obs n) nd then [] else [2%N]) ++
         (if forallb (fun o => match o with Some n => node_mem n nd | None => false end) (present_struct_likes p obs)
          then [] else [3%N]) ++
         (if forallb (fun o => match o with
                               | Some (f, i) => node_mem (NInclude f i) nd || include_leads_to_kept_part_b pr cf p f i
                               | None => false
                               end) (present_includes p obs)
          then [] else [4%N])
       end) ++
      (if k_reparse c && refs_consistent obs && resolves_to_itself obs then [] else [5%N]) ++
      (if k_second c then (if program_eqb p obs then [] else [6%N]) else []) ++
      (if filter_respected m cf p obs then [] else [7%N]) ++
      (if kept_defs_unchanged p obs then [] else [8%N]) ++
      (if always_kept_present p obs then [] else [10%N])
    | 2%N => [5%N]
    | 3%N => [12%N]
    | _ => []
    end in
  corr ++ wf ++ oracles.

Fixpoint mismatches_from (i : N) (cs : list case) : list (N * N) :=
  match cs with
  | [] => []
  | c :: r => map (fun code => (i, code)) (check c) ++ mismatches_from (i + 1)%N r
  end.
Definition mismatches (cs : list case) : list (N * N) := mismatches_from 0%N cs.
