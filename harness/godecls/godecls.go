// Package godecls extracts, with go/parser, what a directory of generated Go files DECLARES:
// package-level identifiers (one entry per declaration, so that a name declared twice shows up
// twice), struct fields, methods per receiver type, interface methods, and the receiver /
// parameter / result names of every method. Used by property C01 to compare the generator's
// name tables with the code it wrote and to look for identifiers declared twice in one scope.
package godecls

import (
	"go/ast"
	"go/parser"
	"go/token"
	"os"
	"path/filepath"
	"sort"
	"strings"
)

// Func is one method (of a named type or of an interface type).
type Func struct {
	Name    string   `json:"name"`
	Recv    string   `json:"recv,omitempty"`   // receiver variable name ("" for interface methods or unnamed receivers)
	Params  []string `json:"params"`           // parameter names in order (unnamed parameters are skipped)
	Results []string `json:"results"`          // named results in order
}

// Type is one package-level type declaration.
type Type struct {
	Name      string   `json:"name"`
	Kind      string   `json:"kind"`             // struct | interface | alias | other
	Fields    []string `json:"fields,omitempty"` // struct: field names (embedded: the type's base name), one per declaration
	Interface []Func   `json:"iface,omitempty"`  // interface: its explicit methods
	Methods   []Func   `json:"methods,omitempty"`// methods declared with this receiver base type
}

// Package is everything declared in one directory.
type Package struct {
	Dir    string   `json:"dir"`
	Files  []string `json:"files"`
	Idents []string `json:"idents"` // package-level declared identifiers (types, funcs, vars, consts), duplicates kept, "_" and init dropped, sorted
	Types  []*Type  `json:"types"`  // in order of appearance (a type declared twice appears twice)
	Orphan []Func   `json:"orphan_methods,omitempty"` // methods whose receiver type is not declared in the directory
	Bad    []string `json:"unparsable,omitempty"`
}

func fieldNames(fl *ast.FieldList, embedded bool) []string {
	var out []string
	if fl == nil {
		return out
	}
	for _, f := range fl.List {
		if len(f.Names) == 0 {
			if embedded {
				out = append(out, baseTypeName(f.Type))
			}
			continue
		}
		for _, n := range f.Names {
			if n.Name != "_" {
				out = append(out, n.Name)
			}
		}
	}
	return out
}

func baseTypeName(e ast.Expr) string {
	switch t := e.(type) {
	case *ast.StarExpr:
		return baseTypeName(t.X)
	case *ast.SelectorExpr:
		return t.Sel.Name
	case *ast.Ident:
		return t.Name
	case *ast.IndexExpr:
		return baseTypeName(t.X)
	case *ast.ParenExpr:
		return baseTypeName(t.X)
	}
	return ""
}

func funcOf(name string, recv *ast.FieldList, ft *ast.FuncType) Func {
	f := Func{Name: name, Params: fieldNames(ft.Params, false), Results: fieldNames(ft.Results, false)}
	if recv != nil && len(recv.List) == 1 && len(recv.List[0].Names) == 1 {
		f.Recv = recv.List[0].Names[0].Name
	}
	if f.Params == nil {
		f.Params = []string{}
	}
	if f.Results == nil {
		f.Results = []string{}
	}
	return f
}

// Dir parses every .go file directly inside dir.
func Dir(dir string) (*Package, error) {
	ents, err := os.ReadDir(dir)
	if err != nil {
		return nil, err
	}
	p := &Package{Dir: dir}
	byName := map[string][]*Type{}
	type meth struct {
		recv string
		f    Func
	}
	var meths []meth
	for _, e := range ents {
		if e.IsDir() || !strings.HasSuffix(e.Name(), ".go") {
			continue
		}
		p.Files = append(p.Files, e.Name())
		fset := token.NewFileSet()
		file, perr := parser.ParseFile(fset, filepath.Join(dir, e.Name()), nil, parser.SkipObjectResolution)
		if perr != nil {
			p.Bad = append(p.Bad, e.Name())
			continue
		}
		for _, d := range file.Decls {
			switch x := d.(type) {
			case *ast.FuncDecl:
				if x.Recv != nil && len(x.Recv.List) > 0 {
					meths = append(meths, meth{baseTypeName(x.Recv.List[0].Type), funcOf(x.Name.Name, x.Recv, x.Type)})
					continue
				}
				if x.Name.Name != "_" && x.Name.Name != "init" {
					p.Idents = append(p.Idents, x.Name.Name)
				}
			case *ast.GenDecl:
				for _, s := range x.Specs {
					switch sp := s.(type) {
					case *ast.TypeSpec:
						if sp.Name.Name == "_" {
							continue
						}
						p.Idents = append(p.Idents, sp.Name.Name)
						t := &Type{Name: sp.Name.Name, Kind: "other"}
						if sp.Assign.IsValid() {
							t.Kind = "alias"
						}
						switch tt := sp.Type.(type) {
						case *ast.StructType:
							t.Kind = "struct"
							t.Fields = fieldNames(tt.Fields, true)
						case *ast.InterfaceType:
							t.Kind = "interface"
							if tt.Methods != nil {
								for _, m := range tt.Methods.List {
									if ft, ok := m.Type.(*ast.FuncType); ok && len(m.Names) == 1 {
										t.Interface = append(t.Interface, funcOf(m.Names[0].Name, nil, ft))
									}
								}
							}
						}
						p.Types = append(p.Types, t)
						byName[t.Name] = append(byName[t.Name], t)
					case *ast.ValueSpec:
						for _, n := range sp.Names {
							if n.Name != "_" {
								p.Idents = append(p.Idents, n.Name)
							}
						}
					}
				}
			}
		}
	}
	for _, m := range meths {
		if ts := byName[m.recv]; len(ts) > 0 {
			ts[0].Methods = append(ts[0].Methods, m.f)
		} else {
			p.Orphan = append(p.Orphan, m.f)
		}
	}
	sort.Strings(p.Idents)
	sort.Strings(p.Files)
	return p, nil
}
