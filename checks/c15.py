"""C15 — reflection descriptors describe the IDL exactly (thrift_reflection/*, the reflection templates,
generator/golang/extension/meta/register.go, utils/name_utils.go)."""
import json
import os
import vlib


class S(vlib.Spec):
    prop = "C15"
    design_ref = "DESIGN.md section 3 / C15"
    coq_targets = ["Props/C15.vo", "Corr/C15.vo"]
    props_file = "Props/C15.v"
    harness_pkg = "./cmd/c15"
    harness_name = "c15"
    needs_thriftgo = True
    corr_codes = {1, 9}
    code_names = {
        1: "model and implementation disagree",
        2: "the struct / union / exception descriptors do not state what the IDL states (names, ids, requiredness, type expressions, defaults, annotations, comments)",
        3: "the enum descriptors do not state what the IDL states (names, numbers, annotations, comments)",
        4: "the typedef descriptors do not state what the IDL states",
        5: "the service / method descriptors do not state what the IDL states (base service, oneway, response, arguments, throws)",
        6: "the constant descriptors do not state what the IDL states",
        7: "the descriptor does not state the includes of the file",
        8: "the descriptor does not state the namespaces of the file",
        10: "Marshal failed or Unmarshal (Marshal d) is not d",
        11: "a lookup by name does not find the entry the IDL means",
        12: "a field lookup by name or id finds the wrong field",
        13: "a method / parent service lookup finds the wrong entry, or GetAllMethods is not the methods of the service followed by those of its base services",
        14: "a Go type does not map to its own descriptor and back",
        15: "the real code panicked, or a generated package did not register the descriptor of its file",
        16: "a Filepath inside the descriptor is not the path of the file",
    }
    names = {2: "struct-descriptors", 3: "enum-descriptors", 4: "typedef-descriptors", 5: "service-descriptors",
             6: "const-descriptors", 7: "includes", 8: "namespaces", 10: "marshal-roundtrip", 11: "lookup-by-name",
             12: "field-lookup", 13: "method-lookup", 14: "go-type-map", 15: "panic", 16: "filepath"}
    modelled = ("thrift_reflection/descriptor_creater.go GetFileDescriptor and helpers, utils/name_utils.go GetAnnotationsAsMap / ParseAlias / IsBasic / IsContainer, "
                "descriptor_marshal.go + generator/golang/extension/meta/register.go instance.Write / instance.Read (as the Thrift binary encoding at the schema "
                "regenerated from descriptor.thrift: field ids, wire types and requiredness read from coq/Wire/SchemaDescriptor.v), descriptor_register.go doRegisterAST, "
                "descriptor-extend.go GetIncludeFD / getDescriptor / Get*Descriptor / field and method lookups / GetParent / GetAllMethods / TypeDescriptor resolvers, "
                "descriptor_lookup.go Lookup*, descriptor_register_go_type.go registerGoTypes and the by-Go-type lookups -> coq/Idl/Reflect.v "
                "(hand-written, after the repairs proposed_fixes/C15-namespaces-first-wins and C15-include-prefix-any-extension), tied by correspondence on every run, in process and through compiled generated code")
    trusted_base = [
        "translator T-thrift (harness/thriftschema + cmd/translate-thrift: real parser + semantic.ResolveSymbols -> Wire.Schema.env term) regenerates coq/Wire/SchemaDescriptor.v from thrift_reflection/descriptor.thrift on every check",
        "hand-written model coq/Idl/Reflect.v; wire codec model coq/Wire/Codec.v (Thrift binary protocol) shared with C02; the meta.RegisterStruct tables embedded in thrift_reflection/descriptor.go are not read: the bytes of the real Marshal are decoded with the regenerated schema in every file case",
        "compress/gzip is not modelled: zip / unzip are Section variables with the hypothesis unzip (zip x) = Some x (the harness gunzips the real bytes before they enter Coq, and checks Unmarshal (Marshal d) on the real code)",
        "Go maps as association lists with pairwise distinct keys, pointers (descriptors, value_map keys) as positions; reflect.Type as an abstract type with a decidable equality",
        "harness/cmd/c15 (drives GetFileDescriptor / Marshal / Unmarshal / RegisterAST / BuildFileDescriptor and every lookup in process; per program one scratch module with the code the real thriftgo binary generates with with_reflection), "
        "harness/gendrv + gendrv/driver/c15_reflect.go (dumps what the generated packages registered and checks type <-> descriptor), harness/refldump, astdump, idlast, idlgen, coqfmt, casefile, lib/vlib.py",
        "the semantic pass (ty_ref / ty_category / sv_ref of the resolved AST) is the reference for what a qualified name means: evaluated per case on the real resolved AST, and proved against property C05's model Idl/Resolve.v (C15_qualified_type_lookup_right, C15_base_service_lookup_right; that model is tied to the real pass by C05's own check)",
    ]
    assumptions = [
        "descriptor_faithful takes the parser's guarantee that the annotations of a node have pairwise distinct keys (file_annos_ok: Annotations.Append groups repeated keys) as a decidable premise; the correspondence never sees it violated",
        "includes_faithful and the lookups through an include prefix assume distinct_basenames (no two includes of a file share a base name) and includes_plain (every include parsed, found under the base name the statement wrote); without the first the unchanged code violates the property (known finding)",
        "lookups without a file path range over a Go map: the theorem about them assumes the name is defined by exactly one registered file",
    ]

    def translators(self, ctx):
        ok, log, b = vlib.go_build("./cmd/translate-thrift", "translate-thrift")
        if not ok:
            raise RuntimeError("translate-thrift build failed: " + log[-2000:])
        rc, out = vlib.sh([b, "-name", "schema_descriptor", "-out", os.path.join(vlib.COQ, "Wire", "SchemaDescriptor.v"),
                           os.path.join(vlib.REPO, "thrift_reflection", "descriptor.thrift")])
        if rc != 0:
            raise RuntimeError("T-thrift failed: " + out[-2000:])
        return ["T-thrift: thrift_reflection/descriptor.thrift -> coq/Wire/SchemaDescriptor.v (" + out.strip().splitlines()[-1] + ")"]

    def producer_args(self, ctx):
        return ["-seed", str(ctx.seed), "-tier", ctx.tier, "-out", ctx.out, "-thriftgo", ctx.thriftgo,
                "-repo", vlib.REPO, "-scratch", os.path.join(ctx.scratch, "gen")]

    def classify(self, code, case):
        case = case or {}
        dup = case.get("dup_include_basenames")
        if code == 7 and dup:
            return "C15-includes-same-basename"
        if code == 11 and dup and case.get("kind") == "lookup":
            return "C15-lookup-through-same-basename-include"
        return "C15-%s-%s" % (self.names.get(code, "code-%d" % code), case.get("kind", "?"))

    def search(self, ctx):
        return None


def run(tier):
    return vlib.standard_run(S(), tier)


def replay(path):
    obj = json.load(open(path))
    print(json.dumps(obj, indent=1)[:8000])
    return 0
