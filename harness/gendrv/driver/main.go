// Driver: a generic, reflection-based command interpreter that is compiled together with
// thriftgo-generated packages (gendrv copies every *.go file of this directory into a scratch
// module and adds a generated registry.go that imports the generated packages).
//
// Protocol: argv[1] is a command file, one command per line, tab separated:
//
//	<verb> \t <arg1> \t <arg2> ...
//
// For every line the driver prints exactly one line "<line index>\t<JSON object>". A Go panic in a
// handler is recovered and reported as {"panic":true,"msg":...}.
//
// Adding an observation kind = adding a Go file to this directory whose init() calls
// RegisterCommand("verb", handler). Handlers get the arguments and return any JSON-marshalable
// value. Helpers available to handlers: New / NewZero (construct a registered type), Fill / Dump
// (JSON value form <-> Go object, fields located by their thrift struct tags), Classify (error ->
// small enum), ThriftFields (the tags of a struct type).
package main

import (
	"bufio"
	"encoding/json"
	"fmt"
	"os"
	"strings"
)

// registry: "<unit>|<file>.<IDL name>" -> constructor (NewX of the generated package)
var registry = map[string]func() interface{}{}

// Register is called by the generated registry.go.
func Register(unit, qname string, ctor func() interface{}) { registry[unit+"|"+qname] = ctor }

type Handler func(args []string) interface{}

var handlers = map[string]Handler{}

// RegisterCommand adds a verb.
func RegisterCommand(verb string, h Handler) { handlers[verb] = h }

func runOne(verb string, args []string) (out interface{}) {
	defer func() {
		if r := recover(); r != nil {
			out = map[string]interface{}{"panic": true, "msg": fmt.Sprint(r)}
		}
	}()
	h, ok := handlers[verb]
	if !ok {
		return map[string]interface{}{"unknown_verb": verb}
	}
	return h(args)
}

func main() {
	if len(os.Args) < 2 {
		fmt.Fprintln(os.Stderr, "usage: drv <command file>")
		os.Exit(2)
	}
	f, err := os.Open(os.Args[1])
	if err != nil {
		fmt.Fprintln(os.Stderr, err)
		os.Exit(2)
	}
	defer f.Close()
	sc := bufio.NewScanner(f)
	sc.Buffer(make([]byte, 1<<20), 1<<28)
	w := bufio.NewWriterSize(os.Stdout, 1<<20)
	defer w.Flush()
	idx := 0
	for sc.Scan() {
		line := sc.Text()
		if line == "" {
			continue
		}
		parts := strings.Split(line, "\t")
		out := runOne(parts[0], parts[1:])
		b, err := json.Marshal(out)
		if err != nil {
			b, _ = json.Marshal(map[string]interface{}{"marshal_error": err.Error()})
		}
		fmt.Fprintf(w, "%d\t%s\n", idx, b)
		idx++
	}
}
