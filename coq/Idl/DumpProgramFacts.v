(* Idl/DumpProgramFacts.v — property C17, part 8: the property for whole programs, about the
   files the parser actually returns for the dumped texts (whatever comments it attaches). *)
From Coq Require Import List Bool NArith ZArith Lia Arith.
From Coq.Strings Require Import Byte.
From Verif Require Import Base.Bytes Idl.Ast Idl.AstUtil Idl.AstFacts Idl.Lex Idl.Parse Idl.Resolve Idl.ResolveLemmas
  Idl.Dump Idl.DumpFacts Idl.DumpLexFacts Idl.DumpParseFacts Idl.DumpTopFacts Idl.DumpResolveFacts.
Import ListNotations.

Section Program.
  Variable fmt : N -> bytes.
  Let NC := fun _ : bytes => @nil byte.
  Let I1 := fun t : ty => t.
  Let I2 := fun c : const_value => c.

  (* ---- resolution's view of a file does not look at recorded comments *)
  Lemma svf_strip f : map_field cty (dv fmt) NC (map_field I1 I2 NC f) = map_field cty (dv fmt) NC f.
  Proof. destruct f as [id n r t d an cm]. unfold map_field. cbn. destruct d; reflexivity. Qed.
  Lemma svfs_strip l : map (map_field cty (dv fmt) NC) (map (map_field I1 I2 NC) l) = map (map_field cty (dv fmt) NC) l.
  Proof. rewrite map_map. apply map_ext. apply svf_strip. Qed.
  Lemma svfn_strip f : map_function cty (dv fmt) NC (map_function I1 I2 NC f) = map_function cty (dv fmt) NC f.
  Proof. destruct f. unfold map_function. cbn. rewrite !svfs_strip. reflexivity. Qed.
  Lemma sven_strip e : map_enum NC (map_enum NC e) = map_enum NC e.
  Proof. destruct e as [n vs an cm]. unfold map_enum. cbn. rewrite map_map. reflexivity. Qed.
  Lemma svsl_strip s : map_struct_like cty (dv fmt) NC (map_struct_like I1 I2 NC s) = map_struct_like cty (dv fmt) NC s.
  Proof. destruct s as [k n fs an cm]. unfold map_struct_like. cbn. rewrite svfs_strip. reflexivity. Qed.
  Lemma svsv_strip s : map_service cty (dv fmt) NC false (map_service I1 I2 NC false s) = map_service cty (dv fmt) NC false s.
  Proof.
    destruct s as [n e fns an rf cm]. unfold map_service. cbn. rewrite map_map.
    f_equal. apply map_ext. apply svfn_strip.
  Qed.

  Lemma sem_view_strip_comments x : sem_view fmt (strip_comments x) = sem_view fmt x.
  Proof.
    destruct x as [fname incs cpp nss tds cs es ss us xs svs n2c].
    unfold sem_view, strip_comments, map_file.
    cbn [f_filename f_includes f_cpp_includes f_namespaces f_typedefs f_constants f_enums f_structs f_unions
         f_exceptions f_services f_name2cat].
    fold NC I1 I2. rewrite !map_map.
    f_equal; apply map_ext;
      first [ apply sven_strip | apply svsl_strip | apply svsv_strip | intros []; reflexivity ].
  Qed.

  Lemma strip_comments_relink f b : strip_comments (relink f b) = relink f (strip_comments b).
  Proof.
    destruct b. unfold relink, with_includes, strip_comments, map_file. cbn. f_equal.
    rewrite map_map. apply map_ext. intros []. reflexivity.
  Qed.

  Lemma sem_view_relink f b b' : strip_comments b = strip_comments b' ->
    sem_view fmt (relink f b) = sem_view fmt (relink f b').
  Proof.
    intro H. rewrite <- (sem_view_strip_comments (relink f b)), <- (sem_view_strip_comments (relink f b')).
    rewrite !strip_comments_relink, H. reflexivity.
  Qed.

  (* ---- what C17 compares does not look at which file an include points to *)
  Lemma c17_norm_relink f b : view_ok fmt f = true -> c17_norm b = c17_norm f -> c17_norm (relink f b) = c17_norm f.
  Proof.
    intros _ H. destruct b as [bn bi bc bns btd bcs bes bss bus bxs bsv bn2], f as [fn fi fc fns ftd fcs fes fss fus fxs fsv fn2].
    unfold c17_norm, relink, with_includes, map_file in *.
    cbn [f_filename f_includes f_cpp_includes f_namespaces f_typedefs f_constants f_enums f_structs f_unions
         f_exceptions f_services f_name2cat] in *.
    injection H as E1 E2 E3 E4 E5 E6 E7 E8 E9 E10 E11.
    rewrite E1, E3, E4, E5, E6, E7, E8, E9, E10, E11. f_equal.
    rewrite !map_map. apply map_ext. intros []. reflexivity.
  Qed.

  (* ---- the re-read program: any program whose files are what the parser returns for the dumped
     texts, each with its include statements pointing to the same files as before *)
  Definition reread (p q : program) : Prop :=
    Forall2 (fun e e' => fst e' = fst e /\
                         exists b, parse (f_filename (snd e)) (dump fmt (snd e)) = Some b /\ snd e' = relink (snd e) b) p q.

  Definition file_in_domain (f : file) : bool := dump_ok fmt f && parsed_ok fmt f.

  (* the parser accepts every dumped file: a re-read program exists *)
  Lemma reread_exists p : forallb (fun e => file_in_domain (snd e)) p = true -> exists q, reread p q.
  Proof.
    induction p as [|[n f] r IH]; intro H; [exists []; constructor|].
    cbn [forallb snd] in H. apply andb_true_iff in H. destruct H as [Hf Hr].
    destruct (IH Hr) as [q Hq]. unfold file_in_domain in Hf. apply andb_true_iff in Hf. destruct Hf as [Hd _].
    destruct (parse_dump fmt f Hd) as (b & Hb & _).
    exists ((n, relink f b) :: q). constructor; [|exact Hq]. cbn [fst snd]. split; [reflexivity|]. eauto.
  Qed.

  Lemma reread_sem_view p : forallb (fun e => file_in_domain (snd e)) p = true ->
    forall q, reread p q -> sem_view_program fmt q = sem_view_program fmt (dumped_program fmt p).
  Proof.
    intros H q Hq. induction Hq as [|[n f] [n' f'] r r' [Hn (b & Hb & Hf')] _ IH]; [reflexivity|].
    cbn [forallb snd] in H. apply andb_true_iff in H. destruct H as [Hf Hr]. cbn [fst snd] in *. subst n' f'.
    unfold file_in_domain in Hf. apply andb_true_iff in Hf. destruct Hf as [Hd _].
    destruct (parse_dump fmt f Hd) as (b2 & Hb2 & Hs). rewrite Hb in Hb2. injection Hb2 as <-.
    cbn [sem_view_program dumped_program map fst snd]. fold (sem_view_program fmt r') (dumped_program fmt r) .
    fold (sem_view_program fmt (dumped_program fmt r)). rewrite <- (IH Hr).
    rewrite (sem_view_relink f b (dump_view fmt f) Hs). reflexivity.
  Qed.

  (* ---- the property for programs, at full strength on the domain: every dumped file is accepted
     by the parser; whatever the parser returns for it equals the original on everything C17
     lists; and the re-read program passes symbol resolution whenever the original does, with the
     same result as far as resolution's view goes *)
  Theorem program_roundtrip p r :
    forallb (fun e => file_in_domain (snd e)) p = true ->
    resolve_program p = Ok r ->
    (exists q, reread p q) /\
    forall q, reread p q ->
      Forall2 (fun e e' => fst e' = fst e /\ c17_norm (snd e') = c17_norm (snd e)) p q /\
      exists r', resolve_program q = Ok r' /\
                 sem_view_program fmt r' = sem_view_program fmt (sem_view_program fmt r).
  Proof.
    intros H Hres. split; [apply reread_exists; exact H|].
    intros q Hq. split.
    - clear Hres. induction Hq as [|[n f] [n' f'] r0 r0' [Hn (b & Hb & Hf')] _ IH]; [constructor|].
      cbn [forallb snd] in H. apply andb_true_iff in H. destruct H as [Hf Hr]. cbn [fst snd] in *.
      constructor; [|apply IH; exact Hr]. cbn [fst snd]. split; [exact Hn|]. subst f'.
      unfold file_in_domain in Hf. apply andb_true_iff in Hf. destruct Hf as [Hd Hp].
      unfold parsed_ok in Hp. apply andb_true_iff in Hp. destruct Hp as [Hv _].
      destruct (dump_roundtrip fmt f Hd Hv) as (b2 & Hb2 & Hn2). rewrite Hb in Hb2. injection Hb2 as <-.
      apply c17_norm_relink; assumption.
    - assert (Hp : forallb (fun e => parsed_ok fmt (snd e)) p = true).
      { apply forallb_forall. intros e He. rewrite forallb_forall in H. specialize (H e He).
        unfold file_in_domain in H. apply andb_true_iff in H. tauto. }
      pose proof (dump_passes_semantic fmt p r Hp Hres) as Hd.
      pose proof (resolve_program_sem_view fmt q) as Cq.
      pose proof (resolve_program_sem_view fmt (dumped_program fmt p)) as Cd.
      rewrite (reread_sem_view p H q Hq) in Cq. rewrite Cd, Hd in Cq. cbn [rmap] in Cq.
      destruct (resolve_program q) as [r'|e]; [|discriminate]. cbn [rmap] in Cq. injection Cq as Cq.
      exists r'. split; [reflexivity | symmetry; exact Cq].
  Qed.
End Program.

(* the hypotheses are satisfiable: the two-file sample of Idl/DumpResolveFacts.v *)
Example program_roundtrip_sample :
  forallb (fun e => file_in_domain sem_sample_fmt (snd e)) sem_sample = true /\
  (match resolve_program sem_sample with Ok _ => true | Error _ => false end) = true.
Proof. split; vm_compute; reflexivity. Qed.
