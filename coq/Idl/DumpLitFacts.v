(* Idl/DumpLitFacts.v — property C17, part 5: every value a literal of the grammar can have is in
   the domain of quoteLiteral. *)
From Coq Require Import List Bool NArith ZArith Lia Arith.
From Coq.Strings Require Import Byte.
From Verif Require Import Base.Bytes Idl.Lex Idl.LexFacts Idl.Dump Idl.DumpFacts.
Import ListNotations.

Section InDomain.
  Variable q : byte.
  Hypothesis Hq : is_quote q = true.

  Let Hqb : q <> c_bs.
  Proof. apply quote_not_bs. exact Hq. Qed.

  (* every q after the first position stands behind a backslash *)
  Fixpoint adj (raw : bytes) : bool :=
    match raw with
    | c :: r => match r with
                | d :: _ => (negb (Byte.eqb d q) || Byte.eqb c c_bs) && adj r
                | [] => true
                end
    | [] => true
    end.

  Lemma adj_cons c d r : adj (c :: d :: r) = (negb (Byte.eqb d q) || Byte.eqb c c_bs) && adj (d :: r).
  Proof. reflexivity. Qed.

  Definition head_not_q (raw : bytes) : Prop := match raw with c :: _ => c <> q | [] => True end.

  Lemma lex_lit_head c r raw rest : c <> q -> c <> c_bs -> lex_lit q (c :: r) = Some (raw, rest) ->
    exists raw', raw = c :: raw' /\ lex_lit q r = Some (raw', rest).
  Proof.
    intros H1 H2 H. rewrite lex_lit_cons in H. rewrite (byte_eqb_neq _ _ H2), (byte_eqb_neq _ _ H1) in H.
    destruct (lex_lit q r) as [[raw' rest']|]; [|discriminate]. injection H as <- <-. eauto.
  Qed.

  (* what the lexer takes between the quotes *)
  Lemma lex_lit_shape : forall n s raw rest, List.length s <= n -> lex_lit q s = Some (raw, rest) ->
    ends_bs raw = false /\ adj raw = true /\ head_not_q raw.
  Proof.
    induction n as [|n IH]; intros s raw rest Hlen H.
    - destruct s; [discriminate | cbn in Hlen; lia].
    - destruct s as [|c r]; [discriminate|].
      assert (Hlr : List.length r <= n) by (cbn in Hlen; lia).
      rewrite lex_lit_cons in H.
      destruct (Byte.eqb c c_bs) eqn:Ecb.
      + apply byte_eqb_eq in Ecb. subst c. destruct r as [|d r']; [discriminate|].
        destruct (is_quote d) eqn:Eqd.
        * destruct (lex_lit q r') as [[raw' rest']|] eqn:E; [|discriminate]. injection H as <- <-.
          assert (Hl2 : List.length r' <= n) by (cbn in Hlr; lia).
          destruct (IH r' raw' rest' Hl2 E) as (He & Ha & Hh).
          assert (Hdb : Byte.eqb d c_bs = false) by (apply byte_eqb_neq; apply quote_not_bs; exact Eqd).
          split; [|split].
          -- rewrite ends_bs_cons. destruct raw' as [|e raw'']; [cbn; exact Hdb | rewrite ends_bs_cons; exact He].
          -- rewrite adj_cons, byte_eqb_refl, orb_true_r. cbn [andb].
             destruct raw' as [|e raw'']; [reflexivity|]. rewrite adj_cons.
             cbn [head_not_q] in Hh. rewrite (byte_eqb_neq _ _ Hh). cbn [negb orb andb]. exact Ha.
          -- cbn. intro Hc. apply Hqb. symmetry. exact Hc.
        * destruct (lex_lit q (d :: r')) as [[raw' rest']|] eqn:E; [|discriminate]. injection H as <- <-.
          destruct (IH (d :: r') raw' rest' Hlr E) as (He & Ha & Hh).
          (* raw' starts with d *)
          assert (Hd : exists t, raw' = d :: t).
          { rewrite lex_lit_cons in E. destruct (Byte.eqb d c_bs) eqn:Edb.
            - destruct r' as [|d2 r2]; [discriminate|].
              destruct (is_quote d2); [destruct (lex_lit q r2) as [[x y]|] | destruct (lex_lit q (d2 :: r2)) as [[x y]|]];
                try discriminate; injection E as <- <-; eauto.
            - assert (Hdq : Byte.eqb d q = false).
              { destruct (Byte.eqb d q) eqn:E2; [|reflexivity]. apply byte_eqb_eq in E2. subst d. congruence. }
              rewrite Hdq in E. destruct (lex_lit q r') as [[x y]|]; [|discriminate]. injection E as <- <-. eauto. }
          destruct Hd as [t ->].
          split; [|split].
          -- rewrite ends_bs_cons. exact He.
          -- rewrite adj_cons, byte_eqb_refl, orb_true_r. exact Ha.
          -- cbn. intro Hc. apply Hqb. symmetry. exact Hc.
      + destruct (Byte.eqb c q) eqn:Ecq.
        * injection H as <- <-. repeat split.
        * destruct (lex_lit q r) as [[raw' rest']|] eqn:E; [|discriminate]. injection H as <- <-.
          destruct (IH r raw' rest' Hlr E) as (He & Ha & Hh).
          split; [|split].
          -- destruct raw' as [|e raw'']; [cbn; exact Ecb | rewrite ends_bs_cons; exact He].
          -- destruct raw' as [|e raw'']; [reflexivity|]. rewrite adj_cons.
             cbn [head_not_q] in Hh. rewrite (byte_eqb_neq _ _ Hh). cbn [negb orb andb]. exact Ha.
          -- cbn. intro Hc. subst c. rewrite byte_eqb_refl in Ecq. discriminate.
  Qed.

  Lemma unescape_nonnil c r : unescape q (c :: r) <> [].
  Proof.
    destruct r as [|d r']; [discriminate|]. rewrite unescape_step.
    destruct (Byte.eqb c c_bs); [|discriminate].
    destruct (Byte.eqb d c_bs) eqn:Edb; [destruct r'; discriminate|].
    destruct (Byte.eqb d q); [|discriminate].
    destruct r' as [|e r'']; [discriminate|]. rewrite unescape_step, Edb. discriminate.
  Qed.

  Lemma ends_bs_cons_nonnil c l : l <> [] -> ends_bs (c :: l) = ends_bs l.
  Proof. destruct l; [contradiction | reflexivity]. Qed.

  Lemma adj_tail c r : adj (c :: r) = true -> adj r = true.
  Proof. destruct r as [|d r']; [reflexivity|]. rewrite adj_cons. intro H. apply andb_true_iff in H. tauto. Qed.

  (* pegText's value of such a text can be written between quotes q again *)
  Lemma unescape_quotable : forall n raw, List.length raw <= n ->
    ends_bs raw = false -> adj raw = true ->
    snd (quote_body q true (unescape q raw)) = true /\ ends_bs (unescape q raw) = false.
  Proof.
    induction n as [|n IH]; intros raw Hlen He Ha.
    - destruct raw; [split; reflexivity | cbn in Hlen; lia].
    - destruct raw as [|c r]; [split; reflexivity|].
      assert (Hlr : List.length r <= n) by (cbn in Hlen; lia).
      destruct r as [|d r'].
      + (* one character *)
        cbn [unescape]. split; [|exact He].
        destruct (Byte.byte_eq_dec c q) as [->|N1].
        * rewrite (qb_q_snd q Hq). reflexivity.
        * assert (N2 : c <> c_bs) by (intro; subst c; cbn in He; discriminate).
          rewrite (qb_other_snd q true c [] N1 N2). reflexivity.
      + pose proof (ends_bs_tail _ _ He) as He1. pose proof (adj_tail _ _ Ha) as Ha1.
        rewrite unescape_step.
        destruct (Byte.byte_eq_dec c c_bs) as [->|N2].
        * rewrite byte_eqb_refl.
          destruct (Byte.byte_eq_dec d c_bs) as [->|M2].
          -- rewrite byte_eqb_refl.
             destruct r' as [|e r'']; [cbn in He; discriminate|].
             assert (Hl2 : List.length (e :: r'') <= n) by (cbn in Hlr |- *; lia).
             destruct (IH (e :: r'') Hl2 (ends_bs_tail _ _ He1) (adj_tail _ _ Ha1)) as [I1 I2].
             split.
             ++ rewrite (qb_bs_snd q Hq), (qb_bs_snd q Hq). exact I1.
             ++ rewrite ends_bs_cons. rewrite ends_bs_cons_nonnil by apply unescape_nonnil. exact I2.
          -- rewrite (byte_eqb_neq _ _ M2).
             destruct (Byte.byte_eq_dec d q) as [->|M1].
             ++ rewrite byte_eqb_refl. apply IH; assumption.
             ++ rewrite (byte_eqb_neq _ _ M1).
                destruct (IH (d :: r') Hlr He1 Ha1) as [I1 I2].
                (* the value of (d :: r') starts with d *)
                assert (Hu : exists t, unescape q (d :: r') = d :: t).
                { destruct r' as [|e r'']; [exists []; reflexivity|].
                  rewrite unescape_step, (byte_eqb_neq _ _ M2). eauto. }
                destruct Hu as [t Hu]. rewrite Hu in I1, I2 |- *.
                split.
                ** rewrite (qb_bs_snd q Hq). cbn [negb].
                   rewrite (qb_other_snd q false d t M1 M2). rewrite (qb_other_snd q true d t M1 M2) in I1. exact I1.
                ** rewrite ends_bs_cons. exact I2.
        * rewrite (byte_eqb_neq _ _ N2).
          destruct (IH (d :: r') Hlr He1 Ha1) as [I1 I2].
          split.
          -- destruct (Byte.byte_eq_dec c q) as [->|N1].
             ++ rewrite (qb_q_snd q Hq). exact I1.
             ++ rewrite (qb_other_snd q true c _ N1 N2). exact I1.
          -- rewrite ends_bs_cons_nonnil by apply unescape_nonnil. exact I2.
  Qed.
End InDomain.

(* the values of literals: whatever the lexer accepts between two quotes unescapes to a text
   in the domain of quoteLiteral *)
Theorem unescape_in_domain q s raw rest :
  is_quote q = true -> lex_lit q s = Some (raw, rest) -> lit_ok (unescape q raw) = true.
Proof.
  intros Hq H.
  destruct (lex_lit_shape q Hq (List.length s) s raw rest (le_n _) H) as (He & Ha & _).
  destruct (unescape_quotable q Hq (List.length raw) raw (le_n _) He Ha) as [H1 H2].
  unfold lit_ok, quote_ok. rewrite H2. cbn [negb andb].
  unfold is_quote in Hq. apply orb_true_iff in Hq. destruct Hq as [E|E]; apply byte_eqb_eq in E; subst q.
  - rewrite H1. reflexivity.
  - rewrite H1. apply orb_true_r.
Qed.
