(* Idl/Peg.v — parsing expression grammars: syntax, Ford's well-formedness check, and a
   fuelled interpreter (property C03, totality of the grammar).

   /repo/parser/thrift.peg is translated into a [grammar] by harness/cmd/translate-peg on
   every run of the check (Idl/PegGrammar.v).  [wf_peg] is the syntactic condition under
   which a PEG terminates on every input (B. Ford, "Parsing Expression Grammars", POPL
   2004, section 3.6): no nonterminal is reachable from itself in left position without
   consuming input (no left recursion), and no repetition e* / e+ has a body that can
   succeed without consuming input.  The interpreter [run] is total because of its fuel;
   that a well-formed grammar never exhausts suitable fuel is Ford's theorem and is NOT
   proved in this development (it is listed as an undischarged obligation).
   Definitions only. *)
From Coq Require Import List Bool NArith Arith.
From Coq.Strings Require Import Byte.
From Verif Require Import Base.Bytes.
Import ListNotations.

Inductive pexp :=
| PEps                         (* the empty string *)
| PAny                         (* .  any one byte / rune *)
| PChar (c : byte)
| PRange (lo hi : byte)        (* [lo-hi] *)
| PLit (s : bytes)             (* 'text' *)
| PNT (n : nat)                (* the n-th rule of the grammar *)
| PSeq (a b : pexp)
| PAlt (a b : pexp)            (* ordered choice *)
| PStar (e : pexp)
| PPlus (e : pexp)
| POpt (e : pexp)
| PNot (e : pexp)              (* !e *)
| PAnd (e : pexp)              (* &e *)
| PCap (e : pexp).             (* <e>  text capture, no effect on matching *)

Definition grammar := list (bytes * pexp).

Definition rule_body (g : grammar) (n : nat) : pexp :=
  match nth_error g n with Some (_, e) => e | None => PNot PEps end.   (* unknown rule: fails *)

(* ---------------------------------------------------------------- abstract behaviour *)

(* what an expression may do: succeed consuming nothing, succeed consuming something, fail *)
Record behav := Behav { b0 : bool; b1 : bool; bf : bool }.
Definition behav_none := Behav false false false.
Definition behav_or (x y : behav) := Behav (b0 x || b0 y) (b1 x || b1 y) (bf x || bf y).
Definition behav_eqb (x y : behav) :=
  Bool.eqb (b0 x) (b0 y) && Bool.eqb (b1 x) (b1 y) && Bool.eqb (bf x) (bf y).

(* one step of Ford's inductive definition, given the current knowledge about the rules *)
Fixpoint behav_of (tbl : list behav) (e : pexp) : behav :=
  match e with
  | PEps => Behav true false false
  | PAny | PChar _ | PRange _ _ => Behav false true true
  | PLit s => match s with [] => Behav true false false | _ => Behav false true true end
  | PNT n => nth n tbl behav_none
  | PSeq a b =>
    let x := behav_of tbl a in let y := behav_of tbl b in
    Behav (b0 x && b0 y)
          ((b1 x && (b0 y || b1 y)) || (b0 x && b1 y))
          (bf x || ((b0 x || b1 x) && bf y))
  | PAlt a b =>
    let x := behav_of tbl a in let y := behav_of tbl b in
    Behav (b0 x || (bf x && b0 y)) (b1 x || (bf x && b1 y)) (bf x && bf y)
  | PStar a =>
    let x := behav_of tbl a in
    Behav (bf x) (b1 x && bf x) false
  | PPlus a =>
    let x := behav_of tbl a in
    Behav (b0 x) (b1 x) (bf x)
  | POpt a =>
    let x := behav_of tbl a in
    Behav (b0 x || bf x) (b1 x) false
  | PNot a =>
    let x := behav_of tbl a in
    Behav (bf x) false (b0 x || b1 x)
  | PAnd a =>
    let x := behav_of tbl a in
    Behav (b0 x || b1 x) false (bf x)
  | PCap a => behav_of tbl a
  end.

Definition behav_step (g : grammar) (tbl : list behav) : list behav :=
  map (fun r => behav_of tbl (snd r)) g.

(* least fixpoint: 3 bits per rule can only be switched on, so 3 * #rules + 1 rounds suffice *)
Fixpoint iterate {A} (n : nat) (f : A -> A) (x : A) : A :=
  match n with O => x | S k => iterate k f (f x) end.

Definition behav_table (g : grammar) : list behav :=
  iterate (3 * List.length g + 1) (behav_step g) (map (fun _ => behav_none) g).

(* the table is a fixpoint (checked, not assumed) *)
Definition behav_table_stable (g : grammar) : bool :=
  let t := behav_table g in
  (fix eqs (a b : list behav) : bool :=
     match a, b with
     | [], [] => true
     | x :: a', y :: b' => behav_eqb x y && eqs a' b'
     | _, _ => false
     end) t (behav_step g t).

(* ---------------------------------------------------------------- well-formedness *)

(* WF(e) given the set of rules already known to be well formed *)
Fixpoint wf_exp (tbl : list behav) (wfset : list bool) (e : pexp) : bool :=
  match e with
  | PEps | PAny | PChar _ | PRange _ _ | PLit _ => true
  | PNT n => nth n wfset false
  | PSeq a b => wf_exp tbl wfset a && (if b0 (behav_of tbl a) then wf_exp tbl wfset b else true)
  | PAlt a b => wf_exp tbl wfset a && wf_exp tbl wfset b
  | PStar a | PPlus a => wf_exp tbl wfset a && negb (b0 (behav_of tbl a))
  | POpt a | PNot a | PAnd a | PCap a => wf_exp tbl wfset a
  end.

(* sub-expressions that are not in left position must be well formed too once reached;
   [wf_all] checks every sub-expression of every rule against the final set *)
Fixpoint wf_deep (tbl : list behav) (wfset : list bool) (e : pexp) : bool :=
  match e with
  | PEps | PAny | PChar _ | PRange _ _ | PLit _ => true
  | PNT n => nth n wfset false
  | PSeq a b | PAlt a b => wf_deep tbl wfset a && wf_deep tbl wfset b
  | PStar a | PPlus a => wf_deep tbl wfset a && negb (b0 (behav_of tbl a))
  | POpt a | PNot a | PAnd a | PCap a => wf_deep tbl wfset a
  end.

Definition wf_step (g : grammar) (tbl : list behav) (wfset : list bool) : list bool :=
  map (fun r => wf_exp tbl wfset (snd r)) g.

Definition wf_set (g : grammar) : list bool :=
  iterate (List.length g + 1) (wf_step g (behav_table g)) (map (fun _ => false) g).

(* every nonterminal that is used exists *)
Fixpoint refs_ok (n : nat) (e : pexp) : bool :=
  match e with
  | PNT k => k <? n
  | PSeq a b | PAlt a b => refs_ok n a && refs_ok n b
  | PStar a | PPlus a | POpt a | PNot a | PAnd a | PCap a => refs_ok n a
  | _ => true
  end.

Definition wf_peg (g : grammar) : bool :=
  forallb (fun r => refs_ok (List.length g) (snd r)) g &&
  behav_table_stable g &&
  forallb (fun b => b) (wf_set g) &&
  forallb (fun r => wf_deep (behav_table g) (wf_set g) (snd r)) g.

(* ---------------------------------------------------------------- interpreter *)

Inductive res :=
| ROk (rest : bytes)
| RFail
| RFuel.

Fixpoint run (fuel : nat) (g : grammar) (e : pexp) (s : bytes) : res :=
  match fuel with
  | O => RFuel
  | S f =>
    match e with
    | PEps => ROk s
    | PAny => match s with _ :: r => ROk r | [] => RFail end
    | PChar c => match s with d :: r => if Byte.eqb c d then ROk r else RFail | [] => RFail end
    | PRange lo hi =>
      match s with
      | d :: r => if (N.leb (Byte.to_N lo) (Byte.to_N d) && N.leb (Byte.to_N d) (Byte.to_N hi))%bool then ROk r else RFail
      | [] => RFail
      end
    | PLit t => if is_prefix t s then ROk (skipn (List.length t) s) else RFail
    | PNT n => run f g (rule_body g n) s
    | PSeq a b => match run f g a s with ROk r => run f g b r | x => x end
    | PAlt a b => match run f g a s with RFail => run f g b s | x => x end
    | PStar a => match run f g a s with
                 | ROk r => run f g (PStar a) r
                 | RFail => ROk s
                 | RFuel => RFuel
                 end
    | PPlus a => match run f g a s with ROk r => run f g (PStar a) r | x => x end
    | POpt a => match run f g a s with RFail => ROk s | x => x end
    | PNot a => match run f g a s with ROk _ => RFail | RFail => ROk s | RFuel => RFuel end
    | PAnd a => match run f g a s with ROk _ => ROk s | x => x end
    | PCap a => run f g a s
    end
  end.

(* the whole input is a sentence of the grammar's first rule *)
Definition accepts (fuel : nat) (g : grammar) (s : bytes) : option bool :=
  match run fuel g (PNT 0) s with
  | ROk _ => Some true
  | RFail => Some false
  | RFuel => None
  end.
