(* Idl/Dump.v — model of the IDL dumper (property C17):
   /repo/tool/trimmer/dump/dump.go, function DumpIDL (the function the trimmer calls for
   every file it writes; DumpIDL_V1 with the html/template texts of idl_template.go /
   field_template.go is deprecated and only reachable through UseOldDumpFunction).

   The model mirrors the REPAIRED code (proposed_fixes/C17-1..3):
     - printField writes struct fields, arguments and throws entries alike: id,
       requiredness, type, name, default, annotations; the throws separator is chosen by
       the throws list;
     - literals are written by quoteLiteral / quoteWith ([lit_token]); the former global
       rewriting passes (quote placeholders, html.UnescapeString) no longer exist;
     - doubles are written by strconv.FormatFloat(v, 'g', -1, 64).  That function enters
       as the Section variable [fmt] (bits -> text); theorems constrain it through the
       decidable predicate [fmt_ok], which the correspondence check evaluates on every
       double the implementation printed.

   The dumper is modelled as a list of PIECES (tokens of Idl/Lex.v, runs of white space,
   recorded comments); [dump] is the concatenation of the piece texts, byte for byte what
   DumpIDL returns.  The same pieces give the token list the parser model sees, which is
   what the round-trip proofs in Idl/DumpFacts.v work on.

   [dump_view] says which AST the written text denotes (what a correct parser reads
   back); [c17_norm] forgets what property C17 does not constrain.

   Definitions only; the facts are in Idl/DumpFacts.v. *)
From Coq Require Import List Bool NArith ZArith.
From Coq.Strings Require Import Byte String.
From Verif Require Import Base.Bytes Idl.Ast Idl.Lex Idl.Parse.
Import ListNotations.

(* ---------------------------------------------------------------- pieces *)

Inductive piece :=
| PT (t : token)          (* a token, written as [token_bytes t] *)
| PN (text : bytes)       (* the text of a double as strconv wrote it *)
| PW (ws : bytes)         (* white space written by the dumper: blanks, tabs, line feeds *)
| PC (c : bytes).         (* a recorded comment, written as it is *)

Definition piece_text (p : piece) : bytes :=
  match p with PT t => token_bytes t | PN text => text | PW ws => ws | PC c => c end.
Definition pieces_text (ps : list piece) : bytes := List.concat (map piece_text ps).

Definition sp : piece := PW [x20].
Definition nl : piece := PW [x0a].
Definition indent4 : piece := PW [x20; x20; x20; x20].
Definition word (w : bytes) : piece := PT (TWord w).
Definition punct (c : byte) : piece := PT (TPunct c).
Definition comma_sp : list piece := [punct p_comma; sp].

(* ---------------------------------------------------------------- literals: quoteLiteral *)

(* quoteWith(s, q), the text between the quotes: a backslash in front of every q that
   follows an even number of backslashes; [ok] is false when a q follows an odd number.
   [even]: the number of backslashes directly in front of the current position is even. *)
Fixpoint quote_body (q : byte) (even : bool) (s : bytes) : bytes * bool :=
  match s with
  | [] => ([], true)
  | c :: r =>
    let (out, ok) := quote_body q (if Byte.eqb c c_bs then negb even else true) r in
    if Byte.eqb c q then
      if even then (c_bs :: c :: out, ok) else (c :: out, false)
    else (c :: out, ok)
  end.

(* quoteLiteral: double quotes unless a double quote follows an odd run of backslashes *)
Definition lit_token (s : bytes) : token :=
  let (b, ok) := quote_body c_dq true s in
  if ok then TLit c_dq b else TLit c_sq (fst (quote_body c_sq true s)).
Definition lit (s : bytes) : piece := PT (lit_token s).

(* what the parser reads back from that token (pegText) *)
Definition view_lit (s : bytes) : bytes :=
  match lit_token s with TLit q raw => unescape q raw | _ => s end.

(* ---------------------------------------------------------------- numbers *)

(* fmt.Sprintf("%d", z) *)
Definition print_Z (z : Z) : bytes :=
  match z with
  | Z0 => [x30]
  | Zpos p => digitsN (Npos p)
  | Zneg p => c_minus :: digitsN (Npos p)
  end.
Definition int_piece (z : Z) : piece := PT (TInt (print_Z z)).

(* the token a number text is read as *)
Definition num_token (text : bytes) : token :=
  match lex_number text with Some (t, _) => t | None => TInt text end.

(* the tokens among the pieces *)
Definition piece_toks (ps : list piece) : list token :=
  flat_map (fun p => match p with PT t => [t] | PN text => [num_token text] | _ => [] end) ps.
(* the constant it denotes *)
Definition num_view (text : bytes) : const_value :=
  match num_token text with
  | TDouble s => CDouble (double_value s)
  | TInt s => match int_value s with Some z => CInt z | None => CInt 0 end
  | _ => CInt 0
  end.

(* the integer a binary64 bit pattern denotes, when it is integral and finite *)
Definition double_to_Z (bits : N) : option Z :=
  let b := Z.of_N bits in
  let neg := (2 ^ 63 <=? b)%Z in
  let e := ((b / 2 ^ 52) mod 2048)%Z in
  let m := (b mod 2 ^ 52)%Z in
  if (e =? 2047)%Z then None
  else
    let '(mant, ex) := if (e =? 0)%Z then (m, -1074)%Z else (m + 2 ^ 52, e - 1075)%Z in
    let v :=
      if (0 <=? ex)%Z then Some (mant * 2 ^ ex)%Z
      else if (mant mod 2 ^ (- ex) =? 0)%Z then Some (mant / 2 ^ (- ex))%Z else None in
    match v with Some x => Some (if neg then (- x)%Z else x) | None => None end.

Definition in_i64 (z : Z) : bool := ((-9223372036854775808 <=? z) && (z <=? 9223372036854775807))%Z.
Definition in_i32 (z : Z) : bool := ((-2147483648 <=? z) && (z <=? 2147483647))%Z.

(* ---------------------------------------------------------------- the dumper *)

Section Dump.
  (* strconv.FormatFloat(math.Float64frombits(bits), 'g', -1, 64) *)
  Variable fmt : N -> bytes.

  (* printAnnotation: one  key = "value"  pair per value; a separator after every pair but
     the last value of the last annotation *)
  Fixpoint anno_values_pieces (k : bytes) (vs : list bytes) (last_anno : bool) : list piece :=
    match vs with
    | [] => []
    | v :: r =>
      [word k; sp; punct p_eq; sp; lit v] ++
      (if last_anno && match r with [] => true | _ => false end then [] else comma_sp) ++
      anno_values_pieces k r last_anno
    end.
  Fixpoint anno_list_pieces (a : annotations) : list piece :=
    match a with
    | [] => []
    | an :: r =>
      anno_values_pieces (an_key an) (an_values an) (match r with [] => true | _ => false end) ++
      anno_list_pieces r
    end.
  Definition annos_pieces (a : annotations) : list piece :=
    match a with
    | [] => []
    | _ => [punct p_lpar] ++ anno_list_pieces a ++ [punct p_rpar]
    end.

  (* typeName *)
  Fixpoint type_pieces (t : ty) : list piece :=
    match t with
    | Ty n k v _ an _ _ _ =>
      (match k, v with
       | Some kt, Some vt =>
         [word n; punct p_lpoint] ++ type_pieces kt ++ [punct p_comma] ++ type_pieces vt ++ [punct p_rpoint]
       | None, Some vt => [word n; punct p_lpoint] ++ type_pieces vt ++ [punct p_rpoint]
       | _, _ => [word n]
       end) ++ annos_pieces an
    end.

  (* printConstTypedValue *)
  Fixpoint cv_pieces (c : const_value) : list piece :=
    match c with
    | CDouble d => [PN (fmt d)]
    | CInt z => [int_piece z]
    | CLiteral s => [lit s]
    | CIdent s _ => [word s]
    | CList l =>
      [punct p_lbrk] ++
      (fix go (l : list const_value) : list piece :=
         match l with
         | [] => []
         | v :: r => cv_pieces v ++ (match r with [] => [] | _ => comma_sp end) ++ go r
         end) l ++
      [punct p_rbrk]
    | CMap l =>
      [punct p_lwing] ++
      (fix go (l : list (const_value * const_value)) : list piece :=
         match l with
         | [] => []
         | (k, v) :: r =>
           [PW [x0a; x09]] ++ cv_pieces k ++ [punct p_colon; sp] ++ cv_pieces v ++
           (match r with [] => [] | _ => comma_sp end) ++ go r
         end) l ++
      [nl; punct p_rwing]
    end.

  (* strings.TrimSpace(comment) is empty (ASCII white space; the parser's comments start
     with a slash) *)
  Definition go_space (c : byte) : bool :=
    Byte.eqb c x20 || Byte.eqb c x09 || Byte.eqb c x0a || Byte.eqb c x0b || Byte.eqb c x0c || Byte.eqb c x0d.
  (* printComment *)
  Definition comment_pieces (prefix : list piece) (c : bytes) : list piece :=
    if forallb go_space c then [] else prefix ++ [PC c; nl].

  Definition req_pieces (r : requiredness) : list piece :=
    match r with
    | ReqOptional => [word kw_optional; sp]
    | ReqRequired => [word kw_required; sp]
    | ReqDefault => []
    end.

  (* printField *)
  Definition field_pieces (f : field) : list piece :=
    [int_piece (fd_id f); punct p_colon; sp] ++ req_pieces (fd_req f) ++ type_pieces (fd_type f) ++
    [sp; word (fd_name f)] ++
    (match fd_default f with Some v => [sp; punct p_eq; sp] ++ cv_pieces v | None => [] end) ++
    annos_pieces (fd_annos f).

  (* printStruct; [kw] is the keyword of the list the definition is taken from *)
  Definition struct_pieces (kw : bytes) (s : struct_like) : list piece :=
    comment_pieces [] (sl_comments s) ++
    [word kw; sp; word (sl_name s); sp; punct p_lwing; nl] ++
    flat_map (fun f => comment_pieces [indent4] (fd_comments f) ++ [indent4] ++ field_pieces f ++ [nl])
             (sl_fields s) ++
    [punct p_rwing; sp] ++ annos_pieces (sl_annos s) ++ [nl; nl].

  Fixpoint sep_fields (l : list field) : list piece :=
    match l with
    | [] => []
    | f :: r => field_pieces f ++ (match r with [] => [] | _ => comma_sp end) ++ sep_fields r
    end.

  Definition function_pieces (f : function) : list piece :=
    comment_pieces [indent4] (fn_comments f) ++ [indent4] ++
    (if fn_oneway f then [word kw_oneway; sp] else []) ++
    type_pieces (fn_type f) ++ [sp; word (fn_name f); punct p_lpar] ++ sep_fields (fn_args f) ++ [punct p_rpar] ++
    (match fn_throws f with
     | [] => []
     | _ => [word kw_throws; sp; punct p_lpar] ++ sep_fields (fn_throws f) ++ [punct p_rpar]
     end) ++
    annos_pieces (fn_annos f) ++ [nl].

  Definition service_pieces (s : service) : list piece :=
    comment_pieces [] (sv_comments s) ++
    [word kw_service; sp; word (sv_name s); sp] ++
    (match sv_extends s with [] => [] | e => [word kw_extends; sp; word e; sp] end) ++
    [punct p_lwing; nl] ++ flat_map function_pieces (sv_functions s) ++
    [punct p_rwing; sp] ++ annos_pieces (sv_annos s) ++ [nl; nl].

  Fixpoint enum_values_pieces (l : list enum_value) : list piece :=
    match l with
    | [] => []
    | v :: r =>
      comment_pieces [indent4] (ev_comments v) ++
      [indent4; word (ev_name v); sp; punct p_eq; sp; int_piece (ev_value v); sp] ++ annos_pieces (ev_annos v) ++
      [nl] ++ (match r with [] => [] | _ => [nl] end) ++ enum_values_pieces r
    end.

  Definition enum_pieces (e : enum) : list piece :=
    comment_pieces [] (en_comments e) ++
    [word kw_enum; sp; word (en_name e); sp; punct p_lwing; nl] ++ enum_values_pieces (en_values e) ++
    [punct p_rwing; sp] ++ annos_pieces (en_annos e) ++ [nl; nl].

  Definition typedef_pieces (t : typedef) : list piece :=
    comment_pieces [] (td_comments t) ++
    [word kw_typedef; sp] ++ type_pieces (td_type t) ++ [sp; word (td_alias t); sp] ++
    annos_pieces (td_annos t) ++ [nl].

  Definition constant_pieces (c : constant) : list piece :=
    comment_pieces [] (co_comments c) ++
    [word kw_const; sp] ++ type_pieces (co_type c) ++ [sp; word (co_name c); sp; punct p_eq; sp] ++
    cv_pieces (co_value c) ++ annos_pieces (co_annos c) ++ [nl].

  (* namespace scope: an identifier or the star *)
  Definition scope_piece (l : bytes) : piece :=
    if beqb l [p_star] then punct p_star else word l.

  Definition namespace_pieces (n : namespace) : list piece :=
    [word kw_namespace; sp; scope_piece (ns_language n); sp; word (ns_name n)] ++ annos_pieces (ns_annos n) ++ [nl].

  (* a section of the file: its items, then one empty line when there are any *)
  Definition section {A} (f : A -> list piece) (l : list A) : list piece :=
    flat_map f l ++ (match l with [] => [] | _ => [nl] end).

  (* DumpIDL *)
  Definition dump_pieces (a : file) : list piece :=
    section (fun i => [word kw_include; sp; lit (in_path i); nl]) (f_includes a) ++
    section namespace_pieces (f_namespaces a) ++
    section (fun p => [word kw_cpp_include; sp; lit p; nl]) (f_cpp_includes a) ++
    section typedef_pieces (f_typedefs a) ++
    section constant_pieces (f_constants a) ++
    section enum_pieces (f_enums a) ++
    section (struct_pieces kw_struct) (f_structs a) ++
    section (struct_pieces kw_union) (f_unions a) ++
    section (struct_pieces kw_exception) (f_exceptions a) ++
    flat_map service_pieces (f_services a).

  Definition dump (a : file) : bytes := pieces_text (dump_pieces a).

  (* ---------------------------------------------------------------- the view *)

  (* one (key, value) pair per printed value, regrouped by the parser *)
  Definition anno_pairs (a : annotations) : list (bytes * bytes) :=
    flat_map (fun an => map (fun v => (an_key an, view_lit v)) (an_values an)) a.
  Definition view_annos (a : annotations) : annotations := annos_of_pairs (anno_pairs a).

  Fixpoint view_ty (t : ty) : ty :=
    match t with
    | Ty n k v _ an _ _ _ =>
      match k, v with
      | Some kt, Some vt => ty_plain n (Some (view_ty kt)) (Some (view_ty vt)) [] (view_annos an)
      | None, Some vt => ty_plain n None (Some (view_ty vt)) [] (view_annos an)
      | _, _ => ty_plain n None None [] (view_annos an)
      end
    end.

  Fixpoint view_cv (c : const_value) : const_value :=
    match c with
    | CDouble d => num_view (fmt d)
    | CInt z => CInt z
    | CLiteral s => CLiteral (view_lit s)
    | CIdent s _ => CIdent s None
    | CList l => CList (map view_cv l)
    | CMap l => CMap (map (fun kv => (view_cv (fst kv), view_cv (snd kv))) l)
    end.

  Definition view_field (f : field) : field :=
    Field (fd_id f) (fd_name f) (fd_req f) (view_ty (fd_type f)) (option_map view_cv (fd_default f))
          (view_annos (fd_annos f)) [].
  (* ids are always written; the parser takes the sentinel NOTSET as "not written" *)
  Definition view_fields (l : list field) : list field := assign_ids None (map view_field l).

  Definition view_struct (k : sl_kind) (s : struct_like) : struct_like :=
    StructLike k (sl_name s) (view_fields (sl_fields s)) (view_annos (sl_annos s)) [].

  Definition is_void_type (t : ty) : bool :=
    match t with Ty n None None _ [] _ _ _ => beqb n kw_void | _ => false end.

  Definition view_function (f : function) : function :=
    let void := is_void_type (fn_type f) in
    Function (fn_name f) (fn_oneway f) void (if void then ty_named kw_void else view_ty (fn_type f))
             (view_fields (fn_args f))
             (assign_ids None (map (fun x => set_req (view_field x) ReqOptional) (fn_throws f)))
             (view_annos (fn_annos f)) [].

  Definition view_service (s : service) : service :=
    Service (sv_name s) (sv_extends s) (map view_function (sv_functions s)) (view_annos (sv_annos s)) None [].

  Definition view_enum (e : enum) : enum :=
    Enum (en_name e) (map (fun v => EnumValue (ev_name v) (ev_value v) (view_annos (ev_annos v)) []) (en_values e))
         (view_annos (en_annos e)) [].

  Definition view_typedef (t : typedef) : typedef :=
    Typedef (view_ty (td_type t)) (td_alias t) (view_annos (td_annos t)) [].
  Definition view_constant (c : constant) : constant :=
    Constant (co_name c) (view_ty (co_type c)) (view_cv (co_value c)) (view_annos (co_annos c)) [].
  Definition view_namespace (n : namespace) : namespace :=
    Namespace (ns_language n) (ns_name n) (view_annos (ns_annos n)).

  Definition dump_view (a : file) : file :=
    File (f_filename a)
         (add_includes [] (map (fun i => HInclude (view_lit (in_path i))) (f_includes a)))
         (map view_lit (f_cpp_includes a))
         (map view_namespace (f_namespaces a))
         (map view_typedef (f_typedefs a))
         (map view_constant (f_constants a))
         (map view_enum (f_enums a))
         (map (view_struct SKStruct) (f_structs a))
         (map (view_struct SKUnion) (f_unions a))
         (map (view_struct SKException) (f_exceptions a))
         (map view_service (f_services a))
         None.
End Dump.

(* ---------------------------------------------------------------- what C17 compares *)

(* Property C17 lists: definitions, names, type expressions, field ids, requiredness,
   defaults and constant values, enum values, annotation key/value lists, includes,
   namespaces.  It does not constrain: recorded comments, the cpp_type of a container,
   what the semantic pass writes (resolution info), which parsed file an include refers
   to; a double may come back as the integer constant of equal value. *)

Definition norm_double (d : N) : const_value :=
  match double_to_Z d with
  | Some z => if in_i64 z then CInt z else CDouble d
  | None => CDouble d
  end.

Fixpoint norm_cv (c : const_value) : const_value :=
  match c with
  | CDouble d => norm_double d
  | CIdent s _ => CIdent s None
  | CList l => CList (map norm_cv l)
  | CMap l => CMap (map (fun kv => (norm_cv (fst kv), norm_cv (snd kv))) l)
  | other => other
  end.

Fixpoint norm_ty (t : ty) : ty :=
  match t with
  | Ty n k v _ an _ _ _ =>
    Ty n (match k with Some x => Some (norm_ty x) | None => None end)
         (match v with Some x => Some (norm_ty x) | None => None end) [] an CatConstant None None
  end.

Definition c17_norm (a : file) : file :=
  let b := map_file norm_ty norm_cv (fun _ => []) true a in
  File (f_filename b) (map (fun i => Include (in_path i) None None) (f_includes b)) (f_cpp_includes b)
       (f_namespaces b) (f_typedefs b) (f_constants b) (f_enums b) (f_structs b) (f_unions b)
       (f_exceptions b) (f_services b) None.

(* equality of what C17 constrains *)
Definition c17_eqb (a b : file) : bool := file_eqb (c17_norm a) (c17_norm b).

(* a double and its printed text denote the same constant up to that identification *)
Definition fmt_ok (fmt : N -> bytes) (d : N) : bool :=
  const_value_eqb (norm_cv (num_view (fmt d))) (norm_double d).
