package main

import (
	"encoding/json"
	"math"
	"reflect"
	"sort"
	"strings"

	tr "github.com/cloudwego/thriftgo/thrift_reflection"
)

// Reflection verb (property C15). The code of the unit must be generated with with_reflection.
//
//	c15_dump <unit> <import path prefix>
//	    -> {"files":[{"dump":<file descriptor>,"go_pkg":..,"types":[..],"lookups":[..]}]}
//
// For every file descriptor the generated packages under the import path prefix registered (found
// through the default registry): the descriptor dumped field by field (the JSON shape of
// harness/refldump), and per struct-like / enum / typedef descriptor the checks of
// type <-> descriptor: descriptor.GetGoType(), Get*DescriptorByGoType, the generated
// GetDescriptor() / GetTypeDescriptor() methods, field lookups by name and id, the Go struct
// fields against the descriptor's fields, and the Go type of struct-typed fields across packages.

type c15KV struct {
	K string `json:"k"`
	V string `json:"v"`
}
type c15Anno struct {
	K string   `json:"k"`
	V []string `json:"v"`
}
type c15Extra struct {
	Has     bool    `json:"has"`
	Entries []c15KV `json:"entries,omitempty"`
}
type c15Type struct {
	Filepath string   `json:"filepath"`
	Name     string   `json:"name"`
	Key      *c15Type `json:"key,omitempty"`
	Value    *c15Type `json:"value,omitempty"`
	Extra    c15Extra `json:"extra"`
}
type c15CVPair struct {
	K *c15CV `json:"k"`
	V *c15CV `json:"v"`
}
type c15CV struct {
	Type       int64       `json:"type"`
	DoubleBits uint64      `json:"double_bits"`
	Int        int64       `json:"int"`
	String     string      `json:"string"`
	Bool       bool        `json:"bool"`
	HasList    bool        `json:"has_list"`
	List       []*c15CV    `json:"list,omitempty"`
	HasMap     bool        `json:"has_map"`
	Map        []c15CVPair `json:"map,omitempty"`
	Identifier string      `json:"identifier"`
	Extra      c15Extra    `json:"extra"`
}
type c15Const struct {
	Filepath string    `json:"filepath"`
	Name     string    `json:"name"`
	Type     *c15Type  `json:"type"`
	Value    *c15CV    `json:"value"`
	Annos    []c15Anno `json:"annotations"`
	Comments string    `json:"comments"`
	Extra    c15Extra  `json:"extra"`
}
type c15Typedef struct {
	Filepath string    `json:"filepath"`
	Type     *c15Type  `json:"type"`
	Alias    string    `json:"alias"`
	Annos    []c15Anno `json:"annotations"`
	Comments string    `json:"comments"`
	Extra    c15Extra  `json:"extra"`
}
type c15EnumValue struct {
	Filepath string    `json:"filepath"`
	Name     string    `json:"name"`
	Value    int64     `json:"value"`
	Annos    []c15Anno `json:"annotations"`
	Comments string    `json:"comments"`
	Extra    c15Extra  `json:"extra"`
}
type c15Enum struct {
	Filepath string          `json:"filepath"`
	Name     string          `json:"name"`
	Values   []*c15EnumValue `json:"values"`
	Annos    []c15Anno       `json:"annotations"`
	Comments string          `json:"comments"`
	Extra    c15Extra        `json:"extra"`
}
type c15Field struct {
	Filepath     string    `json:"filepath"`
	Name         string    `json:"name"`
	Type         *c15Type  `json:"type"`
	Requiredness string    `json:"requiredness"`
	ID           int32     `json:"id"`
	Default      *c15CV    `json:"default,omitempty"`
	Annos        []c15Anno `json:"annotations"`
	Comments     string    `json:"comments"`
	Extra        c15Extra  `json:"extra"`
}
type c15Struct struct {
	Filepath string      `json:"filepath"`
	Name     string      `json:"name"`
	Fields   []*c15Field `json:"fields"`
	Annos    []c15Anno   `json:"annotations"`
	Comments string      `json:"comments"`
	Extra    c15Extra    `json:"extra"`
}
type c15Method struct {
	Filepath string      `json:"filepath"`
	Name     string      `json:"name"`
	Response *c15Type    `json:"response,omitempty"`
	Args     []*c15Field `json:"args"`
	Annos    []c15Anno   `json:"annotations"`
	Comments string      `json:"comments"`
	Throws   []*c15Field `json:"throws"`
	Oneway   bool        `json:"oneway"`
	Extra    c15Extra    `json:"extra"`
}
type c15Service struct {
	Filepath string       `json:"filepath"`
	Name     string       `json:"name"`
	Methods  []*c15Method `json:"methods"`
	Annos    []c15Anno    `json:"annotations"`
	Comments string       `json:"comments"`
	Extra    c15Extra     `json:"extra"`
	Base     string       `json:"base"`
}
type c15File struct {
	Filepath   string        `json:"filepath"`
	Includes   []c15KV       `json:"includes"`
	Namespaces []c15KV       `json:"namespaces"`
	Services   []*c15Service `json:"services"`
	Structs    []*c15Struct  `json:"structs"`
	Exceptions []*c15Struct  `json:"exceptions"`
	Enums      []*c15Enum    `json:"enums"`
	Typedefs   []*c15Typedef `json:"typedefs"`
	Unions     []*c15Struct  `json:"unions"`
	Consts     []*c15Const   `json:"consts"`
	Extra      c15Extra      `json:"extra"`
}

func c15StrMap(m map[string]string) []c15KV {
	out := make([]c15KV, 0, len(m))
	for k, v := range m {
		out = append(out, c15KV{k, v})
	}
	sort.Slice(out, func(i, j int) bool { return out[i].K < out[j].K })
	return out
}

func c15ExtraOf(m map[string]string) c15Extra {
	if m == nil {
		return c15Extra{}
	}
	return c15Extra{Has: true, Entries: c15StrMap(m)}
}

func c15Annos(m map[string][]string) []c15Anno {
	out := make([]c15Anno, 0, len(m))
	for k, v := range m {
		out = append(out, c15Anno{k, append([]string{}, v...)})
	}
	sort.Slice(out, func(i, j int) bool { return out[i].K < out[j].K })
	return out
}

func c15TypeOf(t *tr.TypeDescriptor) *c15Type {
	if t == nil {
		return nil
	}
	return &c15Type{Filepath: t.Filepath, Name: t.Name, Key: c15TypeOf(t.KeyType), Value: c15TypeOf(t.ValueType), Extra: c15ExtraOf(t.Extra)}
}

func c15CVOf(c *tr.ConstValueDescriptor) *c15CV {
	if c == nil {
		return nil
	}
	out := &c15CV{Type: int64(c.Type), DoubleBits: math.Float64bits(c.ValueDouble), Int: c.ValueInt, String: c.ValueString,
		Bool: c.ValueBool, Identifier: c.ValueIdentifier, Extra: c15ExtraOf(c.Extra)}
	if c.ValueList != nil {
		out.HasList = true
		for _, x := range c.ValueList {
			out.List = append(out.List, c15CVOf(x))
		}
	}
	if c.ValueMap != nil {
		out.HasMap = true
		type keyed struct {
			text string
			p    c15CVPair
		}
		var ks []keyed
		for k, v := range c.ValueMap {
			p := c15CVPair{c15CVOf(k), c15CVOf(v)}
			b, _ := json.Marshal(p)
			ks = append(ks, keyed{string(b), p})
		}
		sort.Slice(ks, func(i, j int) bool { return ks[i].text < ks[j].text })
		for _, k := range ks {
			out.Map = append(out.Map, k.p)
		}
	}
	return out
}

func c15Fields(fs []*tr.FieldDescriptor) []*c15Field {
	out := make([]*c15Field, 0, len(fs))
	for _, f := range fs {
		out = append(out, &c15Field{Filepath: f.Filepath, Name: f.Name, Type: c15TypeOf(f.Type), Requiredness: f.Requiredness, ID: f.ID,
			Default: c15CVOf(f.DefaultValue), Annos: c15Annos(f.Annotations), Comments: f.Comments, Extra: c15ExtraOf(f.Extra)})
	}
	return out
}

func c15Structs(ss []*tr.StructDescriptor) []*c15Struct {
	out := make([]*c15Struct, 0, len(ss))
	for _, s := range ss {
		out = append(out, &c15Struct{Filepath: s.Filepath, Name: s.Name, Fields: c15Fields(s.Fields), Annos: c15Annos(s.Annotations),
			Comments: s.Comments, Extra: c15ExtraOf(s.Extra)})
	}
	return out
}

func c15FileOf(f *tr.FileDescriptor) *c15File {
	out := &c15File{Filepath: f.Filepath, Includes: c15StrMap(f.Includes), Namespaces: c15StrMap(f.Namespaces),
		Services: []*c15Service{}, Structs: c15Structs(f.Structs), Exceptions: c15Structs(f.Exceptions), Enums: []*c15Enum{},
		Typedefs: []*c15Typedef{}, Unions: c15Structs(f.Unions), Consts: []*c15Const{}, Extra: c15ExtraOf(f.Extra)}
	for _, s := range f.Services {
		sv := &c15Service{Filepath: s.Filepath, Name: s.Name, Methods: []*c15Method{}, Annos: c15Annos(s.Annotations), Comments: s.Comments,
			Extra: c15ExtraOf(s.Extra), Base: s.Base}
		for _, m := range s.Methods {
			sv.Methods = append(sv.Methods, &c15Method{Filepath: m.Filepath, Name: m.Name, Response: c15TypeOf(m.Response), Args: c15Fields(m.Args),
				Annos: c15Annos(m.Annotations), Comments: m.Comments, Throws: c15Fields(m.ThrowExceptions), Oneway: m.IsOneway, Extra: c15ExtraOf(m.Extra)})
		}
		out.Services = append(out.Services, sv)
	}
	for _, e := range f.Enums {
		en := &c15Enum{Filepath: e.Filepath, Name: e.Name, Values: []*c15EnumValue{}, Annos: c15Annos(e.Annotations), Comments: e.Comments, Extra: c15ExtraOf(e.Extra)}
		for _, v := range e.Values {
			en.Values = append(en.Values, &c15EnumValue{Filepath: v.Filepath, Name: v.Name, Value: v.Value, Annos: c15Annos(v.Annotations),
				Comments: v.Comments, Extra: c15ExtraOf(v.Extra)})
		}
		out.Enums = append(out.Enums, en)
	}
	for _, t := range f.Typedefs {
		out.Typedefs = append(out.Typedefs, &c15Typedef{Filepath: t.Filepath, Type: c15TypeOf(t.Type), Alias: t.Alias, Annos: c15Annos(t.Annotations),
			Comments: t.Comments, Extra: c15ExtraOf(t.Extra)})
	}
	for _, c := range f.Consts {
		out.Consts = append(out.Consts, &c15Const{Filepath: c.Filepath, Name: c.Name, Type: c15TypeOf(c.Type), Value: c15CVOf(c.Value),
			Annos: c15Annos(c.Annotations), Comments: c.Comments, Extra: c15ExtraOf(c.Extra)})
	}
	return out
}

// c15TypeCheck: what the driver found for one descriptor that has a Go type.
type c15TypeCheck struct {
	Kind     string `json:"kind"` // struct union exception enum typedef
	Name     string `json:"name"`
	HasType  bool   `json:"has_go_type"`
	Own      bool   `json:"own_descriptor"`  // the generated GetDescriptor() of the Go type returns this descriptor
	ByGoType bool   `json:"by_go_type"`      // Get*DescriptorByGoType(the Go type) returns this descriptor
	Shared   bool   `json:"go_type_shared"`  // another descriptor of the kind has the same Go type (typedef aliases)
	TypeDesc bool   `json:"type_descriptor"` // GetTypeDescriptor() names this file and this definition and resolves back
	Back     bool   `json:"go_type_back"`    // the constructor registered for the IDL name builds this Go type
	Fields   bool   `json:"fields_ok"`       // field lookups by name / id, Go fields in descriptor order, Go types of struct fields
	Note     string `json:"note,omitempty"`
}

type c15Lookup struct {
	Kind  string     `json:"kind"`
	Name  string     `json:"name"`
	Found *[2]string `json:"found"`
}

type c15FileOut struct {
	Dump    *c15File       `json:"dump"`
	GoPkg   string         `json:"go_pkg"`
	Types   []c15TypeCheck `json:"types"`
	Lookups []c15Lookup    `json:"lookups"`
}

func c15Call(x interface{}, method string) (out interface{}) {
	defer func() {
		if r := recover(); r != nil {
			out = nil
		}
	}()
	m := reflect.ValueOf(x).MethodByName(method)
	if !m.IsValid() {
		return nil
	}
	res := m.Call(nil)
	if len(res) != 1 {
		return nil
	}
	return res[0].Interface()
}

var c15Builtin = map[string]bool{"bool": true, "byte": true, "i8": true, "i16": true, "i32": true, "i64": true, "double": true,
	"string": true, "binary": true, "map": true, "set": true, "list": true, "void": true}

func c15StructCheck(unit string, fd *tr.FileDescriptor, kind string, sd *tr.StructDescriptor) c15TypeCheck {
	c := c15TypeCheck{Kind: kind, Name: sd.Name}
	gt := sd.GetGoType()
	if gt == nil {
		return c
	}
	c.HasType = true
	x := reflect.New(gt).Interface()
	c.ByGoType = tr.GetStructDescriptorByGoType(x) == sd
	if d, ok := c15Call(x, "GetDescriptor").(*tr.StructDescriptor); ok {
		c.Own = d == sd
	}
	if td, ok := c15Call(x, "GetTypeDescriptor").(*tr.TypeDescriptor); ok && td != nil {
		var back *tr.StructDescriptor
		switch kind {
		case "struct":
			back, _ = td.GetStructDescriptor()
		case "union":
			back, _ = td.GetUnionDescriptor()
		default:
			back, _ = td.GetExceptionDescriptor()
		}
		c.TypeDesc = td.Filepath == fd.Filepath && td.Name == sd.Name && back == sd
	}
	// the constructor the harness registered under "<go file>.<IDL name>"
	c.Back = true
	base := fd.Filepath
	if i := strings.LastIndex(base, "/"); i >= 0 {
		base = base[i+1:]
	}
	base = strings.TrimSuffix(base, ".thrift")
	if ctor, ok := registry[unit+"|"+base+"."+sd.Name]; ok {
		obj := ctor()
		if d, ok := c15Call(obj, "GetDescriptor").(*tr.StructDescriptor); ok && d == sd {
			c.Back = reflect.TypeOf(obj).Elem() == gt
		}
	}
	// fields
	ok := true
	for _, f := range sd.Fields {
		if sd.GetFieldByName(f.Name) != f || sd.GetFieldById(f.ID) != f {
			ok = false
			c.Note += "field lookup " + f.Name + "; "
		}
	}
	tfs := ThriftFields(gt)
	if len(tfs) != len(sd.Fields) {
		ok = false
		c.Note += "number of Go fields; "
	} else {
		for i, f := range sd.Fields {
			if tfs[i].Name != f.Name || int32(tfs[i].ID) != f.ID {
				ok = false
				c.Note += "Go field order at " + f.Name + "; "
				continue
			}
			// a field whose type is a struct-like (not through a typedef): its Go type is the
			// Go type of the descriptor the type expression resolves to, also across packages
			if f.Type == nil || c15Builtin[f.Type.Name] {
				continue
			}
			var target *tr.StructDescriptor
			if d, _ := f.Type.GetStructDescriptor(); d != nil {
				target = d
			} else if d, _ := f.Type.GetUnionDescriptor(); d != nil {
				target = d
			} else if d, _ := f.Type.GetExceptionDescriptor(); d != nil {
				target = d
			}
			if target != nil {
				ft := gt.Field(tfs[i].Index).Type
				if ft.Kind() == reflect.Ptr {
					ft = ft.Elem()
				}
				if target.GetGoType() != ft {
					ok = false
					c.Note += "Go type of field " + f.Name + "; "
				}
			}
		}
	}
	c.Fields = ok
	return c
}

func init() {
	RegisterCommand("c15_dump", func(a []string) interface{} {
		unit, prefix := a[0], a[1]
		gd := tr.GetGlobalDescriptor(&tr.FileDescriptor{})
		info := gd.ShowRegisterInfo()
		paths := make([]string, 0, len(info))
		for p, pkg := range info {
			if strings.HasPrefix(pkg, prefix) {
				paths = append(paths, p)
			}
		}
		sort.Strings(paths)
		var out []c15FileOut
		for _, p := range paths {
			fd := gd.LookupFD(p)
			if fd == nil {
				continue
			}
			fo := c15FileOut{GoPkg: info[p]}
			// the registry writes its own bookkeeping into Extra: not part of the descriptor
			saved := fd.Extra
			if len(saved) == 1 && saved["GoPkgPath"] != "" {
				fd.Extra = nil
			}
			fo.Dump = c15FileOf(fd)
			fd.Extra = saved
			for _, s := range fd.Structs {
				fo.Types = append(fo.Types, c15StructCheck(unit, fd, "struct", s))
			}
			for _, s := range fd.Unions {
				fo.Types = append(fo.Types, c15StructCheck(unit, fd, "union", s))
			}
			for _, s := range fd.Exceptions {
				fo.Types = append(fo.Types, c15StructCheck(unit, fd, "exception", s))
			}
			for _, e := range fd.Enums {
				c := c15TypeCheck{Kind: "enum", Name: e.Name, Back: true, Fields: true}
				if gt := e.GetGoType(); gt != nil {
					c.HasType = true
					v := reflect.New(gt)
					c.ByGoType = tr.GetEnumDescriptorByGoType(v.Interface()) == e
					if d, ok := c15Call(v.Elem().Interface(), "GetDescriptor").(*tr.EnumDescriptor); ok {
						c.Own = d == e
					}
					if td, ok := c15Call(v.Interface(), "GetTypeDescriptor").(*tr.TypeDescriptor); ok && td != nil {
						back, _ := td.GetEnumDescriptor()
						c.TypeDesc = td.Filepath == fd.Filepath && td.Name == e.Name && back == e
					}
				}
				fo.Types = append(fo.Types, c)
			}
			for _, t := range fd.Typedefs {
				// a typedef is a Go alias: no methods of its own; two typedefs of one type share the Go type
				c := c15TypeCheck{Kind: "typedef", Name: t.Alias, Own: true, TypeDesc: true, Back: true, Fields: true}
				if gt := t.GetGoType(); gt != nil {
					c.HasType = true
					c.ByGoType = tr.GetTypedefDescriptorByGoType(reflect.New(gt).Interface()) == t
					for _, o := range fd.Typedefs {
						if o != t && o.GetGoType() == gt {
							c.Shared = true
						}
					}
					for _, op := range paths {
						if ofd := gd.LookupFD(op); ofd != nil && ofd != fd {
							for _, o := range ofd.Typedefs {
								if o.GetGoType() == gt {
									c.Shared = true
								}
							}
						}
					}
				}
				fo.Types = append(fo.Types, c)
			}
			// every non-builtin type name of the file, looked up under every kind
			seen := map[string]bool{}
			var names []string
			var walk func(t *tr.TypeDescriptor)
			walk = func(t *tr.TypeDescriptor) {
				if t == nil {
					return
				}
				if !c15Builtin[t.Name] && !seen[t.Name] {
					seen[t.Name] = true
					names = append(names, t.Name)
				}
				walk(t.KeyType)
				walk(t.ValueType)
			}
			fl := func(fs []*tr.FieldDescriptor) {
				for _, f := range fs {
					walk(f.Type)
				}
			}
			for _, l := range [][]*tr.StructDescriptor{fd.Structs, fd.Unions, fd.Exceptions} {
				for _, s := range l {
					fl(s.Fields)
				}
			}
			for _, t := range fd.Typedefs {
				walk(t.Type)
			}
			for _, c := range fd.Consts {
				walk(c.Type)
			}
			for _, s := range fd.Services {
				for _, m := range s.Methods {
					walk(m.Response)
					fl(m.Args)
					fl(m.ThrowExceptions)
				}
			}
			for _, n := range names {
				add := func(kind string, path, name string, ok bool) {
					l := c15Lookup{Kind: kind, Name: n}
					if ok {
						l.Found = &[2]string{path, name}
					}
					fo.Lookups = append(fo.Lookups, l)
				}
				if d := fd.GetStructDescriptor(n); d != nil {
					add("QStruct", d.Filepath, d.Name, true)
				} else {
					add("QStruct", "", "", false)
				}
				if d := fd.GetUnionDescriptor(n); d != nil {
					add("QUnion", d.Filepath, d.Name, true)
				} else {
					add("QUnion", "", "", false)
				}
				if d := fd.GetExceptionDescriptor(n); d != nil {
					add("QException", d.Filepath, d.Name, true)
				} else {
					add("QException", "", "", false)
				}
				if d := fd.GetEnumDescriptor(n); d != nil {
					add("QEnum", d.Filepath, d.Name, true)
				} else {
					add("QEnum", "", "", false)
				}
				if d := fd.GetTypedefDescriptor(n); d != nil {
					add("QTypedef", d.Filepath, d.Alias, true)
				} else {
					add("QTypedef", "", "", false)
				}
			}
			out = append(out, fo)
		}
		return map[string]interface{}{"files": out}
	})
}
