(* Wire/StdMoreFacts.v — further facts about the standard codec (property C02 only):

     wval_ind2               induction principle for the nested inductive [wval]
     strip                   a wire value without the fields a reader of the schema must skip, at EVERY struct level
     read_ignores_nested     from_w e t (strip e t w) = from_w e t w           (and the from_wire form)
     read_same_modulo_skippable   inputs with equal strip read the same
     getter_* / isset_*      what getters and IsSet report about a slot Read produced
     dec_min_fuel, dec_struct_complete   dec_struct has enough fuel for every input             *)
From Coq Require Import List ZArith Bool Lia.
From Coq.Strings Require Import Byte.
From Verif Require Import Base.Bytes Base.BE Wire.TType Wire.WVal Wire.Codec Wire.CodecFacts
  Wire.Schema Wire.Value Wire.GenTables Wire.Std Wire.StdFacts.
Import ListNotations.
Open Scope Z_scope.

Section WvalInd.
  Variable P : wval -> Prop.
  Hypothesis HBool : forall b, P (WBool b).
  Hypothesis HByte : forall z, P (WByte z).
  Hypothesis HDouble : forall z, P (WDouble z).
  Hypothesis HI16 : forall z, P (WI16 z).
  Hypothesis HI32 : forall z, P (WI32 z).
  Hypothesis HI64 : forall z, P (WI64 z).
  Hypothesis HStr : forall s, P (WStr s).
  Hypothesis HStruct : forall fs, Forall (fun f => P (snd f)) fs -> P (WStruct fs).
  Hypothesis HMap : forall kt vt kvs, Forall (fun kv => P (fst kv) /\ P (snd kv)) kvs -> P (WMap kt vt kvs).
  Hypothesis HSet : forall et l, Forall P l -> P (WSet et l).
  Hypothesis HList : forall et l, Forall P l -> P (WList et l).

  Fixpoint wval_ind2 (w : wval) : P w :=
    match w with
    | WBool b => HBool b | WByte z => HByte z | WDouble z => HDouble z | WI16 z => HI16 z
    | WI32 z => HI32 z | WI64 z => HI64 z | WStr s => HStr s
    | WStruct fs => HStruct fs ((fix go (l : list (ttype*Z*wval)) : Forall (fun f => P (snd f)) l :=
                       match l with [] => Forall_nil _ | f :: r => Forall_cons f (wval_ind2 (snd f)) (go r) end) fs)
    | WMap kt vt kvs => HMap kt vt kvs ((fix go (l : list (wval*wval)) : Forall (fun kv => P (fst kv) /\ P (snd kv)) l :=
                       match l with [] => Forall_nil _
                       | kv :: r => Forall_cons kv (conj (wval_ind2 (fst kv)) (wval_ind2 (snd kv))) (go r) end) kvs)
    | WSet et l => HSet et l ((fix go (l : list wval) : Forall P l :=
                       match l with [] => Forall_nil _ | x :: r => Forall_cons x (wval_ind2 x) (go r) end) l)
    | WList et l => HList et l ((fix go (l : list wval) : Forall P l :=
                       match l with [] => Forall_nil _ | x :: r => Forall_cons x (wval_ind2 x) (go r) end) l)
    end.
End WvalInd.

(* ------------------------------------------------------------------ skippable fields at every level *)

Definition strip_field (e : env) (s : sschema) (sub : ty -> wval -> wval) (wf : wfield) : option wfield :=
  match find_field (snd (fst wf)) (s_fields s) with
  | Some f => if ttype_eqb (fst (fst wf)) (ttype_of e (f_ty f)) then Some (fst wf, sub (f_ty f) (snd wf)) else None
  | None => None end.

Fixpoint strip (e : env) (t : ty) (w : wval) {struct w} : wval :=
  match w with
  | WStruct wfs =>
      match t with
      | TRef n => match find_struct e n with
                  | Some s => WStruct (cat_somes (map (fun wf =>
                        match find_field (snd (fst wf)) (s_fields s) with
                        | Some f => if ttype_eqb (fst (fst wf)) (ttype_of e (f_ty f))
                                    then Some (fst wf, strip e (f_ty f) (snd wf)) else None
                        | None => None end) wfs))
                  | None => w end
      | _ => w end
  | WList et l => match t with TList a => WList et (map (strip e a) l) | _ => w end
  | WSet et l => match t with TSet a => WSet et (map (strip e a) l) | _ => w end
  | WMap kt vt kvs => match t with
                      | TMap a b => WMap kt vt (map (fun kv => (strip e a (fst kv), strip e b (snd kv))) kvs)
                      | _ => w end
  | _ => w
  end.

Definition strip_fields (e : env) (s : sschema) (wfs : list wfield) : list wfield :=
  cat_somes (map (strip_field e s (strip e)) wfs).

Lemma strip_struct e n wfs :
  strip e (TRef n) (WStruct wfs) =
  match find_struct e n with Some s => WStruct (strip_fields e s wfs) | None => WStruct wfs end.
Proof. reflexivity. Qed.

Lemma mapM_map_ext {A B} (f : A -> result B) (g : A -> A) l :
  Forall (fun x => f (g x) = f x) l -> mapM f (map g l) = mapM f l.
Proof. induction 1 as [|x l Hx Hl IH]; cbn; [reflexivity|]. rewrite Hx, IH. reflexivity. Qed.

Lemma foldM_strip e s wfs :
  Forall (fun wf => forall t, from_w e t (strip e t (snd wf)) = from_w e t (snd wf)) wfs ->
  forall st, foldM (read_step e s) (strip_fields e s wfs) st = foldM (read_step e s) wfs st.
Proof.
  induction 1 as [|wf wfs Hwf Hall IH]; intro st; [reflexivity|].
  unfold strip_fields in *. cbn [map cat_somes foldM]. unfold strip_field at 1.
  destruct (find_field (snd (fst wf)) (s_fields s)) as [f|] eqn:Hf.
  - destruct (ttype_eqb (fst (fst wf)) (ttype_of e (f_ty f))) eqn:Ht.
    + cbn [cat_somes foldM]. unfold read_step at 1 3. cbn [fst snd]. rewrite Hf, Ht, Hwf.
      destruct (from_w e (f_ty f) (snd wf)); cbn [bind]; [apply IH | reflexivity].
    + cbn [cat_somes]. unfold read_step at 2. rewrite Hf, Ht. apply IH.
  - cbn [cat_somes]. unfold read_step at 2. rewrite Hf. apply IH.
Qed.

Theorem read_ignores_nested e : forall w t, from_w e t (strip e t w) = from_w e t w.
Proof.
  induction w using wval_ind2; intro t; try reflexivity.
  - (* struct *)
    destruct t; try reflexivity. rewrite strip_struct, !from_w_struct.
    destruct (find_struct e name) as [s|] eqn:Hs; [|rewrite from_w_struct, Hs; reflexivity].
    rewrite from_w_struct, Hs. rewrite foldM_strip; [reflexivity|].
    eapply Forall_impl; [|exact H]. intros wf Hwf t0. apply Hwf.
  - (* map *)
    destruct t; try reflexivity. cbn [strip from_w]. rewrite map_length.
    destruct ((ttype_eqb kt (ttype_of e t1) && ttype_eqb vt (ttype_of e t2)) || (length kvs =? 0)%nat); [|reflexivity].
    rewrite (mapM_map_ext _ (fun kv => (strip e t1 (fst kv), strip e t2 (snd kv)))); [reflexivity|].
    eapply Forall_impl; [|exact H]. intros kv [Hk Hv]. cbn [fst snd]. rewrite Hk, Hv. reflexivity.
  - destruct t; try reflexivity. cbn [strip from_w]. rewrite map_length.
    destruct (ttype_eqb et (ttype_of e t) || (length l =? 0)%nat); [|reflexivity].
    rewrite mapM_map_ext; [reflexivity|]. eapply Forall_impl; [|exact H]. intros x Hx. apply Hx.
  - destruct t; try reflexivity. cbn [strip from_w]. rewrite map_length.
    destruct (ttype_eqb et (ttype_of e t) || (length l =? 0)%nat); [|reflexivity].
    rewrite mapM_map_ext; [reflexivity|]. eapply Forall_impl; [|exact H]. intros x Hx. apply Hx.
Qed.

(* the top-level reader, from any start object *)
Theorem read_ignores_nested_top e s init wfs :
  from_wire e s init (WStruct (strip_fields e s wfs)) = from_wire e s init (WStruct wfs).
Proof.
  unfold from_wire. destruct init; try reflexivity. rewrite foldM_strip; [reflexivity|].
  apply Forall_forall. intros wf _ t. apply read_ignores_nested.
Qed.

Corollary read_same_modulo_skippable e t w1 w2 :
  strip e t w1 = strip e t w2 -> from_w e t w1 = from_w e t w2.
Proof. intro H. rewrite <- (read_ignores_nested e w1), <- (read_ignores_nested e w2), H. reflexivity. Qed.

(* strip removes exactly the top-level skippable fields (and recurses into the kept ones) *)
Lemma strip_fields_hdrs e s wfs :
  map (fun wf => fst wf) (strip_fields e s wfs) =
  map (fun wf => fst wf) (filter (fun wf => negb (skippable e s wf)) wfs).
Proof.
  unfold strip_fields. induction wfs as [|wf wfs IH]; [reflexivity|].
  cbn [map filter cat_somes]. unfold strip_field at 1, skippable at 1.
  destruct (find_field (snd (fst wf)) (s_fields s)) as [f|].
  - destruct (ttype_eqb (fst (fst wf)) (ttype_of e (f_ty f))); cbn [negb cat_somes map]; [f_equal|]; exact IH.
  - cbn [negb cat_somes]. exact IH.
Qed.

(* ------------------------------------------------------------------ getters and IsSet *)

(* a field Write emitted and Read stored: IsSet is true (when the field has IsSet at all) and the
   getter returns the stored payload; a field Write omitted: IsSet false, getter returns the default *)
Lemma getter_unset f v : supports_isset f = true -> isset f v = false -> getter f v = default_var f.
Proof. intros H1 H2. unfold getter. rewrite H1, H2. reflexivity. Qed.

Lemma getter_set f v : supports_isset f = true -> isset f v = true -> getter f v = deref f v.
Proof. intros H1 H2. unfold getter. rewrite H1, H2. reflexivity. Qed.

Lemma getter_plain f v : supports_isset f = false -> getter f v = v.
Proof. intro H. unfold getter. rewrite H. reflexivity. Qed.

Lemma getter_wrap_slot f x :
  base_ptr f = true -> getter f (wrap_slot f x) = x.
Proof.
  intro Hb. unfold getter, wrap_slot, deref, supports_isset, isset. rewrite Hb.
  unfold base_ptr in Hb. rewrite !andb_true_iff in Hb. destruct Hb as [[[Ho Hd] _] _].
  rewrite Ho, orb_true_r. apply negb_true_iff in Hd. unfold has_default in Hd.
  destruct (f_default f); [discriminate|]. reflexivity.
Qed.

(* an optional field that was not written reads back as unset: IsSet of the start object's slot is false *)
Lemma isset_init_slot_nodefault f :
  f_default f = None -> is_base (f_ty f) = false \/ is_optional f = true ->
  supports_isset f = true -> isset f (init_slot f) = false.
Proof.
  intros Hd Hk Hs. unfold isset, init_slot, zero_slot. rewrite Hd.
  destruct (base_ptr f) eqn:Hb; [reflexivity|].
  unfold supports_isset in Hs. unfold base_ptr, has_default in Hb. rewrite Hd in Hb. cbn [negb andb] in Hb.
  destruct (f_ty f); cbn in *; try reflexivity;
    destruct (is_optional f); cbn in *; try discriminate; destruct Hk; discriminate.
Qed.

(* ------------------------------------------------------------------ dec_struct has enough fuel *)

Lemma depth_list_unfold et l : depth (WList et l) = S (depth_list_go l). Proof. reflexivity. Qed.
Lemma depth_set_unfold et l : depth (WSet et l) = S (depth_list_go l). Proof. reflexivity. Qed.
Lemma depth_map_unfold kt vt l : depth (WMap kt vt l) = S (depth_map_go l). Proof. reflexivity. Qed.
Lemma depth_struct_unfold l : depth (WStruct l) = S (depth_struct_go l). Proof. reflexivity. Qed.

Lemma depth_pos v : (1 <= depth v)%nat.
Proof. destruct v; cbn; lia. Qed.

(* how much input a successful decode consumes, compared with the nesting depth of the result *)
Lemma rep_consumed (p : bytes -> option (wval * bytes)) :
  (forall bs y r, p bs = Some (y, r) -> (depth y + length r <= length bs)%nat) ->
  forall n bs xs r, rep p n bs = Some (xs, r) -> (depth_list_go xs + length r <= length bs)%nat.
Proof.
  intro Hp. induction n as [|n IH]; intros bs xs r H; cbn in H.
  - injection H as <- <-. cbn. lia.
  - destruct (p bs) as [[y r1]|] eqn:E; [|discriminate].
    destruct (rep p n r1) as [[ys r2]|] eqn:E2; [|discriminate]. injection H as <- <-.
    specialize (Hp _ _ _ E). specialize (IH _ _ _ E2). cbn [depth_list_go]. fold depth_list_go.
    pose proof (depth_pos y). lia.
Qed.

Lemma rep_pair_consumed (p q : bytes -> option (wval * bytes)) :
  (forall bs y r, p bs = Some (y, r) -> (depth y + length r <= length bs)%nat) ->
  (forall bs y r, q bs = Some (y, r) -> (depth y + length r <= length bs)%nat) ->
  forall n bs xs r, rep (pairp p q) n bs = Some (xs, r) -> (depth_map_go xs + length r <= length bs)%nat.
Proof.
  intros Hp Hq. induction n as [|n IH]; intros bs xs r H; cbn in H.
  - injection H as <- <-. cbn. lia.
  - unfold pairp at 1 in H.
    destruct (p bs) as [[k r0]|] eqn:E; [|discriminate].
    destruct (q r0) as [[y r1]|] eqn:E1; [|discriminate].
    destruct (rep (pairp p q) n r1) as [[ys r2]|] eqn:E2; [|discriminate]. injection H as <- <-.
    specialize (Hp _ _ _ E). specialize (Hq _ _ _ E1). specialize (IH _ _ _ E2).
    cbn [depth_map_go]. fold depth_map_go. pose proof (depth_pos k). pose proof (depth_pos y). lia.
Qed.

Lemma fields_consumed d :
  (forall t bs y r, d t bs = Some (y, r) -> (depth y + length r <= length bs)%nat) ->
  forall n bs fs r, fields d n bs = Some (fs, r) -> (depth_struct_go fs + length r + 1 <= length bs)%nat.
Proof.
  intro Hd. induction n as [|n IH]; intros bs fs r H; [discriminate|]. cbn [fields] in H.
  destruct (get_be 1 bs) as [[c r0]|] eqn:E0; [|discriminate].
  destruct (get_be_split _ _ _ _ E0) as (u0 & -> & Hl0 & _).
  destruct (c =? 0).
  - injection H as <- <-. cbn. rewrite app_length. lia.
  - destruct (of_code c) as [ft|]; [|discriminate].
    destruct (get_s 2 r0) as [[id r1]|] eqn:E1; [|discriminate].
    destruct (get_s_split _ _ _ _ E1) as (u1 & -> & Hl1 & _).
    destruct (d ft r1) as [[y r2]|] eqn:E2; [|discriminate].
    destruct (fields d n r2) as [[fs' r3]|] eqn:E3; [|discriminate]. injection H as <- <-.
    specialize (Hd _ _ _ _ E2). specialize (IH _ _ _ E3).
    cbn [depth_struct_go]. fold depth_struct_go. rewrite !app_length. pose proof (depth_pos y). lia.
Qed.

Theorem dec_consumed : forall f t bs v r, dec f t bs = Some (v, r) -> (depth v + length r <= length bs)%nat.
Proof.
  induction f as [|f IH]; intros t bs v r H; [discriminate|].
  destruct t; cbn [dec] in H.
  - destruct bs as [|b bs]; [discriminate|]. injection H as <- <-. cbn. lia.
  - destruct (get_s 1 bs) as [[z r0]|] eqn:E; [|discriminate]. injection H as <- <-.
    destruct (get_s_split _ _ _ _ E) as (u & -> & Hl & _). rewrite app_length. cbn. lia.
  - destruct (get_be 8 bs) as [[z r0]|] eqn:E; [|discriminate]. injection H as <- <-.
    destruct (get_be_split _ _ _ _ E) as (u & -> & Hl & _). rewrite app_length. cbn. lia.
  - destruct (get_s 2 bs) as [[z r0]|] eqn:E; [|discriminate]. injection H as <- <-.
    destruct (get_s_split _ _ _ _ E) as (u & -> & Hl & _). rewrite app_length. cbn. lia.
  - destruct (get_s 4 bs) as [[z r0]|] eqn:E; [|discriminate]. injection H as <- <-.
    destruct (get_s_split _ _ _ _ E) as (u & -> & Hl & _). rewrite app_length. cbn. lia.
  - destruct (get_s 8 bs) as [[z r0]|] eqn:E; [|discriminate]. injection H as <- <-.
    destruct (get_s_split _ _ _ _ E) as (u & -> & Hl & _). rewrite app_length. cbn. lia.
  - unfold get_count in H. destruct (get_s 4 bs) as [[z r0]|] eqn:E; [|discriminate].
    destruct (z <? 0); [discriminate|].
    destruct (Nat.ltb_spec (length r0) (Z.to_nat z)); [discriminate|]. injection H as <- <-.
    destruct (get_s_split _ _ _ _ E) as (u & -> & Hl & _). rewrite app_length, skipn_length. cbn. lia.
  - destruct (fields (dec f) (S (length bs)) bs) as [[fs r0]|] eqn:E; [|discriminate]. injection H as <- <-.
    pose proof (fields_consumed (dec f) (fun t => IH t) _ _ _ _ E). rewrite depth_struct_unfold. lia.
  - destruct (get_be 1 bs) as [[c r0]|] eqn:E0; [|discriminate].
    destruct (of_code c) as [kt|]; [|discriminate].
    destruct (get_be 1 r0) as [[c2 r1]|] eqn:E1; [|discriminate].
    destruct (of_code c2) as [vt|]; [|discriminate].
    unfold get_count in H. destruct (get_s 4 r1) as [[z r2]|] eqn:E2; [|discriminate].
    destruct (z <? 0); [discriminate|].
    destruct (rep (pairp (dec f kt) (dec f vt)) (Z.to_nat z) r2) as [[xs r3]|] eqn:E3; [|discriminate].
    injection H as <- <-.
    destruct (get_be_split _ _ _ _ E0) as (u0 & -> & Hl0 & _).
    destruct (get_be_split _ _ _ _ E1) as (u1 & -> & Hl1 & _).
    destruct (get_s_split _ _ _ _ E2) as (u2 & -> & Hl2 & _).
    pose proof (rep_pair_consumed _ _ (IH kt) (IH vt) _ _ _ _ E3).
    rewrite depth_map_unfold, !app_length. lia.
  - destruct (get_be 1 bs) as [[c r0]|] eqn:E0; [|discriminate].
    destruct (of_code c) as [et|]; [|discriminate].
    unfold get_count in H. destruct (get_s 4 r0) as [[z r2]|] eqn:E2; [|discriminate].
    destruct (z <? 0); [discriminate|].
    destruct (rep (dec f et) (Z.to_nat z) r2) as [[xs r3]|] eqn:E3; [|discriminate]. injection H as <- <-.
    destruct (get_be_split _ _ _ _ E0) as (u0 & -> & Hl0 & _).
    destruct (get_s_split _ _ _ _ E2) as (u2 & -> & Hl2 & _).
    pose proof (rep_consumed _ (IH et) _ _ _ _ E3). rewrite depth_set_unfold, !app_length. lia.
  - destruct (get_be 1 bs) as [[c r0]|] eqn:E0; [|discriminate].
    destruct (of_code c) as [et|]; [|discriminate].
    unfold get_count in H. destruct (get_s 4 r0) as [[z r2]|] eqn:E2; [|discriminate].
    destruct (z <? 0); [discriminate|].
    destruct (rep (dec f et) (Z.to_nat z) r2) as [[xs r3]|] eqn:E3; [|discriminate]. injection H as <- <-.
    destruct (get_be_split _ _ _ _ E0) as (u0 & -> & Hl0 & _).
    destruct (get_s_split _ _ _ _ E2) as (u2 & -> & Hl2 & _).
    pose proof (rep_consumed _ (IH et) _ _ _ _ E3). rewrite depth_list_unfold, !app_length. lia.
Qed.

(* a result of nesting depth d needs no more fuel than d *)
Lemma rep_transfer {A} (p q : bytes -> option (A * bytes)) (Q : A -> Prop) :
  (forall bs y r, p bs = Some (y, r) -> Q y -> q bs = Some (y, r)) ->
  forall n bs xs r, rep p n bs = Some (xs, r) -> Forall Q xs -> rep q n bs = Some (xs, r).
Proof.
  intro Hpq. induction n as [|n IH]; intros bs xs r H HQ; cbn in *; [assumption|].
  destruct (p bs) as [[y r1]|] eqn:E; [|discriminate].
  destruct (rep p n r1) as [[ys r2]|] eqn:E2; [|discriminate]. injection H as <- <-.
  inversion HQ; subst. rewrite (Hpq _ _ _ E) by assumption. rewrite (IH _ _ _ E2) by assumption. reflexivity.
Qed.

Lemma depth_list_Forall l n : (depth_list_go l <= n)%nat -> Forall (fun x => (depth x <= n)%nat) l.
Proof.
  induction l as [|x l IH]; intro H; constructor; cbn [depth_list_go] in H; fold depth_list_go in H; [lia | apply IH; lia].
Qed.
Lemma depth_map_Forall l n : (depth_map_go l <= n)%nat ->
  Forall (fun kv => (depth (fst kv) <= n)%nat /\ (depth (snd kv) <= n)%nat) l.
Proof.
  induction l as [|[k x] l IH]; intro H; constructor; cbn [depth_map_go] in H; fold depth_map_go in H;
    [cbn; lia | apply IH; lia].
Qed.

Lemma fields_transfer d d' n0 :
  (forall t bs y r, d t bs = Some (y, r) -> (depth y <= n0)%nat -> d' t bs = Some (y, r)) ->
  forall n bs fs r, fields d n bs = Some (fs, r) -> (depth_struct_go fs <= n0)%nat -> fields d' n bs = Some (fs, r).
Proof.
  intro Hd. induction n as [|n IH]; intros bs fs r H Hdp; [discriminate|]. cbn [fields] in *.
  destruct (get_be 1 bs) as [[c r0]|]; [|discriminate].
  destruct (c =? 0); [assumption|].
  destruct (of_code c) as [ft|]; [|discriminate].
  destruct (get_s 2 r0) as [[id r1]|]; [|discriminate].
  destruct (d ft r1) as [[y r2]|] eqn:E; [|discriminate].
  destruct (fields d n r2) as [[fs' r3]|] eqn:E2; [|discriminate]. injection H as <- <-.
  cbn [depth_struct_go] in Hdp. fold depth_struct_go in Hdp.
  rewrite (Hd _ _ _ _ E) by lia. rewrite (IH _ _ _ E2) by lia. reflexivity.
Qed.

Theorem dec_fuel_depth : forall f t bs v r, dec f t bs = Some (v, r) ->
  forall f', (depth v <= f')%nat -> dec f' t bs = Some (v, r).
Proof.
  induction f as [|f IH]; intros t bs v r H f' Hf'; [discriminate|].
  destruct f' as [|f']; [pose proof (depth_pos v); lia|].
  destruct t; cbn [dec] in H; cbn [dec]; try assumption.
  - destruct (fields (dec f) (S (length bs)) bs) as [[fs r0]|] eqn:E; [|discriminate]. injection H as <- <-.
    rewrite depth_struct_unfold in Hf'.
    rewrite (fields_transfer (dec f) (dec f') f' (fun t bs y r Hy Hdy => IH t bs y r Hy f' Hdy) _ _ _ _ E) by lia.
    reflexivity.
  - destruct (get_be 1 bs) as [[c r0]|]; [|discriminate].
    destruct (of_code c) as [kt|]; [|discriminate].
    destruct (get_be 1 r0) as [[c2 r1]|]; [|discriminate].
    destruct (of_code c2) as [vt|]; [|discriminate].
    destruct (get_count r1) as [[n r2]|]; [|discriminate].
    destruct (rep (pairp (dec f kt) (dec f vt)) n r2) as [[xs r3]|] eqn:E; [|discriminate]. injection H as <- <-.
    rewrite depth_map_unfold in Hf'.
    rewrite (rep_transfer (pairp (dec f kt) (dec f vt)) (pairp (dec f' kt) (dec f' vt))
               (fun kv => (depth (fst kv) <= f')%nat /\ (depth (snd kv) <= f')%nat)) with (xs := xs) (r := r3);
      [reflexivity | | exact E | apply depth_map_Forall; lia].
    intros b [k y] r' Hp [Hk Hy]. cbn [fst snd] in *. unfold pairp in *.
    destruct (dec f kt b) as [[k' r4]|] eqn:Ek; [|discriminate].
    destruct (dec f vt r4) as [[y' r5]|] eqn:Ey; [|discriminate]. injection Hp as -> -> ->.
    rewrite (IH _ _ _ _ Ek f' Hk), (IH _ _ _ _ Ey f' Hy). reflexivity.
  - destruct (get_be 1 bs) as [[c r0]|]; [|discriminate].
    destruct (of_code c) as [et|]; [|discriminate].
    destruct (get_count r0) as [[n r2]|]; [|discriminate].
    destruct (rep (dec f et) n r2) as [[xs r3]|] eqn:E; [|discriminate]. injection H as <- <-.
    rewrite depth_set_unfold in Hf'.
    rewrite (rep_transfer (dec f et) (dec f' et) (fun x => (depth x <= f')%nat)) with (xs := xs) (r := r3);
      [reflexivity | | exact E | apply depth_list_Forall; lia].
    intros b y r' Hp Hy. apply (IH _ _ _ _ Hp f' Hy).
  - destruct (get_be 1 bs) as [[c r0]|]; [|discriminate].
    destruct (of_code c) as [et|]; [|discriminate].
    destruct (get_count r0) as [[n r2]|]; [|discriminate].
    destruct (rep (dec f et) n r2) as [[xs r3]|] eqn:E; [|discriminate]. injection H as <- <-.
    rewrite depth_list_unfold in Hf'.
    rewrite (rep_transfer (dec f et) (dec f' et) (fun x => (depth x <= f')%nat)) with (xs := xs) (r := r3);
      [reflexivity | | exact E | apply depth_list_Forall; lia].
    intros b y r' Hp Hy. apply (IH _ _ _ _ Hp f' Hy).
Qed.

(* dec_struct never fails for lack of fuel: whatever any amount of fuel decodes, it decodes *)
Theorem dec_struct_complete f bs v r : dec f T_STRUCT bs = Some (v, r) -> dec_struct bs = Some (v, r).
Proof.
  intro H. unfold dec_struct. apply (dec_fuel_depth _ _ _ _ _ H).
  pose proof (dec_consumed _ _ _ _ _ H). lia.
Qed.

(* ------------------------------------------------------------------ byte-level forms of the Read clauses *)

Lemma wf_struct_app l1 l2 : wf (WStruct (l1 ++ l2)) <-> wf (WStruct l1) /\ wf (WStruct l2).
Proof. rewrite !wf_struct_iff, Forall_app. tauto. Qed.

Lemma wf_struct_cons u l : wf (WStruct (u :: l)) <-> wf (WStruct [u]) /\ wf (WStruct l).
Proof. apply (wf_struct_app [u] l). Qed.

(* the bytes of a struct with one more, skippable, field anywhere — followed by anything — are read
   exactly like the bytes without it *)
Theorem read_bytes_ignores_inserted e s init l1 u l2 rest :
  wf (WStruct (l1 ++ u :: l2)) -> skippable e s u = true ->
  read_bytes e s init (flat_map enc_field l1 ++ enc_field u ++ enc (WStruct l2) ++ rest) =
  read_bytes e s init (flat_map enc_field l1 ++ enc (WStruct l2) ++ rest).
Proof.
  intros Hwf Hsk.
  assert (Hwf' : wf (WStruct (l1 ++ l2))).
  { apply wf_struct_app in Hwf. destruct Hwf as [H1 H2]. apply wf_struct_cons in H2.
    apply wf_struct_app. tauto. }
  assert (E1 : flat_map enc_field l1 ++ enc_field u ++ enc (WStruct l2) ++ rest = enc (WStruct (l1 ++ u :: l2)) ++ rest).
  { rewrite enc_struct_app. change (u :: l2) with ([u] ++ l2). rewrite (enc_struct_app [u] l2).
    cbn [flat_map]. rewrite app_nil_r, <- !app_assoc. reflexivity. }
  assert (E2 : flat_map enc_field l1 ++ enc (WStruct l2) ++ rest = enc (WStruct (l1 ++ l2)) ++ rest).
  { rewrite enc_struct_app, <- !app_assoc. reflexivity. }
  rewrite E1, E2. unfold read_bytes. rewrite !dec_struct_enc by assumption.
  apply read_ignores_inserted. assumption.
Qed.

(* no proper prefix of what Write produced is accepted *)
Theorem read_bytes_truncated e s init w n :
  wf w -> wtype w = T_STRUCT -> (n < length (enc w))%nat ->
  read_bytes e s init (firstn n (enc w)) = Err EDecode.
Proof.
  intros Hwf Ht Hn. unfold read_bytes, dec_struct. rewrite <- Ht.
  rewrite dec_prefix_fails by assumption. reflexivity.
Qed.

Corollary written_bytes_truncated e s v bs init n :
  wf_env e = true -> wt e s v = true -> write_bytes e s v = Ok bs -> (n < length bs)%nat ->
  read_bytes e s init (firstn n bs) = Err EDecode.
Proof.
  intros Henv Hwt Hw Hn. unfold write_bytes in Hw.
  destruct (to_wire e s v) as [w|] eqn:E; [|discriminate]. injection Hw as <-.
  destruct (to_w_wf e Henv v _ _ _ (wt_wt_val _ _ _ Hwt) E) as [Hwf Hty].
  apply read_bytes_truncated; try assumption. rewrite Hty. apply (ttype_of_spec e (TRef (s_name s))).
Qed.

(* read_bytes does not depend on fuel: whatever any fuel decodes is what it reads *)
Theorem read_bytes_any_fuel e s init f bs w r :
  dec f T_STRUCT bs = Some (w, r) -> read_bytes e s init bs = from_wire e s init w.
Proof. intro H. unfold read_bytes. rewrite (dec_struct_complete _ _ _ _ H). reflexivity. Qed.

(* ------------------------------------------------------------------ Read into an existing object *)

Fixpoint slot_of (id : Z) (fs : list (Z * value)) : option value :=
  match fs with [] => None | (i, v) :: r => if i =? id then Some v else slot_of id r end.

Lemma slot_of_set_field_other id id' v fs : id <> id' -> slot_of id (set_field id' v fs) = slot_of id fs.
Proof.
  intro Hne. induction fs as [|[i x] fs IH]; [reflexivity|]. cbn [set_field map fst].
  destruct (Z.eqb_spec i id').
  - cbn [slot_of fst]. subst i. destruct (Z.eqb_spec id' id); [congruence|]. exact IH.
  - cbn [slot_of]. destruct (i =? id); [reflexivity | exact IH].
Qed.

Lemma set_field_ids id v fs : map fst (set_field id v fs) = map fst fs.
Proof.
  induction fs as [|[i x] fs IH]; [reflexivity|]. cbn [set_field map fst].
  destruct (i =? id); cbn [fst]; f_equal; exact IH.
Qed.

Lemma read_step_frame e s st wf st' :
  read_step e s st wf = Ok st' ->
  map fst (fst st') = map fst (fst st) /\
  forall id, id <> snd (fst wf) -> slot_of id (fst st') = slot_of id (fst st).
Proof.
  unfold read_step. destruct (find_field (snd (fst wf)) (s_fields s)) as [f|] eqn:Hf.
  - destruct (find_field_In _ _ _ Hf) as [_ Hid].
    destruct (ttype_eqb (fst (fst wf)) (ttype_of e (f_ty f))).
    + destruct (from_w e (f_ty f) (snd wf)) as [v|]; [|discriminate]. cbn [bind]. intros [= <-]. cbn [fst].
      split; [apply set_field_ids|]. intros id Hne. apply slot_of_set_field_other. congruence.
    + intros [= <-]. auto.
  - intros [= <-]. auto.
Qed.

(* Read touches only the slots whose ids occur on the wire; every other slot of the object it reads
   into keeps its value, and no slot is added, dropped or moved *)
Theorem read_frame e s fs0 wfs fs' :
  from_wire e s (VStruct fs0) (WStruct wfs) = Ok (VStruct fs') ->
  map fst fs' = map fst fs0 /\
  forall id, ~ In id (map (fun wf => snd (fst wf)) wfs) -> slot_of id fs' = slot_of id fs0.
Proof.
  unfold from_wire. intro H. apply bind_ok in H. destruct H as (st & Hfold & Hfin).
  unfold finish_read in Hfin. destruct (first_missing (s_fields s) (snd st)); [discriminate|].
  injection Hfin as <-.
  revert Hfold. generalize (@nil Z). revert fs0.
  induction wfs as [|wf wfs IH]; intros fs0 seen Hfold; cbn [foldM] in Hfold.
  - injection Hfold as <-. auto.
  - destruct (read_step e s (fs0, seen) wf) as [[fs1 seen1]|] eqn:E; [|discriminate].
    destruct (read_step_frame _ _ _ _ _ E) as [Hids Hslots]. cbn [fst] in *.
    destruct (IH _ _ Hfold) as [Hids' Hslots']. split; [congruence|].
    intros id Hnot.
    assert (H1 : id <> snd (fst wf)) by (intro Heq; apply Hnot; left; symmetry; exact Heq).
    assert (H2 : ~ In id (map (fun wf0 : ttype * Z * wval => snd (fst wf0)) wfs)) by (intro Hin; apply Hnot; right; exact Hin).
    rewrite (Hslots' id H2). apply Hslots. exact H1.
Qed.

(* ------------------------------------------------------------------ duplicates: the last one wins *)

Lemma foldM_app {A S} (step : S -> A -> result S) l1 l2 st :
  foldM step (l1 ++ l2) st = bind (foldM step l1 st) (foldM step l2).
Proof.
  revert st; induction l1 as [|x l1 IH]; intro st; [reflexivity|]. cbn [app foldM].
  destruct (step st x); [apply IH | reflexivity].
Qed.

Lemma slot_of_set_field_same id v fs : In id (map fst fs) -> slot_of id (set_field id v fs) = Some v.
Proof.
  induction fs as [|[i x] fs IH]; [intros []|]. cbn [map fst In set_field]. intro H.
  destruct (Z.eqb_spec i id) as [->|Hne].
  - cbn [slot_of fst]. rewrite Z.eqb_refl. reflexivity.
  - cbn [slot_of]. destruct (Z.eqb_spec i id); [contradiction|]. apply IH. destruct H; [contradiction | assumption].
Qed.

(* when the same field occurs again at the end of the input, the object ends up holding the later
   occurrence, whatever the earlier ones were: the whole slot is replaced *)
Theorem read_last_wins e s fs0 wfs f x v fs' :
  find_field (f_id f) (s_fields s) = Some f ->
  from_w e (f_ty f) x = Ok v ->
  from_wire e s (VStruct fs0) (WStruct (wfs ++ [(ttype_of e (f_ty f), f_id f, x)])) = Ok (VStruct fs') ->
  In (f_id f) (map fst fs0) ->
  slot_of (f_id f) fs' = Some (wrap_slot f v).
Proof.
  intros Hf Hx H Hin. unfold from_wire in H. apply bind_ok in H. destruct H as (st & Hfold & Hfin).
  unfold finish_read in Hfin. destruct (first_missing (s_fields s) (snd st)); [discriminate|]. injection Hfin as <-.
  rewrite foldM_app in Hfold. apply bind_ok in Hfold. destruct Hfold as (st1 & H1 & H2).
  cbn [foldM] in H2. rewrite (read_step_field e s f x v st1 Hf Hx) in H2. injection H2 as <-. cbn [fst].
  apply slot_of_set_field_same.
  assert (Hids : map fst (fst st1) = map fst fs0).
  { clear - H1. revert H1. generalize (@nil Z). revert fs0.
    induction wfs as [|wf wfs IH]; intros fs0 seen H1; cbn [foldM] in H1.
    - injection H1 as <-. reflexivity.
    - destruct (read_step e s (fs0, seen) wf) as [[fs1 seen1]|] eqn:E; [|discriminate].
      destruct (read_step_frame _ _ _ _ _ E) as [Hi _]. cbn [fst] in Hi. rewrite (IH _ _ H1). exact Hi. }
  rewrite Hids. exact Hin.
Qed.

Theorem getters_show f v :
  (supports_isset f = true -> isset f v = true -> getter f v = deref f v) /\
  (supports_isset f = true -> isset f v = false -> getter f v = default_var f) /\
  (supports_isset f = false -> getter f v = v) /\
  (base_ptr f = true -> getter f (wrap_slot f v) = v).
Proof. repeat split; [apply getter_set | apply getter_unset | apply getter_plain | apply getter_wrap_slot]. Qed.
