(* Corr/C01.v — cases for C01.
   NsCase: a sequence of Namespace operations run on the real pkg/namespace with one of the
   rename functions used by the generator, and the value every operation returned.
   BuildCase: one (program, option set) run through the real thriftgo: did it exit 0, did
   every written .go file parse, did the whole output tree type-check (go build / go vet).
   Codes:
     1  namespace model and implementation disagree                  (correspondence)
     2  two different ids hold the same name in the implementation     (property oracle)
     3  thriftgo exited 0 but a written .go file is not valid Go syntax (property oracle)
     4  thriftgo exited 0 but the generated packages do not type-check (property oracle)
     5  thriftgo exited 0 but wrote no Go file at all                  (property oracle)
     9  model out of fuel *)
From Coq Require Import List Arith Bool NArith.
From Verif Require Import Base.Bytes Gen.Namespace.
Import ListNotations.

Inductive rename_kind := RUnderscore | RImport | RNumber.
Definition rename_of (k : rename_kind) : bytes -> nat -> bytes :=
  match k with RUnderscore => underscore_suffix | RImport => import_suffix | RNumber => number_suffix end.

(* observed results: a name (Add/Get/ID) or a boolean (Reserve) *)
Inductive obs := OName (n : bytes) | OBool (b : bool).

Inductive case :=
| NsCase (k : rename_kind) (ops : list op) (outs : list obs)
         (final_ids : list (bytes * bytes))  (* (id, Get id) for every id used, asked at the end *)
| BuildCase (exit0 parse_ok build_ok : bool) (go_files : N).

Definition obs_eqb (v : outv) (o : obs) : bool :=
  match v, o with
  | VName a, OName b => beqb a b
  | VBool a, OBool b => Bool.eqb a b
  | _, _ => false
  end.

Fixpoint outs_eqb (vs : list outv) (os : list obs) : bool :=
  match vs, os with
  | [], [] => true
  | v :: vs', o :: os' => obs_eqb v o && outs_eqb vs' os'
  | _, _ => false
  end.

Fixpoint dup_name (l : list (bytes * bytes)) : bool :=
  match l with
  | [] => false
  | (i, n) :: r => (negb (beqb n []) && existsb (fun p => beqb (snd p) n && negb (beqb (fst p) i)) r) || dup_name r
  end.

Definition check (c : case) : list N :=
  match c with
  | NsCase k ops outs finals =>
      let '(_, vs) := run_ops (rename_of k) ns0 ops in
      (if existsb (fun v => match v with VFuel => true | _ => false end) vs then [9%N]
       else if outs_eqb vs outs then [] else [1%N]) ++
      (if dup_name finals then [2%N] else [])
  | BuildCase exit0 parse_ok build_ok nfiles =>
      if exit0 then (if parse_ok then [] else [3%N]) ++ (if build_ok then [] else [4%N]) ++
                    (if N.eqb nfiles 0 then [5%N] else [])
      else []
  end.

Fixpoint mismatches_from (i : N) (cs : list case) : list (N * N) :=
  match cs with
  | [] => []
  | c :: r => map (fun code => (i, code)) (check c) ++ mismatches_from (i + 1)%N r
  end.
Definition mismatches (cs : list case) : list (N * N) := mismatches_from 0%N cs.
