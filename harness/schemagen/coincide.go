package schemagen

// AddNameCoincidence appends definitions in which DECLARED structs carry the names thriftgo gives
// to the types it synthesizes for service functions: `<method>_args`, `<method>_result` (the IDL
// names announced by WriteStructBegin and the keys of the generator's name table) and
// `<Service><Method>Args` (the Go name in the styles' output form). The declared structs are used as
// field, list-element and map-value types next to the service that has the method, in the main
// file and — when the program has one — in an included file. A generator that resolves such a field
// type to the synthesized type instead of the declared one still compiles but reads and writes the
// wrong members. Names are fixed (prefix pr_ / Pr); call it once per program.
func AddNameCoincidence(p *Program) {
	add := func(f *File, svc, method string) {
		q := func(n string) string { return f.Name + "." + n }
		str := &Type{Kind: "string"}
		args := &Struct{File: f.Name, Name: method + "_args", Kind: "struct", Fields: []*Field{
			{ID: 1, Name: "text", Req: "required", ReqText: "required", Type: str},
			{ID: 2, Name: "repeat", Req: "optional", ReqText: "optional", Type: &Type{Kind: "i32"}, Default: &Lit{Kind: "int", Int: 1}},
		}}
		res := &Struct{File: f.Name, Name: method + "_result", Kind: "struct", Fields: []*Field{
			{ID: 0, Name: "note", Req: "optional", ReqText: "optional", Type: &Type{Kind: "double"}},
			{ID: 1, Name: "code", Req: "required", ReqText: "required", Type: &Type{Kind: "i64"}},
		}}
		// identify("<method>_args") in every naming style used here upper-cases the parts: pr_echo -> PrEcho
		goM := ""
		up := true
		for _, c := range method {
			switch {
			case c == '_':
				up = true
			case up:
				goM += string(c &^ 0x20)
				up = false
			default:
				goM += string(c)
			}
		}
		styled := &Struct{File: f.Name, Name: svc + goM + "Args", Kind: "struct", Fields: []*Field{
			{ID: 1, Name: "who", Req: "default", Type: str},
			{ID: 3, Name: "level", Req: "optional", ReqText: "optional", Type: &Type{Kind: "i16"}},
		}}
		argsT := &Type{Kind: "struct", Name: q(args.Name)}
		resT := &Type{Kind: "struct", Name: q(res.Name)}
		styledT := &Type{Kind: "struct", Name: q(styled.Name)}
		audit := &Struct{File: f.Name, Name: svc + "Audit", Kind: "struct", Fields: []*Field{
			{ID: 1, Name: "req", Req: "default", Type: argsT},
			{ID: 2, Name: "results", Req: "default", Type: &Type{Kind: "list", Elem: resT}},
			{ID: 3, Name: "by_key", Req: "optional", ReqText: "optional", Type: &Type{Kind: "map", Key: str, Elem: argsT}},
			{ID: 4, Name: "last", Req: "optional", ReqText: "optional", Type: resT},
			{ID: 5, Name: "styled", Req: "optional", ReqText: "optional", Type: styledT},
			{ID: 6, Name: "styled_list", Req: "default", Type: &Type{Kind: "list", Elem: styledT}},
			{ID: 7, Name: "styled_map", Req: "default", Type: &Type{Kind: "map", Key: &Type{Kind: "i32"}, Elem: styledT}},
		}}
		service := &Service{File: f.Name, Name: svc, Functions: []*Function{
			{Name: method, Ret: str, Args: []*Field{
				{ID: 1, Name: "times", Req: "default", Type: &Type{Kind: "i32"}},
				{ID: 2, Name: "payload", Req: "default", Type: &Type{Kind: "binary"}},
			}},
		}}
		f.Defs = append(f.Defs, &Def{Struct: args}, &Def{Struct: res}, &Def{Struct: styled}, &Def{Struct: audit}, &Def{Service: service})
	}
	add(p.Files[0], "PrSvc", "pr_echo")
	if len(p.Files) > 1 {
		add(p.Files[len(p.Files)-1], "PrInc", "pr_ping")
	}
}
