(* Idl/TrimResolved.v — C16: the trimmed program resolves, stated for the OUTPUT of the
   resolver.  The hypotheses of [trim_resolves] about type occurrences and base-service
   References are derived from C05 ([resolved_occ], [resolve_service_ref]) and moved from
   the parsed program to the resolved one with [resolution_preserves_definitions]. *)
From Coq Require Import List Bool Arith NArith ZArith Lia.
From Coq.Strings Require Import Byte.
From Verif Require Import Base.Bytes Idl.Ast Idl.AstUtil Idl.AstFacts Idl.Trim Idl.TrimSpec Idl.TrimFacts.
From Verif Require Import Idl.ResolveSpec Idl.ResolvableSpec Idl.ResolvableConst Idl.ResolveInv Idl.ResolveLemmas Idl.ResolveDeref.
From Verif Require Idl.Resolve Idl.ResolveFacts Idl.ResolveService Idl.ResolveSyntax Idl.TrimResolves.
Import ListNotations.

Lemma spec_include_ext p r ok pre m incs :
  (forall fn n, def_of r fn n = def_of p fn n) ->
  forall idx, spec_include r ok pre m incs idx = spec_include p ok pre m incs idx.
Proof.
  intros Hd. induction incs as [|[pre' ref] incs IH]; intros idx; cbn [spec_include]; [reflexivity|].
  rewrite IH. destruct ref as [gn|]; [rewrite Hd|]; reflexivity.
Qed.

Section Transfer.
  Context (p r : program).
  Context (Hfiles : forall fn f, prog_file p fn = Some f ->
             exists f', prog_file r fn = Some f' /\ file_incs f' = file_incs f).
  Context (Hd : forall fn n, def_of r fn n = def_of p fn n).

  Lemma denotes_transfer :
    (forall fn n d, def_denotes p fn n d -> def_denotes r fn n d) /\
    (forall fn n d, name_denotes p fn n d -> name_denotes r fn n d).
  Proof.
    apply denotes_mutind.
    - intros fn n vs H. eapply dd_enum. rewrite Hd. exact H.
    - intros fn n k H. eapply dd_struct. rewrite Hd. exact H.
    - intros fn n tgt d H _ IH. eapply dd_typedef; [rewrite Hd; exact H | exact IH].
    - intros fn n c H. apply nd_builtin. exact H.
    - intros fn n a d Hb Hs _ IH. eapply nd_local; eauto.
    - intros fn f n pre m i gn d Hb Hs Hf Hi _ IH.
      destruct (Hfiles fn f Hf) as (f' & Hf' & Hi').
      eapply nd_qualified; [exact Hb | exact Hs | exact Hf' | | exact IH].
      rewrite Hi', (spec_include_ext p r) by exact Hd. exact Hi.
  Qed.

  Lemma occ_good_transfer fn f f' t :
    file_incs f' = file_incs f -> occ_good p fn f t -> occ_good r fn f' t.
  Proof.
    intros Hi H. unfold occ_good in *. destruct (builtin_category (ty_name t)); [exact H|].
    destruct (split_type (ty_name t)) as [|a [|m [|x l]]]; try exact H.
    - destruct H as (k & d & H1 & H2 & H3 & H4). exists k, d. rewrite Hd.
      split; [exact H1|]. split; [exact H2|]. split; [apply (proj1 denotes_transfer); exact H3 | exact H4].
    - destruct H as (i & gn & k & d & H1 & H2 & H3 & H4). exists i, gn, k, d.
      rewrite Hi, (spec_include_ext p r) by exact Hd. rewrite Hd.
      split; [exact H1|]. split; [exact H2|]. split; [apply (proj1 denotes_transfer); exact H3 | exact H4].
  Qed.
End Transfer.

Theorem trim_resolves_of_resolved matches cp c p0 r q fin :
  parsed_program p0 = true ->
  Resolve.resolve_program p0 = Resolve.Ok r ->
  (forall fn f', prog_file r fn = Some f' -> f_name2cat f' <> None) ->
  resolvable r = true ->
  wf r ->
  (forall fn f k s, prog_file r fn = Some f -> In s (sl_list k f) -> sl_category s = k) ->
  mark_ast matches cp c r (prog_size r) = Ok fin ->
  reach cp c r false (prog_size r) fin (main_name r) nil = Ok q ->
  resolvable q = true /\ exists r', Resolve.resolve_program q = Resolve.Ok r'.
Proof.
  intros Hp Hr Hn Hres Hwf Hk Hm Hq.
  destruct (ResolveSyntax.resolution_preserves_definitions p0 r Hr) as (G & N & Hd).
  assert (Hfiles : forall fn f, prog_file p0 fn = Some f ->
             exists f', prog_file r fn = Some f' /\ file_incs f' = file_incs f).
  { intros fn f Hf. destruct (prog_file r fn) as [f'|] eqn:Rf.
    - destruct (G fn f' Rf) as (f1 & Hf1 & _ & Hi). exists f'. split; [reflexivity|]. congruence.
    - apply N in Rf. congruence. }
  apply (TrimResolves.trim_resolves matches cp c r q fin Hwf Hm Hq Hres).
  - intros fn f' Hf' t Ht.
    destruct (ResolveFacts.resolved_occ p0 r Hp Hr fn f' t Hf' (Hn fn f' Hf') Ht) as (f & Hf & Ho).
    destruct (G fn f' Hf') as (f1 & Hf1 & _ & Hi). assert (f1 = f) by congruence. subst f1.
    exact (occ_good_transfer p0 r Hfiles Hd fn f f' t Hi Ho).
  - exact Hk.
  - intros fn f' s Hf' Hs.
    destruct (ResolveService.resolve_service_ref p0 r Hp Hr fn f' s Hf' (Hn fn f' Hf') Hs) as (f & Hf & Hg).
    destruct (G fn f' Hf') as (f1 & Hf1 & _ & Hi). assert (f1 = f) by congruence. subst f1.
    unfold ResolveService.sv_good in Hg.
    destruct (split_type (sv_extends s)) as [|a [|m [|x l]]]; try exact Hg.
    + exact (proj2 Hg).
    + destruct Hg as (i & gn & H1 & _ & H3). exists i, gn.
      rewrite Hi, (spec_include_ext p0 r) by exact Hd. split; assumption.
Qed.
