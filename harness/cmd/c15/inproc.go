package main

import (
	"bytes"
	"compress/gzip"
	"fmt"
	"io"
	"os"
	"reflect"
	"sort"
	"strings"

	"github.com/cloudwego/thriftgo/parser"
	"github.com/cloudwego/thriftgo/semantic"
	tr "github.com/cloudwego/thriftgo/thrift_reflection"

	"verif/harness/coqfmt"
	"verif/harness/refldump"
)

// Case is the JSON description of one case (replay files, classification in checks/c15.py).
type Case struct {
	Kind     string            `json:"kind"`
	Via      string            `json:"via"`
	Program  string            `json:"program"`
	File     string            `json:"file,omitempty"`
	DupBase  bool              `json:"dup_include_basenames"` // the file includes two files of one base name
	Main     string            `json:"main,omitempty"`
	Sources  map[string]string `json:"sources,omitempty"`
	Observed interface{}       `json:"observed,omitempty"`
	Note     string            `json:"note,omitempty"`
	coq      string
}

// ---------------------------------------------------------------- the front end, as thriftgo runs it

func parseTree(root, mainRel string) (t *parser.Thrift, err error) {
	defer func() {
		if r := recover(); r != nil {
			err = fmt.Errorf("panic: %v", r)
		}
	}()
	wd, _ := os.Getwd()
	defer os.Chdir(wd)
	if err := os.Chdir(root); err != nil {
		return nil, err
	}
	return parser.ParseFile(mainRel, nil, true)
}

func semOK(main *parser.Thrift) (err error) {
	defer func() {
		if r := recover(); r != nil {
			err = fmt.Errorf("panic: %v", r)
		}
	}()
	if path := parser.CircleDetect(main); len(path) > 0 {
		return fmt.Errorf("include circle")
	}
	checker := semantic.NewChecker(semantic.Options{FixWarnings: true})
	if _, err := checker.CheckAll(main); err != nil {
		return err
	}
	return semantic.ResolveSymbols(main)
}

func files(main *parser.Thrift) []*parser.Thrift {
	seen := map[*parser.Thrift]bool{}
	var out []*parser.Thrift
	var walk func(t *parser.Thrift)
	walk = func(t *parser.Thrift) {
		if t == nil || seen[t] {
			return
		}
		seen[t] = true
		out = append(out, t)
		for _, i := range t.Includes {
			walk(i.Reference)
		}
	}
	walk(main)
	return out
}

// the key GetFileDescriptor files an include under
func includeAlias(path string) string {
	arr := strings.Split(path, "/")
	return strings.TrimSuffix(arr[len(arr)-1], ".thrift")
}

func dupBasenames(t *parser.Thrift) bool {
	seen := map[string]bool{}
	for _, inc := range t.Includes {
		if inc.Reference == nil {
			continue
		}
		a := includeAlias(inc.Reference.Filename)
		if seen[a] {
			return true
		}
		seen[a] = true
	}
	return false
}

// ---------------------------------------------------------------- Coq printing of observations

func cb(s string) string { return coqfmt.Bytes(s) }

type found struct {
	Path string `json:"path"`
	Name string `json:"name"`
}

func foundCoq(f *found) string {
	if f == nil {
		return "None"
	}
	return "(Some (" + cb(f.Path) + ", " + cb(f.Name) + "))"
}

type ffound struct {
	Name string `json:"name"`
	ID   int32  `json:"id"`
}

func ffoundCoq(f *ffound) string {
	if f == nil {
		return "None"
	}
	return "(Some (" + cb(f.Name) + ", " + coqfmt.Z(int64(f.ID)) + "))"
}

var kinds = []string{"QStruct", "QUnion", "QException", "QEnum", "QTypedef", "QConst", "QService"}

func guard(f func()) (panicked bool) {
	defer func() {
		if r := recover(); r != nil {
			panicked = true
		}
	}()
	f()
	return false
}

// getByKind runs FileDescriptor.Get<Kind>Descriptor(name).
func getByKind(fd *tr.FileDescriptor, kind int, name string) (res *found, panicked bool) {
	panicked = guard(func() {
		switch kind {
		case 0:
			if d := fd.GetStructDescriptor(name); d != nil {
				res = &found{d.Filepath, d.Name}
			}
		case 1:
			if d := fd.GetUnionDescriptor(name); d != nil {
				res = &found{d.Filepath, d.Name}
			}
		case 2:
			if d := fd.GetExceptionDescriptor(name); d != nil {
				res = &found{d.Filepath, d.Name}
			}
		case 3:
			if d := fd.GetEnumDescriptor(name); d != nil {
				res = &found{d.Filepath, d.Name}
			}
		case 4:
			if d := fd.GetTypedefDescriptor(name); d != nil {
				res = &found{d.Filepath, d.Alias}
			}
		case 5:
			if d := fd.GetConstDescriptor(name); d != nil {
				res = &found{d.Filepath, d.Name}
			}
		case 6:
			if d := fd.GetServiceDescriptor(name); d != nil {
				res = &found{d.Filepath, d.Name}
			}
		}
	})
	return
}

func globalByKind(gd *tr.GlobalDescriptor, kind int, name, path string) (res *found, panicked bool) {
	panicked = guard(func() {
		switch kind {
		case 0:
			if d := gd.LookupStruct(name, path); d != nil {
				res = &found{d.Filepath, d.Name}
			}
		case 1:
			if d := gd.LookupUnion(name, path); d != nil {
				res = &found{d.Filepath, d.Name}
			}
		case 2:
			if d := gd.LookupException(name, path); d != nil {
				res = &found{d.Filepath, d.Name}
			}
		case 3:
			if d := gd.LookupEnum(name, path); d != nil {
				res = &found{d.Filepath, d.Name}
			}
		case 4:
			if d := gd.LookupTypedef(name, path); d != nil {
				res = &found{d.Filepath, d.Alias}
			}
		case 5:
			if d := gd.LookupConst(name, path); d != nil {
				res = &found{d.Filepath, d.Name}
			}
		case 6:
			if d := gd.LookupService(name, path); d != nil {
				res = &found{d.Filepath, d.Name}
			}
		}
	})
	return
}

// names defined by a file, per kind
func defNames(t *parser.Thrift) [7][]string {
	var out [7][]string
	for _, s := range t.Structs {
		out[0] = append(out[0], s.Name)
	}
	for _, s := range t.Unions {
		out[1] = append(out[1], s.Name)
	}
	for _, s := range t.Exceptions {
		out[2] = append(out[2], s.Name)
	}
	for _, s := range t.Enums {
		out[3] = append(out[3], s.Name)
	}
	for _, s := range t.Typedefs {
		out[4] = append(out[4], s.Alias)
	}
	for _, s := range t.Constants {
		out[5] = append(out[5], s.Name)
	}
	for _, s := range t.Services {
		out[6] = append(out[6], s.Name)
	}
	return out
}

var builtin = map[string]bool{"bool": true, "byte": true, "i8": true, "i16": true, "i32": true, "i64": true, "double": true,
	"string": true, "binary": true, "map": true, "set": true, "list": true, "void": true}

func typeNames(t *parser.Thrift) []string {
	seen := map[string]bool{}
	var out []string
	var walk func(x *parser.Type)
	walk = func(x *parser.Type) {
		if x == nil {
			return
		}
		if !builtin[x.Name] && !seen[x.Name] {
			seen[x.Name] = true
			out = append(out, x.Name)
		}
		walk(x.KeyType)
		walk(x.ValueType)
	}
	flds := func(fs []*parser.Field) {
		for _, f := range fs {
			walk(f.Type)
		}
	}
	for _, d := range t.Typedefs {
		walk(d.Type)
	}
	for _, c := range t.Constants {
		walk(c.Type)
	}
	for _, s := range t.GetStructLikes() {
		flds(s.Fields)
	}
	for _, s := range t.Services {
		for _, fn := range s.Functions {
			walk(fn.FunctionType)
			flds(fn.Arguments)
			flds(fn.Throws)
		}
	}
	return out
}

func uniq(xs []string) []string {
	seen := map[string]bool{}
	var out []string
	for _, x := range xs {
		if !seen[x] {
			seen[x] = true
			out = append(out, x)
		}
	}
	return out
}

func gunzip(data []byte) ([]byte, error) {
	r, err := gzip.NewReader(bytes.NewReader(data))
	if err != nil {
		return nil, err
	}
	defer r.Close()
	return io.ReadAll(r)
}

// ---------------------------------------------------------------- the cases of one program

type progCtx struct {
	name    string
	main    *parser.Thrift
	all     []*parser.Thrift
	sources map[string]string
	mainRel string
	raws    *rawPool
	limit   int // cap on names per lookup case
	serial  *int
	st      *stats
}

func (c *progCtx) mk(kind string, t *parser.Thrift, coq string, observed interface{}) *Case {
	cs := &Case{Kind: kind, Via: "in-process", Program: c.name, coq: coq, Observed: observed}
	if t != nil {
		cs.File = t.Filename
		cs.DupBase = dupBasenames(t)
	}
	return cs
}

func safeFD(t *parser.Thrift) (fd *tr.FileDescriptor, panicked bool) {
	panicked = guard(func() { fd = tr.GetFileDescriptor(t) })
	return
}

// fileCase: GetFileDescriptor, Marshal, Unmarshal on one file.
func (c *progCtx) fileCase(t *parser.Thrift) *Case {
	fd, panicked := safeFD(t)
	if panicked || fd == nil {
		c.st.Panics++
		return c.mk("file", t, fmt.Sprintf("FileCase 0%%N %s None None false", cb(t.Filename)), "panic in GetFileDescriptor")
	}
	dump := refldump.FromFile(fd)
	wire := "None"
	rt := false
	note := ""
	var data []byte
	var err error
	if guard(func() { data, err = fd.Marshal() }) {
		err = fmt.Errorf("panic in Marshal")
	}
	if err == nil {
		if raw, gerr := gunzip(data); gerr == nil {
			wire = "(Some " + c.raws.add(raw) + ")"
			c.st.WireBytes += len(raw)
		} else {
			note = "gunzip: " + gerr.Error()
		}
		var back *tr.FileDescriptor
		var uerr error
		if guard(func() { back, uerr = tr.Unmarshal(data) }) {
			uerr = fmt.Errorf("panic in Unmarshal")
		}
		if uerr == nil && back != nil {
			rt = refldump.FromFile(back).JSON() == dump.JSON()
			if !rt {
				note = "Unmarshal(Marshal(d)) differs from d"
			}
		} else if uerr != nil {
			note = "Unmarshal: " + uerr.Error()
		}
	} else {
		note = "Marshal: " + err.Error()
	}
	if !rt {
		c.st.RoundTripFailures++
	}
	cs := c.mk("file", t, fmt.Sprintf("FileCase 0%%N %s (Some %s) %s %s", cb(t.Filename), dump.Coq(), wire, coqfmt.Bool(rt)), dump)
	cs.Note = note
	c.st.noteDescriptor(dump)
	return cs
}

type lookupObs struct {
	Kind  string `json:"kind"`
	Name  string `json:"name"`
	Found *found `json:"found"`
}

func (c *progCtx) lookupCase(t *parser.Thrift, fd *tr.FileDescriptor) *Case {
	var names []string
	defs := defNames(t)
	for _, l := range defs {
		names = append(names, l...)
	}
	names = append(names, typeNames(t)...)
	for _, s := range t.Services {
		if s.Extends != "" {
			names = append(names, s.Extends)
		}
	}
	local := "X"
	if len(names) > 0 {
		local = names[0]
	}
	for _, inc := range t.Includes {
		if inc.Reference == nil {
			continue
		}
		alias := includeAlias(inc.Reference.Filename)
		n := 0
		for _, l := range defNames(inc.Reference) {
			for _, x := range l {
				if n < 4 {
					names = append(names, alias+"."+x)
					n++
				}
			}
		}
		names = append(names, alias+".Nope_", alias+".")
	}
	names = append(names, "Nope_", "nope_."+local, "", ".", local+".", "."+local)
	names = uniq(names)
	if len(names) > c.limit {
		// keep the type names and the odd ones: drop from the middle
		names = append(names[:c.limit-6], names[len(names)-6:]...)
	}
	var qs []string
	var obs []lookupObs
	for _, n := range names {
		for k := range kinds {
			res, panicked := getByKind(fd, k, n)
			if panicked {
				c.st.Panics++
				continue
			}
			qs = append(qs, fmt.Sprintf("(%s, %s, %s)", kinds[k], cb(n), foundCoq(res)))
			obs = append(obs, lookupObs{kinds[k], n, res})
			c.st.Lookups++
			if res != nil {
				c.st.LookupsFound++
				if res.Path != t.Filename {
					c.st.LookupsAcrossFiles++
				}
			}
		}
	}
	return c.mk("lookup", t, fmt.Sprintf("LookupCase %s %s", cb(t.Filename), coqfmt.List(qs)), obs)
}

type methodObs struct {
	Service string `json:"service"`
	Method  string `json:"method"`
	Found   *found `json:"found"`
}

func (c *progCtx) methodCase(t *parser.Thrift, fd *tr.FileDescriptor) *Case {
	type q struct{ s, m string }
	var asks []q
	for _, s := range t.Services {
		for _, fn := range s.Functions {
			asks = append(asks, q{s.Name, fn.Name}, q{"", fn.Name})
		}
		asks = append(asks, q{s.Name, "nope_"})
	}
	for _, inc := range t.Includes {
		if inc.Reference == nil {
			continue
		}
		alias := includeAlias(inc.Reference.Filename)
		for _, s := range inc.Reference.Services {
			for i, fn := range s.Functions {
				if i < 2 {
					asks = append(asks, q{alias + "." + s.Name, fn.Name})
				}
			}
		}
	}
	asks = append(asks, q{"Nope_", "x"}, q{"", "nope_"})
	if len(asks) > 3*c.limit {
		asks = asks[:3*c.limit]
	}
	var qs []string
	var obs []methodObs
	for _, a := range asks {
		var res *found
		if guard(func() {
			if m := fd.GetMethodDescriptor(a.s, a.m); m != nil {
				res = &found{m.Filepath, m.Name}
			}
		}) {
			c.st.Panics++
			continue
		}
		qs = append(qs, fmt.Sprintf("(%s, %s, %s)", cb(a.s), cb(a.m), foundCoq(res)))
		obs = append(obs, methodObs{a.s, a.m, res})
		c.st.Lookups++
	}
	return c.mk("method", t, fmt.Sprintf("MethodCase %s %s", cb(t.Filename), coqfmt.List(qs)), obs)
}

type fieldObs struct {
	ByName map[string]*ffound `json:"by_name"`
	ByID   map[string]*ffound `json:"by_id"`
}

func (c *progCtx) fieldCases(t *parser.Thrift, fd *tr.FileDescriptor) []*Case {
	var out []*Case
	add := func(kind int, s *parser.StructLike, sd *tr.StructDescriptor) {
		if sd == nil {
			return
		}
		var names []string
		var ids []int32
		maxID := int32(0)
		for _, f := range s.Fields {
			names = append(names, f.Name)
			ids = append(ids, f.ID)
			if f.ID > maxID {
				maxID = f.ID
			}
		}
		names = append(uniq(names), "nope_", "")
		ids = append(ids, maxID+1, -7, 0)
		obs := fieldObs{map[string]*ffound{}, map[string]*ffound{}}
		var bn, bi []string
		for _, n := range names {
			var res *ffound
			if f := sd.GetFieldByName(n); f != nil {
				res = &ffound{f.Name, f.ID}
			}
			bn = append(bn, fmt.Sprintf("(%s, %s)", cb(n), ffoundCoq(res)))
			obs.ByName[n] = res
		}
		seen := map[int32]bool{}
		for _, id := range ids {
			if seen[id] {
				continue
			}
			seen[id] = true
			var res *ffound
			if f := sd.GetFieldById(id); f != nil {
				res = &ffound{f.Name, f.ID}
			}
			bi = append(bi, fmt.Sprintf("(%s, %s)", coqfmt.Z(int64(id)), ffoundCoq(res)))
			obs.ByID[fmt.Sprint(id)] = res
		}
		c.st.Lookups += len(bn) + len(bi)
		out = append(out, c.mk("field", t, fmt.Sprintf("FieldCase %s %s %s %s %s", cb(t.Filename), kinds[kind], cb(s.Name),
			coqfmt.List(bn), coqfmt.List(bi)), obs))
	}
	n := 0
	for _, s := range t.Structs {
		if n < 4 {
			add(0, s, fd.GetStructDescriptor(s.Name))
			n++
		}
	}
	for i, s := range t.Unions {
		if i < 2 {
			add(1, s, fd.GetUnionDescriptor(s.Name))
		}
	}
	for i, s := range t.Exceptions {
		if i < 2 {
			add(2, s, fd.GetExceptionDescriptor(s.Name))
		}
	}
	return out
}

type parentObs struct {
	Parent  *found            `json:"parent"`
	FromAll map[string]*found `json:"from_all"`
}

func (c *progCtx) parentCases(t *parser.Thrift, fd *tr.FileDescriptor) []*Case {
	var out []*Case
	for _, s := range t.Services {
		sd := fd.GetServiceDescriptor(s.Name)
		if sd == nil {
			continue
		}
		var parent *found
		var names []string
		if guard(func() {
			if p := sd.GetParent(); p != nil {
				parent = &found{p.Filepath, p.Name}
			}
			// the chain as the implementation walks it, bounded (a cyclic chain would never end)
			cur := sd
			for depth := 0; cur != nil && depth < 16; depth++ {
				for _, m := range cur.Methods {
					names = append(names, m.Name)
				}
				cur = cur.GetParent()
			}
		}) {
			c.st.Panics++
			continue
		}
		names = append(uniq(names), "nope_")
		obs := parentObs{parent, map[string]*found{}}
		var fa []string
		for _, n := range names {
			var res *found
			if m := sd.GetMethodByNameFromAll(n); m != nil {
				res = &found{m.Filepath, m.Name}
			}
			fa = append(fa, fmt.Sprintf("(%s, %s)", cb(n), foundCoq(res)))
			obs.FromAll[n] = res
		}
		c.st.Lookups += 1 + len(fa)
		if parent != nil {
			c.st.ParentsFound++
		}
		out = append(out, c.mk("parent", t, fmt.Sprintf("ParentCase %s %s %s %s", cb(t.Filename), cb(s.Name), foundCoq(parent), coqfmt.List(fa)), obs))
	}
	return out
}

type globalObs struct {
	Kind  string `json:"kind"`
	Name  string `json:"name"`
	Path  string `json:"path"`
	Found *found `json:"found"`
}

func (c *progCtx) globalCase(gd *tr.GlobalDescriptor) *Case {
	// per kind: how many files define a name
	count := [7]map[string][]string{}
	for k := range count {
		count[k] = map[string][]string{}
	}
	for _, t := range c.all {
		for k, l := range defNames(t) {
			for _, n := range l {
				count[k][n] = append(count[k][n], t.Filename)
			}
		}
	}
	var qs []string
	var obs []globalObs
	ask := func(k int, name, path string) {
		res, panicked := globalByKind(gd, k, name, path)
		if panicked {
			c.st.Panics++
			return
		}
		qs = append(qs, fmt.Sprintf("(%s, %s, %s, %s)", kinds[k], cb(name), cb(path), foundCoq(res)))
		obs = append(obs, globalObs{kinds[k], name, path, res})
		c.st.Lookups++
	}
	other := func(not string) string {
		for _, t := range c.all {
			if t.Filename != not {
				return t.Filename
			}
		}
		return "nope_.thrift"
	}
	for k := range kinds {
		names := make([]string, 0, len(count[k]))
		for n := range count[k] {
			names = append(names, n)
		}
		sort.Strings(names)
		taken := 0
		for _, n := range names {
			if len(count[k][n]) != 1 || taken >= 4 {
				continue
			}
			taken++
			home := count[k][n][0]
			ask(k, n, "")
			ask(k, n, home)
			ask(k, n, other(home))
		}
		ask(k, "Nope_", "")
		ask(k, "Nope_", "nope_.thrift")
	}
	return c.mk("global", nil, fmt.Sprintf("GlobalCase %s", coqfmt.List(qs)), obs)
}

type goTypeObs struct {
	Types []int      `json:"types"`
	Fwd   []*int     `json:"fwd"`
	Bwd   [][]string `json:"bwd"`
}

var dynTypes = map[int]reflect.Type{}

func dynType(id int) reflect.Type {
	if t, ok := dynTypes[id]; ok {
		return t
	}
	t := reflect.StructOf([]reflect.StructField{{Name: fmt.Sprintf("F%d", id), Type: reflect.TypeOf(int(0))}})
	dynTypes[id] = t
	return t
}

// goTypeCase registers a copy of the descriptor (under a path of its own) with numbered Go types
// through the real BuildFileDescriptor and asks the type <-> descriptor maps.
func (c *progCtx) goTypeCase(t *parser.Thrift, dupEvery int) *Case {
	fd, panicked := safeFD(t)
	if panicked || fd == nil {
		return nil
	}
	*c.serial++
	fd.Filepath = fmt.Sprintf("c15-gotype/%d/%s", *c.serial, t.Filename)
	data, err := fd.Marshal()
	if err != nil {
		return nil
	}
	n := len(fd.Structs) + len(fd.Unions) + len(fd.Exceptions) + len(fd.Enums) + len(fd.Typedefs)
	ids := make([]int, n)
	goTypes := make([]interface{}, n)
	for i := range ids {
		*c.serial++
		ids[i] = *c.serial
		if dupEvery > 0 && i > 0 && i%dupEvery == 0 {
			ids[i] = ids[i-1] // two descriptors given one Go type (typedef aliases of one type)
			c.st.GoTypeDuplicates++
		}
		goTypes[i] = reflect.New(dynType(ids[i])).Interface()
	}
	var reg *tr.FileDescriptor
	if guard(func() {
		reg = tr.BuildFileDescriptor(&tr.FileDescriptorBuilder{Bytes: data, GoTypes: goTypes, GoPackagePath: "c15/gotype"})
	}) || reg == nil {
		c.st.Panics++
		return nil
	}
	idOf := func(rt reflect.Type) *int {
		if rt == nil {
			return nil
		}
		for id, t := range dynTypes {
			if t == rt {
				x := id
				return &x
			}
		}
		x := -1
		return &x
	}
	var sl []*tr.StructDescriptor
	sl = append(sl, reg.Structs...)
	sl = append(sl, reg.Unions...)
	sl = append(sl, reg.Exceptions...)
	obs := goTypeObs{Types: ids}
	var fwd, bwd []string
	addFwd := func(rt reflect.Type) {
		id := idOf(rt)
		obs.Fwd = append(obs.Fwd, id)
		if id == nil {
			fwd = append(fwd, "None")
		} else {
			fwd = append(fwd, fmt.Sprintf("(Some %d%%N)", *id))
		}
	}
	for _, s := range sl {
		addFwd(s.GetGoType())
	}
	for _, e := range reg.Enums {
		addFwd(e.GetGoType())
	}
	for _, d := range reg.Typedefs {
		addFwd(d.GetGoType())
	}
	addBwd := func(kind string, idx int) {
		if idx < 0 {
			bwd = append(bwd, "None")
			obs.Bwd = append(obs.Bwd, nil)
			return
		}
		bwd = append(bwd, fmt.Sprintf("(Some (%s, %d%%nat))", kind, idx))
		obs.Bwd = append(obs.Bwd, []string{kind, fmt.Sprint(idx)})
	}
	for i := range ids {
		switch {
		case i < len(sl):
			d := tr.GetStructDescriptorByGoType(goTypes[i])
			idx := -1
			for j, s := range sl {
				if s == d {
					idx = j
				}
			}
			addBwd("GStruct", idx)
		case i < len(sl)+len(reg.Enums):
			d := tr.GetEnumDescriptorByGoType(goTypes[i])
			idx := -1
			for j, s := range reg.Enums {
				if s == d {
					idx = j
				}
			}
			addBwd("GEnum", idx)
		default:
			d := tr.GetTypedefDescriptorByGoType(goTypes[i])
			idx := -1
			for j, s := range reg.Typedefs {
				if s == d {
					idx = j
				}
			}
			addBwd("GTypedef", idx)
		}
	}
	var tys []string
	for _, id := range ids {
		tys = append(tys, fmt.Sprintf("%d%%N", id))
	}
	c.st.GoTypesRegistered += n
	return c.mk("gotype", t, fmt.Sprintf("GoTypeCase %s %s %s %s", cb(t.Filename), coqfmt.List(tys), coqfmt.List(fwd), coqfmt.List(bwd)), obs)
}

// wireCase: Marshal / Unmarshal of a descriptor as RegisterAST left it (an Extra map in every node).
func (c *progCtx) wireCase(t *parser.Thrift, fd *tr.FileDescriptor) *Case {
	dump := refldump.FromFile(fd)
	wire := "None"
	rt := false
	note := ""
	var data []byte
	var err error
	if guard(func() { data, err = fd.Marshal() }) {
		err = fmt.Errorf("panic in Marshal")
	}
	if err == nil {
		if raw, gerr := gunzip(data); gerr == nil {
			wire = "(Some " + c.raws.add(raw) + ")"
			c.st.WireBytes += len(raw)
		}
		var back *tr.FileDescriptor
		var uerr error
		if guard(func() { back, uerr = tr.Unmarshal(data) }) {
			uerr = fmt.Errorf("panic in Unmarshal")
		}
		if uerr == nil && back != nil {
			rt = refldump.FromFile(back).JSON() == dump.JSON()
		} else if uerr != nil {
			note = "Unmarshal: " + uerr.Error()
		}
	} else {
		note = "Marshal: " + err.Error()
	}
	if !rt {
		c.st.RoundTripFailures++
	}
	cs := c.mk("wire", t, fmt.Sprintf("WireCase %s %s %s", dump.Coq(), wire, coqfmt.Bool(rt)), dump)
	cs.Note = note
	return cs
}

// allMethodsCases: ServiceDescriptor.GetAllMethods in order (the Go loop does not end on a cyclic
// extends chain; the checker rejects those, and the walk is bounded here before the call).
func (c *progCtx) allMethodsCases(t *parser.Thrift, fd *tr.FileDescriptor) []*Case {
	var out []*Case
	for _, s := range t.Services {
		sd := fd.GetServiceDescriptor(s.Name)
		if sd == nil {
			continue
		}
		depth := 0
		for cur := sd; cur != nil && depth <= 32; depth++ {
			cur = cur.GetParent()
		}
		if depth > 32 {
			continue
		}
		var all []found
		if guard(func() {
			for _, m := range sd.GetAllMethods() {
				all = append(all, found{m.Filepath, m.Name})
			}
		}) {
			c.st.Panics++
			continue
		}
		var items []string
		for _, m := range all {
			items = append(items, "("+cb(m.Path)+", "+cb(m.Name)+")")
		}
		if depth > 2 {
			c.st.shape("extends_chains_of_3_or_more", 1)
		}
		out = append(out, c.mk("allmethods", t, fmt.Sprintf("AllMethodsCase %s %s %s", cb(t.Filename), cb(s.Name), coqfmt.List(items)), all))
	}
	return out
}

// inProcess produces every in-process case of a parsed, checked and resolved program.
func (c *progCtx) inProcess() []*Case {
	var out []*Case
	for _, t := range c.all {
		out = append(out, c.fileCase(t))
	}
	var gd *tr.GlobalDescriptor
	if guard(func() { gd, _ = tr.RegisterAST(c.main) }) || gd == nil {
		c.st.Panics++
		out = append(out, &Case{Kind: "file", Via: "in-process", Program: c.name, File: c.main.Filename,
			coq: fmt.Sprintf("FileCase 0%%N %s None None false", cb(c.main.Filename)), Observed: "panic in RegisterAST"})
		return out
	}
	defer tr.ReleaseGlobalDescriptors(gd)
	for i, t := range c.all {
		fd := gd.LookupFD(t.Filename)
		if fd == nil {
			continue
		}
		out = append(out, c.lookupCase(t, fd))
		if len(t.Services) > 0 {
			out = append(out, c.methodCase(t, fd))
			out = append(out, c.parentCases(t, fd)...)
			out = append(out, c.allMethodsCases(t, fd)...)
		}
		out = append(out, c.fieldCases(t, fd)...)
		out = append(out, c.wireCase(t, fd))
		dup := 0
		if i%2 == 1 {
			dup = 3
		}
		if gc := c.goTypeCase(t, dup); gc != nil {
			out = append(out, gc)
		}
	}
	out = append(out, c.globalCase(gd))
	return out
}
