(* Gen/FileManagerTerm.v — termination of the model of FileManager.Feed: the fuel the model gives
   to the rename walk (the Go `for {}` loop) and to the item loop always suffices, so the model
   never answers Fuel: in the real code the loop finds a free name after finitely many steps. *)
From Coq Require Import List Arith Bool Lia NArith ZArith.
From Coq.Strings Require Import Byte.
From Verif Require Import Base.Bytes Gen.FileManager Gen.FileManagerFacts.
Import ListNotations.

(* ---------- decimal printing is injective ---------- *)

Definition dval (b : byte) : N := (Byte.to_N b - 48)%N.
Fixpoint undig (l : bytes) (acc : N) : N :=
  match l with [] => acc | b :: r => undig r (acc * 10 + dval b)%N end.

Lemma undig_app l1 : forall l2 acc, undig (l1 ++ l2) acc = undig l2 (undig l1 acc).
Proof. induction l1 as [|b l1 IH]; intros l2 acc; cbn [app undig]; [reflexivity | apply IH]. Qed.

Lemma digit_byte d : (d < 10)%N ->
  dval (match Byte.of_N (48 + d)%N with Some b => b | None => x30 end) = d.
Proof.
  intro Hd. destruct (Byte.of_N (48 + d)%N) as [b|] eqn:E.
  - apply Byte.to_of_N in E. unfold dval. rewrite E. lia.
  - apply Byte.of_N_None_iff in E. lia.
Qed.

Lemma digits_pos_spec f : forall n acc, (n < 10 ^ N.of_nat f)%N ->
  exists l, digits_pos f n acc = l ++ acc /\
            forall a, undig l a = (a * 10 ^ N.of_nat (List.length l) + n)%N.
Proof.
  induction f as [|f IH]; intros n acc Hn.
  - cbn in Hn. assert (n = 0%N) as -> by lia. exists []. split; [reflexivity|].
    intro a. cbn. lia.
  - cbn [digits_pos].
    assert (Hmod : (n mod 10 < 10)%N) by (apply N.mod_lt; lia).
    set (d := match Byte.of_N (48 + n mod 10)%N with Some b => b | None => x30 end).
    assert (Hd : dval d = (n mod 10)%N) by (apply digit_byte; exact Hmod).
    destruct (n <? 10)%N eqn:Elt.
    + apply N.ltb_lt in Elt. exists [d]. split; [reflexivity|].
      intro a. cbn [undig List.length]. rewrite Hd. rewrite N.mod_small by assumption.
      change (N.of_nat 1) with 1%N. rewrite N.pow_1_r. reflexivity.
    + apply N.ltb_ge in Elt.
      assert (Hdiv : (n / 10 < 10 ^ N.of_nat f)%N).
      { rewrite Nat2N.inj_succ, N.pow_succ_r' in Hn. apply N.div_lt_upper_bound; lia. }
      destruct (IH (n / 10)%N (d :: acc) Hdiv) as [l [Hl Hu]].
      exists (l ++ [d]). split.
      * rewrite Hl, <- app_assoc. reflexivity.
      * intro a. rewrite undig_app, Hu. cbn [undig]. rewrite Hd.
        rewrite app_length. cbn [List.length]. rewrite Nat.add_1_r, Nat2N.inj_succ, N.pow_succ_r'.
        pose proof (N.div_mod n 10). lia.
Qed.

Lemma pow2_le_pow10 k : (2 ^ k <= 10 ^ k)%N.
Proof. apply N.pow_le_mono_l. lia. Qed.

Lemma digitsN_undig n : undig (digitsN n) 0 = n.
Proof.
  unfold digitsN.
  assert (Hn : (n < 10 ^ N.of_nat (S (N.to_nat (N.log2 n))))%N).
  { rewrite Nat2N.inj_succ, N2Nat.id.
    destruct (N.eq_dec n 0) as [->|Hne]; [cbn; lia|].
    pose proof (N.log2_spec n ltac:(lia)) as [_ H2].
    pose proof (pow2_le_pow10 (N.succ (N.log2 n))). lia. }
  destruct (digits_pos_spec _ n [] Hn) as [l [Hl Hu]].
  rewrite Hl, app_nil_r, Hu. lia.
Qed.

Lemma digits_inj a b : digits a = digits b -> a = b.
Proof.
  unfold digits. intro H. apply Nat2N.inj.
  rewrite <- (digitsN_undig (N.of_nat a)), <- (digitsN_undig (N.of_nat b)), H. reflexivity.
Qed.

Lemma renamed_inj name a b : renamed name a = renamed name b -> a = b.
Proof.
  unfold renamed. destruct (split_ext name) as [stem ext]. intro H.
  apply app_inv_head in H. apply app_inv_head in H. apply app_inv_tail in H.
  apply digits_inj; exact H.
Qed.

(* ---------- the rename walk has enough fuel ---------- *)

Lemma taken_iff m rn : Inv m -> (lookup rn (index m) <> None <-> In rn (map fst (files m))).
Proof.
  intros [_ H2]. specialize (H2 rn). split.
  - intro Hn. destruct (in_dec (list_eq_dec Byte.byte_eq_dec) rn (map fst (files m))) as [Hi|Hi]; [exact Hi|].
    exfalso. apply Hn. apply H2. exact Hi.
  - intros Hi Hn. apply H2 in Hn. contradiction.
Qed.

(* phase 2 of the walk (cnt > count): [seen] = the taken candidate names passed so far *)
Lemma probe_phase2 m name content idx : Inv m -> forall fuel cnt k seen,
  k < cnt -> NoDup seen -> incl seen (map fst (files m)) ->
  (forall n, In n seen -> exists c, c < cnt /\ n = renamed name c) ->
  List.length (files m) - List.length seen < fuel ->
  probe fuel m name content idx cnt k <> ProbeFuel.
Proof.
  intro HI. induction fuel as [|f IH]; intros cnt k seen Hk Hnd Hincl Hseen Hfuel; [lia|].
  cbn [probe]. destruct (beqb (content_at m idx) content); [discriminate|].
  assert (E : (k <? cnt) = true) by (apply Nat.ltb_lt; exact Hk). rewrite E.
  destruct (lookup (renamed name cnt) (index m)) as [i|] eqn:El; [|discriminate].
  set (rn := renamed name cnt) in *.
  assert (Hin : In rn (map fst (files m))) by (apply (taken_iff m rn HI); congruence).
  assert (Hnew : ~ In rn seen).
  { intro Hs. destruct (Hseen rn Hs) as [c [Hc Heq]]. apply renamed_inj in Heq. lia. }
  assert (Hlen : List.length (rn :: seen) <= List.length (map fst (files m))).
  { apply NoDup_incl_length; [constructor; assumption|].
    intros x [<-|Hx]; [exact Hin | apply Hincl; exact Hx]. }
  rewrite map_length in Hlen. cbn [List.length] in Hlen.
  apply (IH (S cnt) (S k) (rn :: seen)).
  - lia.
  - constructor; assumption.
  - intros x [<-|Hx]; [exact Hin | apply Hincl; exact Hx].
  - intros n [<-|Hn]; [exists cnt; split; [lia | reflexivity]|].
    destruct (Hseen n Hn) as [c [Hc Heq]]. exists c. split; [lia | exact Heq].
  - cbn [List.length]. lia.
Qed.

(* phase 1 (cnt <= count) walks the own siblings, then phase 2 starts with nothing seen *)
Lemma probe_enough m name content : Inv m -> forall fuel idx cnt k,
  (k + 1 - cnt) + List.length (files m) + 1 <= fuel -> 1 <= cnt ->
  probe fuel m name content idx cnt k <> ProbeFuel.
Proof.
  intro HI. induction fuel as [|f IH]; intros idx cnt k Hfuel Hcnt; [lia|].
  destruct (Nat.ltb_spec k cnt) as [Hlt|Hge].
  - apply (probe_phase2 m name content idx HI (S f) cnt k []); try assumption.
    + constructor.
    + intros x [].
    + intros n [].
    + cbn [List.length]. lia.
  - cbn [probe]. destruct (beqb (content_at m idx) content); [discriminate|].
    assert (E : (k <? cnt) = false) by (apply Nat.ltb_ge; exact Hge). rewrite E.
    apply IH; lia.
Qed.

(* ---------- hence Feed never runs out of fuel ---------- *)

Lemma drop_unnamed_length l : List.length (drop_unnamed l) <= List.length l.
Proof. induction l as [|g r IH]; cbn; [lia|]. destruct (g_name g); cbn; lia. Qed.

Lemma feed_items_no_fuel fuel : forall m last items,
  Inv m -> List.length items < fuel -> feed_items fuel m last items <> Fuel.
Proof.
  induction fuel as [|f IH]; intros m last items HI Hlen; [lia|].
  cbn [feed_items]. destruct items as [|g rest]; [discriminate|].
  cbn [List.length] in Hlen.
  destruct (g_name g) as [name|].
  - destruct (lookup name (index m)) as [idx|] eqn:El.
    + destruct (negb (beqb (g_ip g) [])).
      * apply IH; [apply Inv_add_patch; exact HI | lia].
      * destruct (probe _ m name (g_content g) idx 1 (get_count m name)) as [|rn k'|] eqn:Ep.
        -- apply IH; [exact HI | pose proof (drop_unnamed_length rest); lia].
        -- apply IH; [|lia].
           apply (Inv_set_count_origin (add_file m rn (g_content g))).
           apply Inv_add_file; [exact HI | eapply probe_fresh; exact Ep].
        -- exfalso. revert Ep. apply probe_enough; [exact HI | lia | lia].
    + destruct (negb (beqb (g_ip g) [])); [discriminate|].
      apply IH; [apply Inv_add_file; assumption | lia].
  - destruct (beqb last []); [discriminate|].
    apply IH; [apply Inv_add_patch; exact HI | lia].
Qed.

Lemma feeds_no_fuel h : forall m, Inv m -> feeds m h <> Fuel.
Proof.
  induction h as [|x h IH]; intros m HI; cbn [feeds]; [discriminate|].
  destruct (feed m x) as [m'| |] eqn:E.
  - apply IH. unfold feed in E. apply feed_items_inv in E; [apply E | exact HI].
  - discriminate.
  - exfalso. revert E. unfold feed. apply feed_items_no_fuel; [exact HI | lia].
Qed.

Theorem run_never_out_of_fuel h : run h <> Fuel.
Proof.
  unfold run. pose proof (feeds_no_fuel h fm0 Inv_fm0) as H.
  destruct (feeds fm0 h); [discriminate | discriminate | congruence].
Qed.
