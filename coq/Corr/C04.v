(* Corr/C04.v — correspondence record and comparison for property C04 (invalid input
   is diagnosed).

   A case = one program tree given to the real thriftgo binary (process level):
     kind 0   a valid generated program, unmodified
     kind 1   a valid program with ONE rule-breaking edit of the catalogue
              (Idl/Rules.v) whose result still parses: the program is the astdump of
              the real parser's output for the edited tree
     kind 2   an edit that leaves no AST to look at (syntax error, missing include,
              bad command line): only the process observations are judged
   The program is shipped as a shared base program plus the files the edit replaced
   or added ([c_patch]).  Every case has one or more runs (go / fastgo backend,
   with or without -r), each with the projected observables of the process.

   [mismatches] returns (case index, code):
     1  model and implementation disagree: [accepts] says accept and thriftgo did
        not (exit 0 and files written), or the other way round      (correspondence)
     8  the edited program does not violate the rule the edit was meant to break,
        as the declarative predicate [violates] sees it (edits marked strict), or a
        value-kind edit of ANY shape (typedef'd, nested in a container, include-
        qualified) is no defect for [violates_deep] of Idl/RulesKinds.v
                                                                    (correspondence)
     9  the model ran out of fuel                                   (correspondence)
     2  a rule-breaking tree / bad command line ended in exit status 0
     3  ... left a file under the output directory
     4  ... produced no diagnostic at all (stdout and stderr empty)
     5  the output contains a Go trace (panic / fatal error / goroutine)
     6  the run hit the time limit
     7  a valid program was rejected AND a Go trace was printed
   (2..7: property oracle evaluated on the observed behaviour of the binary) *)
From Coq Require Import List Bool Arith NArith ZArith.
From Verif Require Import Base.Bytes Idl.Ast Idl.AstUtil Idl.Check Idl.Rules Idl.RulesKinds Idl.Accept.
Import ListNotations.

Record obs := Obs {
  o_exit0 : bool;      (* exit status 0 *)
  o_files : bool;      (* some regular file exists under the -o directory afterwards *)
  o_diag : bool;       (* stdout or stderr non-empty *)
  o_trace : bool;      (* output contains "panic", "fatal error" or "goroutine " *)
  o_timeout : bool }.  (* killed at the time limit *)

Record run := Run {
  r_lang : N;          (* 0 = go, 1 = fastgo *)
  r_recursive : bool;  (* -r *)
  r_obs : obs }.

Record case := Case {
  c_kind : N;
  c_rule : N;                       (* [rule_code] of the broken rule (kinds 1, 2) *)
  c_strict : bool;                  (* kind 1: the edit has a shape [violates] must recognise *)
  c_base : program;
  c_patch : list (bytes * file);    (* replaced (same Filename) or added files *)
  c_runs : list run }.

(* the edited program: patched files replace their namesakes, new files go last *)
Fixpoint patch_one (p : program) (fn : bytes) (f : file) : program :=
  match p with
  | [] => [(fn, f)]
  | (k, g) :: r => if beqb k fn then (k, f) :: r else (k, g) :: patch_one r fn f
  end.
Definition patched (c : case) : program :=
  fold_left (fun p e => patch_one p (fst e) (snd e)) (c_patch c) (c_base c).

Definition backend_of (r : run) : backend :=
  Backend (if N.eqb (r_lang r) 0 then LGo else LFastGo) (r_recursive r).

Definition impl_accepts (o : obs) : bool := o_exit0 o && o_files o.

Definition flag (b : bool) (code : N) : list N := if b then [code] else [].

(* model vs implementation, one run *)
Definition corr_run (p : program) (r : run) : list N :=
  match accepts p (backend_of r) with
  | AOk => flag (negb (impl_accepts (r_obs r))) 1
  | ARej why => if is_fuel_reject why then [9%N] else flag (impl_accepts (r_obs r)) 1
  end.

(* the property on the observed behaviour of a run on a rule-breaking input *)
Definition oracle_bad (o : obs) : list N :=
  flag (o_exit0 o) 2 ++ flag (o_files o) 3 ++ flag (negb (o_diag o) && negb (o_timeout o)) 4 ++
  flag (o_trace o) 5 ++ flag (o_timeout o) 6.

(* ... and on a valid input: being rejected is only counted (by the producer); a
   trace or a hang is reported *)
Definition oracle_valid (o : obs) : list N :=
  flag (negb (impl_accepts o) && o_trace o) 7 ++ flag (o_timeout o) 6.

Definition check_case (c : case) : list N :=
  match c_kind c with
  | 0%N =>
    let p := patched c in
    flat_map (fun r => corr_run p r ++ oracle_valid (r_obs r)) (c_runs c)
  | 1%N =>
    let p := patched c in
    (match rule_of_code (c_rule c) with
     | Some ru => flag (c_strict c && negb (violates ru p)) 8 ++
                  (* every value-kind edit, strict or not (typedef'd, nested, include-qualified
                     shapes), must be a defect as Idl/RulesKinds.v sees it *)
                  (match ru with
                   | ConstKindMismatch | StructLiteralBadKey =>
                     flag (negb (violates_deep ConstKindMismatch p || violates_deep StructLiteralBadKey p)) 8
                   | _ => []
                   end)
     | None => [8%N]
     end) ++
    flat_map (fun r => corr_run p r ++ oracle_bad (r_obs r)) (c_runs c)
  | _ => flat_map (fun r => oracle_bad (r_obs r)) (c_runs c)
  end.

Fixpoint dedup (l : list N) : list N :=
  match l with
  | [] => []
  | x :: r => if existsb (N.eqb x) r then dedup r else x :: dedup r
  end.

Fixpoint mismatches_from (i : N) (cs : list case) : list (N * N) :=
  match cs with
  | [] => []
  | c :: r => map (fun code => (i, code)) (dedup (check_case c)) ++ mismatches_from (N.succ i) r
  end.

Definition mismatches (cs : list case) : list (N * N) := mismatches_from 0 cs.
