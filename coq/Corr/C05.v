(* Corr/C05.v — correspondence record and comparison for property C05 (symbol
   resolution).

   A case = the program as the real parser (+ checker) delivered it to
   semantic.ResolveSymbols (astdump before the pass), what the pass did with it
   (astdump afterwards, or the class of the error), the resolution the generator
   intended (when it has one), the error class a mutation was meant to provoke (0 =
   meant to be valid), and the observations for 2-3 re-renderings of the program with
   the definitions of every file permuted (their input is recovered from the observed
   resolved AST with [strip_resolution]: it differs from what the parser delivered
   only in the requiredness of union fields, which the pass overwrites anyway).

   [mismatches] returns (case index, code):
     1  model and implementation disagree (on the program or on one of its permuted
        renderings): resolved ASTs differ in some field, or error vs ok, or the
        error classes differ; or semantic.Deref and [deref] disagree on some type
        occurrence of the resolved program                          (correspondence)
     9  the model ran out of fuel                                   (correspondence)
     2  the implementation bound something differently from what the generator
        intended (observed resolved AST <> intended resolved AST)   (property oracle)
     3  permuting the definitions of the files changed the outcome: ok vs error, or
        the resolved ASTs are not equal up to the permutation       (property oracle)
     4  a program broken on purpose (undefined / ambiguous / cyclic ...) was accepted
                                                                    (property oracle)
     5  a program that is valid by construction was rejected by resolution
                                                                    (property oracle)
     7  in the observed resolved AST an include is marked used although nothing
        refers through it, or not marked although something does    (property oracle)
     8  the decidable specification says the program resolves ([resolvable], theorem
        resolve_complete) but the implementation rejected it         (property oracle)
    11  a program that is valid by construction (generator with intent) was accepted by
        the implementation although [resolvable] says no: the decidable specification
        is stricter than the code on a realistic program           (correspondence) *)
From Coq Require Import List Bool Arith NArith ZArith.
From Verif Require Import Base.Bytes Idl.Ast Idl.AstUtil Idl.Resolve Idl.ResolveSpec Idl.ResolvableSpec Idl.ResolvableConst.
Import ListNotations.

Inductive obs :=
| ObsOk (r : program)        (* ResolveSymbols returned nil: the resolved program *)
| ObsErr (class : N)         (* ResolveSymbols returned an error of this class *)
| ObsRejected.               (* stopped before the pass (include cycle, checker) *)

(* what semantic.Deref returned for one type occurrence: file name, name and
   category of the type it stands for; None = Deref returned an error *)
Definition deref_obs := option (bytes * bytes * category).

Record case := mkcase {
  c_input : program;
  c_obs : obs;
  c_deref : list (list deref_obs);   (* per file of the resolved program, per occurrence of [file_types] *)
  c_intent : option program;
  c_expect : N;
  c_perms : list obs }.

(* ---- model vs implementation *)

Definition corr (input : program) (o : obs) : list N :=
  match o with
  | ObsRejected => []
  | ObsOk r =>
    match resolve_program input with
    | Ok m => if program_eqb m r then [] else [1%N]
    | Error ErrOutOfFuel => [9%N]
    | Error _ => [1%N]
    end
  | ObsErr c =>
    match resolve_program input with
    | Ok _ => [1%N]
    | Error ErrOutOfFuel => [9%N]
    | Error e => if N.eqb (resolve_error_code e) c then [] else [1%N]
    end
  end.

(* a permuted rendering: the model runs on the stripped observation *)
Definition corr_perm (o : obs) : list N :=
  match o with
  | ObsOk r => corr (map (fun e => (fst e, strip_resolution (snd e))) r) o
  | _ => []
  end.

(* ---- Deref on the resolved program the implementation produced *)

Definition deref_view (p : program) (f : file) (t : ty) : deref_obs :=
  match deref (deref_fuel p) p f t with
  | Ok (g, t') => Some (f_filename g, ty_name t', ty_category t')
  | Error _ => None
  end.

Definition deref_obs_eqb (a b : deref_obs) : bool :=
  opt_eqb (fun x y => beqb (fst (fst x)) (fst (fst y)) && beqb (snd (fst x)) (snd (fst y)) &&
                      category_eqb (snd x) (snd y)) a b.

Definition corr_deref (c : case) : list N :=
  match c_obs c with
  | ObsOk r =>
    if list_eqb (list_eqb deref_obs_eqb)
                (map (fun e => map (deref_view r (snd e)) (file_types (snd e))) r) (c_deref c)
    then [] else [1%N]
  | _ => []
  end.

(* ---- equality up to a permutation of the definitions of each kind *)

Definition count_eq {A} (eq : A -> A -> bool) (x : A) (l : list A) : nat :=
  List.length (filter (eq x) l).
Definition perm_eqb {A} (eq : A -> A -> bool) (a b : list A) : bool :=
  (List.length a =? List.length b) && forallb (fun x => count_eq eq x a =? count_eq eq x b) a.

Definition file_perm_eqb (a0 b0 : file) : bool :=
  let a := strip_comments a0 in
  let b := strip_comments b0 in
  beqb (f_filename a) (f_filename b) &&
  list_eqb include_eqb (f_includes a) (f_includes b) &&
  list_eqb beqb (f_cpp_includes a) (f_cpp_includes b) &&
  list_eqb namespace_eqb (f_namespaces a) (f_namespaces b) &&
  perm_eqb typedef_eqb (f_typedefs a) (f_typedefs b) &&
  perm_eqb constant_eqb (f_constants a) (f_constants b) &&
  perm_eqb enum_eqb (f_enums a) (f_enums b) &&
  perm_eqb struct_like_eqb (f_structs a) (f_structs b) &&
  perm_eqb struct_like_eqb (f_unions a) (f_unions b) &&
  perm_eqb struct_like_eqb (f_exceptions a) (f_exceptions b) &&
  perm_eqb service_eqb (f_services a) (f_services b) &&
  opt_eqb name2cat_eqb (f_name2cat a) (f_name2cat b).

Definition program_perm_eqb (p q : program) : bool :=
  list_eqb (fun x y => beqb (fst x) (fst y) && file_perm_eqb (snd x) (snd y)) p q.

Definition perm_oracle (o : obs) (po : obs) : list N :=
  match o, po with
  | ObsOk r, ObsOk r' => if program_perm_eqb r r' then [] else [3%N]
  | ObsErr _, ObsErr _ => []
  | ObsRejected, _ | _, ObsRejected => []
  | _, _ => [3%N]
  end.

(* ---- intent *)

Definition program_eqb_nc (p q : program) : bool :=
  list_eqb (fun x y => beqb (fst x) (fst y) && file_eqb_nc (snd x) (snd y)) p q.

Definition intent_oracle (c : case) : list N :=
  match c_obs c, c_intent c with
  | ObsOk r, Some i => if program_eqb_nc r i then [] else [2%N]
  | ObsErr _, Some _ => if N.eqb (c_expect c) 0 then [5%N] else []
  | _, _ => []
  end.

Definition expect_oracle (c : case) : list N :=
  match c_obs c with
  | ObsOk _ => if N.eqb (c_expect c) 0 then [] else [4%N]
  | _ => []
  end.

(* ---- Used, read off the observed AST alone *)

Fixpoint used_ok (marks : list Z) (incs : list include) (idx : nat) : bool :=
  match incs with
  | [] => true
  | i :: r =>
    Bool.eqb (match in_used i with Some true => true | _ => false end)
             (existsb (Z.eqb (Z.of_nat idx)) marks)
    && used_ok marks r (S idx)
  end.

Definition used_oracle (o : obs) : list N :=
  match o with
  | ObsOk r =>
    if forallb (fun e => match f_name2cat (snd e) with
                         | Some _ => used_ok (file_marks (snd e)) (f_includes (snd e)) 0
                         | None => true
                         end) r
    then [] else [7%N]
  | _ => []
  end.

(* ---- the decidable specification of "resolves", evaluated on the input *)

Definition resolvable_oracle (c : case) : list N :=
  match c_obs c with
  | ObsErr _ => if resolvable (c_input c) then [8%N] else []
  | ObsOk _ => match c_intent c with
               | Some _ => if resolvable (c_input c) then [] else [11%N]
               | None => []
               end
  | ObsRejected => []
  end.

Definition check (c : case) : list N :=
  corr (c_input c) (c_obs c) ++ corr_deref c ++
  flat_map' corr_perm (c_perms c) ++
  intent_oracle c ++
  flat_map' (perm_oracle (c_obs c)) (c_perms c) ++
  expect_oracle c ++
  used_oracle (c_obs c) ++
  resolvable_oracle c.

Definition dedup (l : list N) : list N :=
  fold_right (fun x acc => if existsb (N.eqb x) acc then acc else x :: acc) [] l.

Fixpoint mismatches_from (i : N) (cs : list case) : list (N * N) :=
  match cs with
  | [] => []
  | c :: r => map (fun code => (i, code)) (dedup (check c)) ++ mismatches_from (i + 1)%N r
  end.
Definition mismatches (cs : list case) : list (N * N) := mismatches_from 0%N cs.
