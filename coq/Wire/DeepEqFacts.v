(* Wire/DeepEqFacts.v — proofs about the generated DeepEqual (Wire/DeepEq.v).

     deq_sym            deq e t x y = deq e t y x                  (shaped values; any sharing, any keys)
     deq_same           deq e t x y = same x y                     (on eq_domain)
     deq_refl           nan_free x -> deq e t x x = true           (shaped x)
     deq_same_object    the pointer shortcut
     validate_set_spec  validate_set refuses exactly the sets with two structurally equal elements
     sets_ok_distinct   Write (set validation) refuses exactly the values holding such a set
   and the laws of the specification itself (same_sym, same_refl). *)
From Coq Require Import List ZArith Bool Lia.
From Verif Require Import Base.Bytes Wire.TType Wire.Schema Wire.Value Wire.DeepEq.
Import ListNotations.
Open Scope Z_scope.

(* ------------------------------------------------------------------ induction on hval *)

Section HvalInd.
  Variable P : hval -> Prop.
  Hypothesis Hbool : forall b, P (HBool b).
  Hypothesis Hint : forall z, P (HInt z).
  Hypothesis Hdbl : forall z, P (HDbl z).
  Hypothesis Hstr : forall s, P (HStr s).
  Hypothesis Hbin : forall s, P (HBin s).
  Hypothesis Hlist : forall l, Forall P l -> P (HList l).
  Hypothesis Hmap : forall m, Forall (fun kv => P (fst kv) /\ P (snd kv)) m -> P (HMap m).
  Hypothesis Hstruct : forall a fs, Forall (fun p => P (snd p)) fs -> P (HStruct a fs).
  Hypothesis Hnil : P HNil.
  Hypothesis Hsome : forall a v, P v -> P (HSome a v).

  Fixpoint hval_ind' (x : hval) : P x :=
    match x with
    | HBool b => Hbool b
    | HInt z => Hint z
    | HDbl z => Hdbl z
    | HStr s => Hstr s
    | HBin s => Hbin s
    | HList l =>
        Hlist l ((fix go (l : list hval) : Forall P l :=
                    match l with
                    | [] => Forall_nil _
                    | a :: r => Forall_cons _ (hval_ind' a) (go r)
                    end) l)
    | HMap m =>
        Hmap m ((fix go (m : list (hval * hval)) : Forall (fun kv => P (fst kv) /\ P (snd kv)) m :=
                   match m with
                   | [] => Forall_nil _
                   | kv :: r => Forall_cons _ (conj (hval_ind' (fst kv)) (hval_ind' (snd kv))) (go r)
                   end) m)
    | HStruct a fs =>
        Hstruct a fs ((fix go (fs : list (Z * hval)) : Forall (fun p => P (snd p)) fs :=
                         match fs with
                         | [] => Forall_nil _
                         | p :: r => Forall_cons _ (hval_ind' (snd p)) (go r)
                         end) fs)
    | HNil => Hnil
    | HSome a v => Hsome a v (hval_ind' v)
    end.
End HvalInd.

(* ------------------------------------------------------------------ small list facts *)

Lemma forallb_In {A} (p : A -> bool) l : forallb p l = true -> forall x, In x l -> p x = true.
Proof. intros H x Hx. rewrite forallb_forall in H. auto. Qed.

Lemma forallb_ext_in {A} (f g : A -> bool) l : (forall x, In x l -> f x = g x) -> forallb f l = forallb g l.
Proof.
  induction l as [|a l IH]; cbn; intros H; auto.
  rewrite (H a) by auto. f_equal. apply IH. intros; apply H; auto.
Qed.

Lemma existsb_ext_in {A} (f g : A -> bool) l : (forall x, In x l -> f x = g x) -> existsb f l = existsb g l.
Proof.
  induction l as [|a l IH]; cbn; intros H; auto.
  rewrite (H a) by auto. f_equal. apply IH. intros; apply H; auto.
Qed.

Lemma all2_length {A B} (f : A -> B -> bool) la lb : all2 f la lb = true -> length la = length lb.
Proof.
  revert lb. induction la as [|a la IH]; intros [|b lb] H; cbn in *; try discriminate; auto.
  apply andb_true_iff in H as [_ H]. f_equal. auto.
Qed.

Lemma all2_ext_in {A B} (f g : A -> B -> bool) la lb :
  (forall a b, In a la -> In b lb -> f a b = g a b) -> all2 f la lb = all2 g la lb.
Proof.
  revert lb. induction la as [|a la IH]; intros [|b lb] H; cbn; auto.
  rewrite (H a b) by (left; auto). f_equal. apply IH. intros; apply H; right; auto.
Qed.

Lemma all2_flip {A B} (f : A -> B -> bool) la lb : all2 f la lb = all2 (fun b a => f a b) lb la.
Proof. revert lb. induction la as [|a la IH]; intros [|b lb]; cbn; auto. f_equal. auto. Qed.

Lemma len_all2 {A B} (f : A -> B -> bool) la lb :
  (length la =? length lb)%nat && all2 f la lb = all2 f la lb.
Proof.
  destruct (all2 f la lb) eqn:E.
  - apply all2_length in E. rewrite E, Nat.eqb_refl. reflexivity.
  - apply andb_false_r.
Qed.

Lemma list_eqbZ_true a b : list_eqbZ a b = true -> a = b.
Proof.
  revert b. induction a as [|x a IH]; intros [|y b] H; cbn in H; try discriminate; auto.
  apply andb_true_iff in H as [H1 H2]. apply Z.eqb_eq in H1. subst. f_equal. auto.
Qed.

Lemma is_empty_nil {A} (l : list A) : is_empty l = true <-> l = [].
Proof. destruct l; cbn; split; intros; auto; discriminate. Qed.

(* ------------------------------------------------------------------ IEEE equality, key equality *)

Lemma feq_sym a b : feq a b = feq b a.
Proof. unfold feq. rewrite (orb_comm (dbl_is_nan a)), (Z.eqb_sym a b), (andb_comm (dbl_is_zero a)). reflexivity. Qed.

Lemma feq_trans a b c : feq a b = true -> feq b c = true -> feq a c = true.
Proof.
  unfold feq. destruct (dbl_is_nan a), (dbl_is_nan b), (dbl_is_nan c); cbn; try discriminate.
  intros H1 H2. apply orb_true_iff in H1, H2. apply orb_true_iff.
  destruct H1 as [H1|H1], H2 as [H2|H2].
  - apply Z.eqb_eq in H1, H2. subst. left. apply Z.eqb_refl.
  - apply Z.eqb_eq in H1. subst. right. auto.
  - apply Z.eqb_eq in H2. subst. right. auto.
  - apply andb_true_iff in H1 as [Ha _], H2 as [_ Hc]. right. rewrite Ha, Hc. reflexivity.
Qed.

Lemma feq_refl a : dbl_is_nan a = false -> feq a a = true.
Proof. unfold feq. intros ->. cbn. rewrite Z.eqb_refl. reflexivity. Qed.

Lemma hkey_eq_sym a b : hkey_eq a b = hkey_eq b a.
Proof.
  destruct a, b; cbn; auto using feq_sym, beqb_sym, Z.eqb_sym.
  destruct b, b0; reflexivity.
Qed.

Lemma hkey_eq_trans a b c : hkey_eq a b = true -> hkey_eq b c = true -> hkey_eq a c = true.
Proof.
  destruct a, b; cbn; try discriminate; destruct c; cbn; try discriminate; intros H1 H2.
  - destruct b, b0, b1; cbn in *; auto; discriminate.
  - apply Z.eqb_eq in H1, H2. subst. apply Z.eqb_refl.
  - eauto using feq_trans.
  - apply beqb_true in H1, H2. subst. apply beqb_refl.
  - apply beqb_true in H1, H2. subst. apply beqb_refl.
  - apply Z.eqb_eq in H1, H2. subst. apply Z.eqb_refl.
  - reflexivity.
Qed.

Lemma keyable_refl k : keyable k = true -> nan_free k = true -> hkey_eq k k = true.
Proof.
  destruct k; cbn; try discriminate; intros _ H; auto using Z.eqb_refl, beqb_refl.
  - destruct b; reflexivity.
  - apply feq_refl. apply negb_true_iff in H. exact H.
Qed.

(* ------------------------------------------------------------------ maps as association lists *)

Definition nodupk (m : list (hval * hval)) : Prop := has_dup hkey_eq (map fst m) = false.

Lemma nodupk_cons k v m :
  nodupk ((k, v) :: m) <-> (forall k' w, In (k', w) m -> hkey_eq k k' = false) /\ nodupk m.
Proof.
  unfold nodupk. cbn [map fst has_dup]. rewrite orb_false_iff. split; intros [H1 H2]; split; auto.
  - intros k' w Hin. destruct (hkey_eq k k') eqn:E; auto.
    assert (existsb (hkey_eq k) (map fst m) = true); [|congruence].
    apply existsb_exists. exists k'. split; auto. apply in_map_iff. exists (k', w). auto.
  - destruct (existsb (hkey_eq k) (map fst m)) eqn:E; auto.
    apply existsb_exists in E as [k' [Hin Hk]]. apply in_map_iff in Hin as [[k'' w] [Heq Hin]].
    cbn in Heq. subst. rewrite (H1 _ _ Hin) in Hk. discriminate.
Qed.

Lemma nodupk_remove l1 x l2 : nodupk (l1 ++ x :: l2) -> nodupk (l1 ++ l2).
Proof.
  induction l1 as [|[k v] l1 IH]; cbn [app].
  - destruct x as [k v]. intros H. apply nodupk_cons in H. tauto.
  - intros H. apply nodupk_cons in H as [H1 H2]. apply nodupk_cons. split; auto.
    intros k' w Hin. apply (H1 k' w). apply in_app_or in Hin as [Hin|Hin]; apply in_or_app; auto.
    right. right. auto.
Qed.

Lemma hfind_some_in k m w : hfind k m = Some w -> exists k', In (k', w) m /\ hkey_eq k k' = true.
Proof.
  induction m as [|[k0 w0] m IH]; cbn; try discriminate.
  destruct (hkey_eq k k0) eqn:E.
  - intros [= <-]. exists k0. auto.
  - intros H. destruct (IH H) as [k' [Hin Hk]]. exists k'. auto.
Qed.

Lemma hfind_none k m : hfind k m = None -> forall k' w, In (k', w) m -> hkey_eq k k' = false.
Proof.
  induction m as [|[k0 w0] m IH]; cbn; [tauto|].
  destruct (hkey_eq k k0) eqn:E; try discriminate.
  intros H k' w [[= <- <-]|Hin]; eauto.
Qed.

Lemma hfind_unique k k' w m :
  nodupk m -> In (k', w) m -> hkey_eq k k' = true -> hfind k m = Some w.
Proof.
  induction m as [|[k0 w0] m IH]; cbn [In hfind]; [tauto|].
  intros Hnd Hin Hk. apply nodupk_cons in Hnd as [H1 H2].
  destruct Hin as [[= -> ->]|Hin].
  - rewrite Hk. reflexivity.
  - destruct (hkey_eq k k0) eqn:E; auto.
    rewrite hkey_eq_sym in E. pose proof (hkey_eq_trans _ _ _ E Hk) as Ht.
    rewrite (H1 _ _ Hin) in Ht. discriminate.
Qed.

Definition cov (la lb : list (hval * hval)) : Prop :=
  forall k v, In (k, v) la -> exists k' w, In (k', w) lb /\ hkey_eq k k' = true.

Lemma pigeon la : forall lb,
  nodupk la -> nodupk lb -> length la = length lb -> cov la lb -> cov lb la.
Proof.
  induction la as [|[k0 v0] la IH]; intros lb Hna Hnb Hlen Hcov.
  - destruct lb; [|discriminate]. intros k v [].
  - apply nodupk_cons in Hna as [Ha1 Ha2].
    destruct (Hcov k0 v0 (or_introl eq_refl)) as [k0' [w0' [Hin0 Hk0]]].
    destruct (in_split _ _ Hin0) as [l1 [l2 ->]].
    assert (Hcov' : cov la (l1 ++ l2)).
    { intros k v Hin. destruct (Hcov k v (or_intror Hin)) as [k' [w [Hin' Hk]]].
      apply in_app_or in Hin' as [Hin'|[Heq|Hin']].
      - exists k', w. split; auto. apply in_or_app; auto.
      - inversion Heq; subst. exfalso.
        assert (hkey_eq k0 k = true).
        { apply hkey_eq_trans with k'; auto. rewrite hkey_eq_sym. exact Hk. }
        rewrite (Ha1 _ _ Hin) in H. discriminate.
      - exists k', w. split; auto. apply in_or_app; auto. }
    assert (Hlen' : length la = length (l1 ++ l2)).
    { rewrite app_length in *. cbn in Hlen. lia. }
    specialize (IH (l1 ++ l2) Ha2 (nodupk_remove _ _ _ Hnb) Hlen' Hcov').
    intros k' w Hin. apply in_app_or in Hin as [Hin|[Heq|Hin]].
    + destruct (IH k' w) as [k [v [Hi Hk]]]; [apply in_or_app; auto|]. exists k, v. split; [right|]; auto.
    + inversion Heq; subst. exists k0, v0. split; [left; auto|]. rewrite hkey_eq_sym. exact Hk0.
    + destruct (IH k' w) as [k [v [Hi Hk]]]; [apply in_or_app; auto|]. exists k, v. split; [right|]; auto.
Qed.

(* range the first map, index the second (with the presence test) *)
Definition mapcmp (V : hval -> hval -> bool) (mx my : list (hval * hval)) : bool :=
  forallb (fun kv => match hfind (fst kv) my with Some w => V (snd kv) w | None => false end) mx.

Lemma mapcmp_cov V mx my : mapcmp V mx my = true -> cov mx my.
Proof.
  intros H k v Hin. apply (forallb_In _ _ H) in Hin. cbn in Hin.
  destruct (hfind k my) eqn:E; try discriminate.
  apply hfind_some_in in E as [k' [Hi Hk]]. eauto.
Qed.

Lemma mapcmp_swap V mx my :
  nodupk mx -> nodupk my -> length mx = length my ->
  mapcmp V mx my = true -> mapcmp (fun w v => V v w) my mx = true.
Proof.
  intros Hnx Hny Hlen H. apply forallb_forall. intros [k' w] Hin. cbn [fst snd].
  destruct (pigeon mx my Hnx Hny Hlen (mapcmp_cov _ _ _ H) k' w Hin) as [k [v [Hi Hk]]].
  rewrite (hfind_unique k' k v mx Hnx Hi Hk).
  apply (forallb_In _ _ H) in Hi. cbn [fst snd] in Hi.
  rewrite hkey_eq_sym in Hk. rewrite (hfind_unique k k' w my Hny Hin Hk) in Hi. exact Hi.
Qed.

Lemma mapcmp_ext V1 V2 mx my :
  (forall kv kv', In kv mx -> In kv' my -> V1 (snd kv) (snd kv') = V2 (snd kv) (snd kv')) ->
  mapcmp V1 mx my = mapcmp V2 mx my.
Proof.
  intros H. unfold mapcmp. apply forallb_ext_in. intros kv Hin.
  destruct (hfind (fst kv) my) eqn:E; auto.
  apply hfind_some_in in E as [k' [Hi _]]. apply (H kv (k', h) Hin Hi).
Qed.

(* the existential reading of mapcmp, for maps with distinct keys *)
Lemma mapcmp_exists V mx my :
  nodupk my ->
  mapcmp V mx my = forallb (fun kv => existsb (fun kv' => hkey_eq (fst kv) (fst kv') && V (snd kv) (snd kv')) my) mx.
Proof.
  intros Hny. unfold mapcmp. apply forallb_ext_in. intros [k v] Hin. cbn [fst snd].
  apply eq_true_iff_eq. split.
  - destruct (hfind k my) eqn:E; try discriminate. intros HV.
    apply hfind_some_in in E as [k' [Hi Hk]]. apply existsb_exists. exists (k', h). cbn. rewrite Hk, HV. auto.
  - intros H. apply existsb_exists in H as [[k' w] [Hi Hkv]]. cbn in Hkv. apply andb_true_iff in Hkv as [Hk HV].
    rewrite (hfind_unique k k' w my Hny Hi Hk). exact HV.
Qed.

(* ------------------------------------------------------------------ unfolding the model *)

Definition slot_cmp (rep : bool) (e : env) (s : sschema) (p q : Z * hval) : bool :=
  (fst p =? fst q) &&
  match find_field (fst p) (s_fields s) with
  | Some f => deq_slot rep e f (snd p) (snd q)
  | None => false
  end.

Lemma deq_struct_unfold rep e n a fs b gs :
  deq_gen rep e (TRef n) (HStruct a fs) (HStruct b gs) =
  if a =? b then true
  else match find_struct e n with
       | None => false
       | Some s => all2 (slot_cmp rep e s) fs gs
       end.
Proof.
  cbn [deq_gen]. destruct (a =? b); auto. destruct (find_struct e n) as [s|]; auto.
  revert gs. induction fs as [|[i u] fs IH]; intros [|[j w] gs]; auto.
  cbn [all2]. rewrite <- IH. unfold slot_cmp, deq_slot. cbn [fst snd]. reflexivity.
Qed.

Lemma deq_list_unfold rep e t et lx ly :
  t = TList et \/ t = TSet et ->
  deq_gen rep e t (HList lx) (HList ly) = all2 (deq_gen rep e et) lx ly.
Proof. intros [->| ->]; cbn [deq_gen]; apply len_all2. Qed.

Lemma deq_map_unfold e kt vt mx my :
  deq e (TMap kt vt) (HMap mx) (HMap my) = (length mx =? length my)%nat && mapcmp (deq e vt) mx my.
Proof. reflexivity. Qed.

Definition slot_shape (e : env) (s : sschema) (p : Z * hval) : bool :=
  match find_field (fst p) (s_fields s) with
  | Some f =>
      if base_ptr f then
        match snd p with
        | HNil => true
        | HSome _ u => shape e false (f_ty f) u
        | _ => false end
      else shape e false (f_ty f) (snd p)
  | None => false end.

Lemma shape_struct e key t a fs :
  shape e key t (HStruct a fs) = true ->
  exists n s, t = TRef n /\ find_struct e n = Some s /\ map fst fs = map f_id (s_fields s) /\
              forallb (slot_shape e s) fs = true.
Proof.
  cbn [shape]. destruct t; try discriminate. destruct (find_struct e name) as [s|] eqn:E; try discriminate.
  intros H. apply andb_true_iff in H as [H1 H2]. exists name, s. repeat split; auto using list_eqbZ_true.
Qed.

Lemma shape_list e key t l :
  shape e key t (HList l) = true ->
  exists et, (t = TList et \/ t = TSet et) /\ forallb (shape e false et) l = true.
Proof. cbn [shape]. destruct t; try discriminate; intros H; exists t; auto. Qed.

Lemma shape_map e key t m :
  shape e key t (HMap m) = true ->
  exists kt vt, t = TMap kt vt /\
    forallb (fun kv => keyable (fst kv) && shape e true kt (fst kv) && shape e false vt (snd kv)) m = true /\
    nodupk m.
Proof.
  cbn [shape]. destruct t; try discriminate. intros H. apply andb_true_iff in H as [H1 H2].
  exists t1, t2. repeat split; auto. apply negb_true_iff in H2. exact H2.
Qed.

Lemma shape_nil_inv e key t : shape e key t HNil = true ->
  t = TBinary \/ (exists n, t = TRef n) \/ (exists et, t = TList et \/ t = TSet et) \/ (exists kt vt, t = TMap kt vt).
Proof. destruct t; cbn; try discriminate; eauto 6. Qed.

(* ------------------------------------------------------------------ pointers and sharing *)

Definition shared_ok (x y : hval) : Prop :=
  forall a u w, In (a, u) (ptrs x) -> In (a, w) (ptrs y) -> u = w /\ nan_free u = true.

Lemma shared_ok_incl x y x' y' :
  incl (ptrs x') (ptrs x) -> incl (ptrs y') (ptrs y) -> shared_ok x y -> shared_ok x' y'.
Proof. intros Hx Hy H a u w Hu Hw. apply (H a u w); auto. Qed.

Lemma ptrs_list_incl l v : In v l -> incl (ptrs v) (ptrs (HList l)).
Proof. intros Hin p Hp. cbn [ptrs]. apply in_flat_map. eauto. Qed.

Lemma ptrs_map_key_incl m k v : In (k, v) m -> incl (ptrs k) (ptrs (HMap m)).
Proof. intros Hin p Hp. cbn [ptrs]. apply in_flat_map. exists (k, v). split; auto. apply in_or_app. auto. Qed.

Lemma ptrs_map_val_incl m k v : In (k, v) m -> incl (ptrs v) (ptrs (HMap m)).
Proof. intros Hin p Hp. cbn [ptrs]. apply in_flat_map. exists (k, v). split; auto. apply in_or_app. auto. Qed.

Lemma ptrs_struct_incl a fs p : In p fs -> incl (ptrs (snd p)) (ptrs (HStruct a fs)).
Proof. intros Hin q Hq. cbn [ptrs]. right. apply in_flat_map. eauto. Qed.

Lemma ptrs_some_incl a u : incl (ptrs u) (ptrs (HSome a u)).
Proof. intros q Hq. cbn [ptrs]. right. auto. Qed.

Lemma incl_refl' {A} (l : list A) : incl l l.
Proof. intros x H; exact H. Qed.

Lemma incl_trans' {A} (a b c : list A) : incl a b -> incl b c -> incl a c.
Proof. intros H1 H2 x H. auto. Qed.

(* syntactic equality is sound *)
Lemma all2_eq {A} (f : A -> A -> bool) la : forall lb,
  Forall (fun a => forall b, f a b = true -> a = b) la -> all2 f la lb = true -> la = lb.
Proof.
  induction la as [|a la IH]; intros [|b lb] HF H; cbn in H; try discriminate; auto.
  inversion HF as [|? ? Ha Hla]; subst. apply andb_true_iff in H as [Hb1 Hb2]. f_equal; auto.
Qed.

Lemma heqb_eq x : forall y, heqb x y = true -> x = y.
Proof.
  induction x using hval_ind'; intros y Hy; destruct y; cbn in Hy; try discriminate.
  - f_equal. apply eqb_prop. exact Hy.
  - f_equal. apply Z.eqb_eq. exact Hy.
  - f_equal. apply Z.eqb_eq. exact Hy.
  - f_equal. apply beqb_true. exact Hy.
  - f_equal. apply beqb_true. exact Hy.
  - f_equal. apply (all2_eq heqb); auto.
  - f_equal. eapply all2_eq; [|exact Hy].
    eapply Forall_impl; [|exact H]. intros [k v] [Hk Hv] [k' v'] Hb. cbn in *.
    apply andb_true_iff in Hb as [Hb1 Hb2]. f_equal; auto.
  - apply andb_true_iff in Hy as [H1 H2]. apply Z.eqb_eq in H1. subst. f_equal.
    eapply all2_eq; [|exact H2].
    eapply Forall_impl; [|exact H]. intros [i v] Hv [j w] Hb. cbn in *.
    apply andb_true_iff in Hb as [Hi Hw]. apply Z.eqb_eq in Hi. subst. f_equal. auto.
  - reflexivity.
  - apply andb_true_iff in Hy as [H1 H2]. apply Z.eqb_eq in H1. subst. f_equal. auto.
Qed.

Lemma shared_okb_ok x y : shared_okb x y = true -> shared_ok x y.
Proof.
  unfold shared_okb. intros H a u w Hu Hw.
  apply (forallb_In _ _ H) in Hu. apply (forallb_In _ _ Hu) in Hw. cbn [fst snd] in Hw.
  rewrite Z.eqb_refl in Hw. cbn in Hw. apply andb_true_iff in Hw as [H1 H2].
  split; auto. apply heqb_eq. exact H1.
Qed.

(* ------------------------------------------------------------------ symmetry *)

Definition Qsym (e : env) (x : hval) : Prop :=
  forall t kx ky y, shape e kx t x = true -> shape e ky t y = true -> deq e t x y = deq e t y x.
Definition Psym (e : env) (x : hval) : Prop :=
  Qsym e x /\ match x with HSome _ u => Qsym e u | _ => True end.

Lemma beqb_nil_r s : beqb s [] = is_empty s.
Proof. destruct s as [|b s]; [reflexivity|]. cbn [is_empty]. apply beqb_false. discriminate. Qed.
Lemma beqb_nil_l s : beqb [] s = is_empty s.
Proof. rewrite beqb_sym. apply beqb_nil_r. Qed.

Lemma deq_sym_all e : forall x, Psym e x.
Proof.
  induction x using hval_ind'; (split; [|exact I || auto]).
  - intros t kx ky y Hx Hy; destruct t; cbn in Hx; try discriminate; destruct y; cbn in Hy; try discriminate.
    cbn. destruct b, b0; reflexivity.
  - intros t kx ky y Hx Hy; destruct t; cbn in Hx; try discriminate; destruct y; cbn in Hy; try discriminate;
      cbn; apply Z.eqb_sym.
  - intros t kx ky y Hx Hy; destruct t; cbn in Hx; try discriminate; destruct y; cbn in Hy; try discriminate.
    cbn. apply feq_sym.
  - intros t kx ky y Hx Hy; destruct t; cbn in Hx; try discriminate; destruct y; cbn in Hy; try discriminate.
    cbn. apply beqb_sym.
  - intros t kx ky y Hx Hy; destruct t; cbn in Hx; try discriminate; destruct y; cbn in Hy; try discriminate;
      cbn; apply beqb_sym.
  - (* list *)
    intros t kx ky y Hx Hy. destruct (shape_list _ _ _ _ Hx) as [et [Ht Hl]].
    destruct y; try (destruct Ht; subst; cbn in Hy; discriminate).
    + destruct (shape_list _ _ _ _ Hy) as [et' [Ht' Hl']].
      assert (et' = et) by (destruct Ht, Ht'; congruence). subst et'.
      rewrite (deq_list_unfold true e t et l l0 Ht), (deq_list_unfold true e t et l0 l Ht).
      rewrite (all2_flip _ l0 l). apply all2_ext_in. intros a b Ha Hb.
      rewrite Forall_forall in H. destruct (H a Ha) as [Hq _].
      apply (Hq et false false b); eauto using forallb_In.
    + destruct Ht; subst; cbn; destruct l; reflexivity.
  - (* map *)
    intros t kx ky y Hx Hy. destruct (shape_map _ _ _ _ Hx) as [kt [vt [-> [Hm Hnd]]]].
    destruct y; try (cbn in Hy; discriminate).
    + destruct (shape_map _ _ _ _ Hy) as [kt' [vt' [Ht' [Hm' Hnd']]]]. inversion Ht'; subst kt' vt'.
      rewrite !deq_map_unfold. rewrite (Nat.eqb_sym (length kvs)).
      destruct (length m =? length kvs)%nat eqn:L; cbn [andb]; auto. apply Nat.eqb_eq in L.
      rewrite Forall_forall in H.
      assert (Hsw : forall kv kv', In kv m -> In kv' kvs ->
                deq e vt (snd kv) (snd kv') = deq e vt (snd kv') (snd kv)).
      { intros kv kv' Hi Hi'. destruct (H kv Hi) as [_ [Hq _]].
        apply (forallb_In _ _ Hm) in Hi. apply (forallb_In _ _ Hm') in Hi'.
        apply andb_true_iff in Hi as [_ Hi], Hi' as [_ Hi']. apply (Hq vt false false); auto. }
      apply eq_true_iff_eq. split; intros Hc.
      * apply mapcmp_swap in Hc; auto.
        rewrite (mapcmp_ext _ (deq e vt) kvs m) in Hc; [exact Hc|]. intros kv kv' Hi Hi'. cbn. auto.
      * apply mapcmp_swap in Hc; auto.
        rewrite (mapcmp_ext _ (deq e vt) m kvs) in Hc; [exact Hc|]. intros kv kv' Hi Hi'. cbn. symmetry. auto.
    + cbn. destruct m; reflexivity.
  - (* struct *)
    intros t kx ky y Hx Hy. destruct (shape_struct _ _ _ _ _ Hx) as [n [s [-> [Hs [Hids Hsl]]]]].
    destruct y; try (cbn in Hy; discriminate).
    + destruct (shape_struct _ _ _ _ _ Hy) as [n' [s' [Ht' [Hs' [Hids' Hsl']]]]]. inversion Ht'; subst n'.
      rewrite Hs in Hs'. inversion Hs'; subst s'.
      rewrite !deq_struct_unfold, Hs. rewrite (Z.eqb_sym a0 a). destruct (a =? a0); auto.
      rewrite (all2_flip _ fs0 fs). apply all2_ext_in. intros p q Hp Hq.
      unfold slot_cmp. rewrite (Z.eqb_sym (fst q)). destruct (fst p =? fst q) eqn:E; cbn [andb]; auto.
      apply Z.eqb_eq in E. rewrite <- E.
      pose proof (forallb_In _ _ Hsl _ Hp) as Sp. pose proof (forallb_In _ _ Hsl' _ Hq) as Sq.
      unfold slot_shape in Sp, Sq. rewrite <- E in Sq.
      destruct (find_field (fst p) (s_fields s)) as [f|]; try discriminate.
      rewrite Forall_forall in H. destruct (H p Hp) as [Hq1 Hq2].
      unfold deq_slot. destruct (base_ptr f).
      * destruct (snd p) eqn:Ep; try discriminate; destruct (snd q) eqn:Eq; try discriminate; auto.
        rewrite (Z.eqb_sym a1 a2). f_equal. apply (Hq2 (f_ty f) false false); auto.
      * apply (Hq1 (f_ty f) false false); auto.
    + reflexivity.
  - (* nil *)
    intros t kx ky y Hx Hy; destruct t; cbn in Hx; try discriminate; destruct y; cbn in Hy; try discriminate;
      cbn; auto using beqb_sym; try (destruct l; reflexivity); try (destruct kvs; reflexivity).
  - (* some *)
    intros t kx ky y Hx. cbn in Hx. discriminate.
  - destruct IHx. auto.
Qed.

Theorem deq_sym e t kx ky x y :
  shape e kx t x = true -> shape e ky t y = true -> deq e t x y = deq e t y x.
Proof. intros. eapply (proj1 (deq_sym_all e x)); eauto. Qed.

(* ------------------------------------------------------------------ laws of the specification *)

Lemma all2_refl {A} (f : A -> A -> bool) l : (forall a, In a l -> f a a = true) -> all2 f l l = true.
Proof. induction l as [|a l IH]; cbn; intros H; auto. rewrite (H a), IH; auto. Qed.

Lemma same_refl : forall x, nan_free x = true -> same x x = true.
Proof.
  induction x using hval_ind'; cbn [nan_free same]; intros Hn; auto using Z.eqb_refl, beqb_refl.
  - destruct b; reflexivity.
  - apply feq_refl. apply negb_true_iff. exact Hn.
  - apply all2_refl. intros a Ha. rewrite Forall_forall in H. apply H; auto. apply (forallb_In _ _ Hn); auto.
  - rewrite Nat.eqb_refl. cbn [andb]. rewrite Forall_forall in H.
    assert (Hw : forall kv, In kv m -> same (fst kv) (fst kv) && same (snd kv) (snd kv) = true).
    { intros kv Hi. destruct (H kv Hi) as [Hk Hv]. apply (forallb_In _ _ Hn) in Hi.
      apply andb_true_iff in Hi as [Hi1 Hi2]. rewrite Hk, Hv; auto. }
    apply andb_true_iff. split; apply forallb_forall; intros kv Hi; apply existsb_exists; exists kv; auto.
  - apply all2_refl. intros p Hp. rewrite Forall_forall in H. rewrite Z.eqb_refl. cbn [andb].
    apply H; auto. apply (forallb_In _ _ Hn p Hp).
Qed.

Lemma same_sym : forall x y, same x y = same y x.
Proof.
  induction x using hval_ind'; intros y; destruct y; cbn [same]; auto using Z.eqb_sym, feq_sym, beqb_sym.
  - destruct b, b0; reflexivity.
  - rewrite (all2_flip _ l0 l). apply all2_ext_in. intros a b Ha Hb. rewrite Forall_forall in H. apply H; auto.
  - rewrite Forall_forall in H. rewrite (Nat.eqb_sym (length kvs)).
    rewrite <- !andb_assoc. f_equal. rewrite andb_comm. f_equal.
    + apply forallb_ext_in. intros kv Hi. apply existsb_ext_in. intros kv' Hi'.
      destruct (H kv' Hi') as [Hk Hv]. rewrite Hk, Hv. reflexivity.
    + apply forallb_ext_in. intros kv Hi. apply existsb_ext_in. intros kv' Hi'.
      destruct (H kv Hi) as [Hk Hv]. rewrite Hk, Hv. reflexivity.
  - rewrite (all2_flip _ fs0 fs). apply all2_ext_in. intros p q Hp Hq. rewrite Forall_forall in H.
    rewrite (Z.eqb_sym (fst q)). f_equal. apply H; auto.
Qed.

Lemma same_key_base k k' : is_base_hval k = true -> is_base_hval k' = true -> same k k' = hkey_eq k k'.
Proof. destruct k; cbn; try discriminate; destruct k'; cbn; try discriminate; auto. Qed.

(* ------------------------------------------------------------------ generated comparison = structural equality *)

Definition Qeq (e : env) (x : hval) : Prop :=
  forall t kx ky y, shape e kx t x = true -> shape e ky t y = true ->
    no_struct_keys x = true -> no_struct_keys y = true -> shared_ok x y ->
    deq e t x y = same x y.
Definition Peq (e : env) (x : hval) : Prop :=
  Qeq e x /\ match x with HSome _ u => Qeq e u | _ => True end.

Lemma shared_same a u w x y :
  shared_ok x y -> In (a, u) (ptrs x) -> In (a, w) (ptrs y) -> same u w = true.
Proof. intros H Hu Hw. destruct (H a u w Hu Hw) as [<- Hn]. apply same_refl. exact Hn. Qed.

Lemma deq_same_all e : forall x, Peq e x.
Proof.
  induction x using hval_ind'; (split; [|exact I || auto]).
  - intros t kx ky y Hx Hy _ _ _; destruct t; cbn in Hx; try discriminate; destruct y; cbn in Hy; try discriminate.
    reflexivity.
  - intros t kx ky y Hx Hy _ _ _; destruct t; cbn in Hx; try discriminate; destruct y; cbn in Hy; try discriminate;
      reflexivity.
  - intros t kx ky y Hx Hy _ _ _; destruct t; cbn in Hx; try discriminate; destruct y; cbn in Hy; try discriminate.
    reflexivity.
  - intros t kx ky y Hx Hy _ _ _; destruct t; cbn in Hx; try discriminate; destruct y; cbn in Hy; try discriminate.
    reflexivity.
  - intros t kx ky y Hx Hy _ _ _; destruct t; cbn in Hx; try discriminate; destruct y; cbn in Hy; try discriminate.
    + reflexivity.
    + cbn. apply beqb_nil_r.
  - (* list *)
    intros t kx ky y Hx Hy Nx Ny Hs. destruct (shape_list _ _ _ _ Hx) as [et [Ht Hl]].
    destruct y; try (destruct Ht; subst; cbn in Hy; discriminate).
    + destruct (shape_list _ _ _ _ Hy) as [et' [Ht' Hl']].
      assert (et' = et) by (destruct Ht, Ht'; congruence). subst et'.
      rewrite (deq_list_unfold true e t et l l0 Ht). cbn [same].
      apply all2_ext_in. intros a b Ha Hb.
      rewrite Forall_forall in H. destruct (H a Ha) as [Hq _].
      cbn [no_struct_keys] in Nx, Ny.
      apply (Hq et false false b); eauto using forallb_In.
      eapply shared_ok_incl; [apply ptrs_list_incl; eassumption|apply ptrs_list_incl; eassumption|exact Hs].
    + destruct Ht; subst; reflexivity.
  - (* map *)
    intros t kx ky y Hx Hy Nx Ny Hs. destruct (shape_map _ _ _ _ Hx) as [kt [vt [-> [Hm Hnd]]]].
    destruct y; try (cbn in Hy; discriminate).
    + destruct (shape_map _ _ _ _ Hy) as [kt' [vt' [Ht' [Hm' Hnd']]]]. inversion Ht'; subst kt' vt'.
      rewrite deq_map_unfold. cbn [same]. cbn [no_struct_keys] in Nx, Ny.
      rewrite Forall_forall in H.
      assert (Hpt : forall kv kv', In kv m -> In kv' kvs ->
                same (fst kv) (fst kv') && same (snd kv) (snd kv') =
                hkey_eq (fst kv) (fst kv') && deq e vt (snd kv) (snd kv')).
      { intros kv kv' Hi Hi'. destruct (H kv Hi) as [_ [Hq _]].
        pose proof (forallb_In _ _ Hm _ Hi) as S1. pose proof (forallb_In _ _ Hm' _ Hi') as S2.
        pose proof (forallb_In _ _ Nx _ Hi) as N1. pose proof (forallb_In _ _ Ny _ Hi') as N2.
        apply andb_true_iff in S1 as [_ S1], S2 as [_ S2], N1 as [B1 N1], N2 as [B2 N2].
        rewrite (same_key_base _ _ B1 B2). f_equal. symmetry. apply (Hq vt false false); auto.
        destruct kv as [k v], kv' as [k' v'].
        eapply shared_ok_incl; [eapply ptrs_map_val_incl; eassumption|eapply ptrs_map_val_incl; eassumption|exact Hs]. }
      rewrite (forallb_ext_in _ (fun kv => existsb (fun kv' => hkey_eq (fst kv) (fst kv') && deq e vt (snd kv) (snd kv')) kvs) m)
        by (intros kv Hi; apply existsb_ext_in; intros kv' Hi'; auto).
      rewrite <- (mapcmp_exists (deq e vt) m kvs Hnd').
      rewrite (forallb_ext_in _ (fun kv' => existsb (fun kv => hkey_eq (fst kv') (fst kv) && deq e vt (snd kv) (snd kv')) m) kvs)
        by (intros kv' Hi'; apply existsb_ext_in; intros kv Hi; rewrite (hkey_eq_sym (fst kv')); auto).
      rewrite <- (mapcmp_exists (fun w v => deq e vt v w) kvs m Hnd).
      destruct (length m =? length kvs)%nat eqn:L; cbn [andb]; auto. apply Nat.eqb_eq in L.
      destruct (mapcmp (deq e vt) m kvs) eqn:C; cbn [andb]; auto.
      symmetry. apply mapcmp_swap; auto.
    + reflexivity.
  - (* struct *)
    intros t kx ky y Hx Hy Nx Ny Hsh. destruct (shape_struct _ _ _ _ _ Hx) as [n [s [-> [Hs [Hids Hsl]]]]].
    destruct y; try (cbn in Hy; discriminate).
    + destruct (shape_struct _ _ _ _ _ Hy) as [n' [s' [Ht' [Hs' [Hids' Hsl']]]]]. inversion Ht'; subst n'.
      rewrite Hs in Hs'. inversion Hs'; subst s'.
      rewrite deq_struct_unfold, Hs. destruct (a =? a0) eqn:Ea.
      * apply Z.eqb_eq in Ea. subst a0. symmetry.
        apply (shared_same a _ _ _ _ Hsh); cbn [ptrs]; left; reflexivity.
      * cbn [same]. apply all2_ext_in. intros p q Hp Hq.
        unfold slot_cmp. destruct (fst p =? fst q) eqn:E; cbn [andb]; auto.
        apply Z.eqb_eq in E.
        pose proof (forallb_In _ _ Hsl _ Hp) as Sp. pose proof (forallb_In _ _ Hsl' _ Hq) as Sq.
        unfold slot_shape in Sp, Sq. rewrite <- E in Sq.
        destruct (find_field (fst p) (s_fields s)) as [f|]; try discriminate.
        rewrite Forall_forall in H. destruct (H p Hp) as [Hq1 Hq2].
        cbn [no_struct_keys] in Nx, Ny.
        pose proof (forallb_In _ _ Nx _ Hp) as Np. pose proof (forallb_In _ _ Ny _ Hq) as Nq. cbn beta in Np, Nq.
        assert (Hsub : shared_ok (snd p) (snd q)).
        { eapply shared_ok_incl; [apply ptrs_struct_incl; eassumption|apply ptrs_struct_incl; eassumption|exact Hsh]. }
        unfold deq_slot. destruct (base_ptr f).
        -- destruct (snd p) eqn:Ep; try discriminate; destruct (snd q) eqn:Eq; try discriminate; auto.
           cbn [same]. destruct (a1 =? a2) eqn:Eb; cbn [orb].
           ++ apply Z.eqb_eq in Eb. subst a2. symmetry.
              assert (Hw : same (HSome a1 h) (HSome a1 h0) = true)
                by (apply (shared_same a1 _ _ _ _ Hsub); cbn [ptrs]; left; reflexivity).
              exact Hw.
           ++ cbn [no_struct_keys] in Np, Nq. apply (Hq2 (f_ty f) false false); auto.
              eapply shared_ok_incl; [apply ptrs_some_incl|apply ptrs_some_incl|exact Hsub].
        -- apply (Hq1 (f_ty f) false false); auto.
    + reflexivity.
  - (* nil *)
    intros t kx ky y Hx Hy _ _ _; destruct t; cbn in Hx; try discriminate; destruct y; cbn in Hy; try discriminate;
      cbn; auto using beqb_nil_l; try (destruct l; reflexivity); try (destruct kvs; reflexivity).
  - (* some *)
    intros t kx ky y Hx. cbn in Hx. discriminate.
  - destruct IHx. auto.
Qed.

Theorem deq_same e t x y : eq_domain e t x y = true -> deq e t x y = same x y.
Proof.
  unfold eq_domain. intros H. repeat (apply andb_true_iff in H as [H ?]).
  eapply (proj1 (deq_same_all e x)); eauto using shared_okb_ok.
Qed.

Theorem gen_deep_eq_iff_same e s x y :
  eq_domain e (TRef (s_name s)) x y = true -> (gen_deep_eq e s x y = true <-> same x y = true).
Proof. intros H. unfold gen_deep_eq. rewrite (deq_same e _ x y H). tauto. Qed.

(* ------------------------------------------------------------------ reflexivity, pointer shortcut, nil *)

Lemma deq_same_object rep e n a fs gs : deq_gen rep e (TRef n) (HStruct a fs) (HStruct a gs) = true.
Proof. rewrite deq_struct_unfold, Z.eqb_refl. reflexivity. Qed.

Lemma gen_deep_eq_self e s x :
  (x = HNil \/ exists a fs, x = HStruct a fs) -> gen_deep_eq e s x x = true.
Proof. intros [->|[a [fs ->]]]; [reflexivity|apply deq_same_object]. Qed.

Definition Qrefl (e : env) (x : hval) : Prop :=
  forall t k, shape e k t x = true -> nan_free x = true -> deq e t x x = true.
Definition Prefl (e : env) (x : hval) : Prop :=
  Qrefl e x /\ match x with HSome _ u => Qrefl e u | _ => True end.

Lemma deq_refl_all e : forall x, Prefl e x.
Proof.
  induction x using hval_ind'; (split; [|exact I || auto]).
  - intros t k Hx _; destruct t; cbn in Hx; try discriminate. cbn. destruct b; reflexivity.
  - intros t k Hx _; destruct t; cbn in Hx; try discriminate; cbn; apply Z.eqb_refl.
  - intros t k Hx Hn; destruct t; cbn in Hx; try discriminate. cbn in *. apply feq_refl. apply negb_true_iff. exact Hn.
  - intros t k Hx _; destruct t; cbn in Hx; try discriminate. cbn. apply beqb_refl.
  - intros t k Hx _; destruct t; cbn in Hx; try discriminate. cbn. apply beqb_refl.
  - intros t k Hx Hn. destruct (shape_list _ _ _ _ Hx) as [et [Ht Hl]].
    rewrite (deq_list_unfold true e t et l l Ht). apply all2_refl. intros a Ha.
    rewrite Forall_forall in H. destruct (H a Ha) as [Hq _]. cbn [nan_free] in Hn.
    apply (Hq et false); eauto using forallb_In.
  - intros t k Hx Hn. destruct (shape_map _ _ _ _ Hx) as [kt [vt [-> [Hm Hnd]]]].
    rewrite deq_map_unfold, Nat.eqb_refl. cbn [andb]. apply forallb_forall. intros [k0 v0] Hi. cbn [fst snd].
    cbn [nan_free] in Hn. pose proof (forallb_In _ _ Hn _ Hi) as N1. pose proof (forallb_In _ _ Hm _ Hi) as S1.
    cbn [fst snd] in N1, S1. apply andb_true_iff in N1 as [Nk Nv]. apply andb_true_iff in S1 as [S1 Sv].
    apply andb_true_iff in S1 as [Kk Sk].
    rewrite (hfind_unique k0 k0 v0 m Hnd Hi (keyable_refl _ Kk Nk)).
    rewrite Forall_forall in H. destruct (H _ Hi) as [_ [Hq _]]. apply (Hq vt false); auto.
  - intros t k Hx _. destruct (shape_struct _ _ _ _ _ Hx) as [n [s [-> _]]]. apply deq_same_object.
  - intros t k Hx _. destruct t; cbn in Hx; try discriminate; reflexivity.
  - intros t k Hx. cbn in Hx. discriminate.
  - destruct IHx. auto.
Qed.

Theorem deq_refl e k t x : shape e k t x = true -> nan_free x = true -> deq e t x x = true.
Proof. intros. eapply (proj1 (deq_refl_all e x)); eauto. Qed.

(* a nil receiver, argument or field is compared as the specification says, whatever the other side holds *)
Theorem deq_nil e k t y :
  shape e k t y = true -> deq e t HNil y = same HNil y /\ deq e t y HNil = same y HNil.
Proof.
  intros Hy. destruct y; destruct t; cbn in Hy; try discriminate; cbn; split; auto using beqb_nil_l, beqb_nil_r;
    try (destruct l; reflexivity); try (destruct kvs; reflexivity).
Qed.

(* ------------------------------------------------------------------ validate_set *)

Lemma has_dup_ext_pairwise (r f g : hval -> hval -> bool) l :
  pairwise r l = true ->
  (forall a b, r a b = true -> f a b = g a b) ->
  has_dup f l = has_dup g l.
Proof.
  intros Hp Hfg. induction l as [|a l IH]; cbn [has_dup]; auto.
  cbn [pairwise] in Hp. apply andb_true_iff in Hp as [H1 H2]. f_equal; auto.
  apply existsb_ext_in. intros b Hb. apply Hfg. apply (forallb_In _ _ H1 b Hb).
Qed.

Lemma has_dup_nth (f : hval -> hval -> bool) l :
  has_dup f l = true <-> exists i j, (i < j < length l)%nat /\ f (nth i l HNil) (nth j l HNil) = true.
Proof.
  induction l as [|a l IH]; cbn [has_dup length].
  - split; [discriminate|]. intros [i [j [Hij _]]]. lia.
  - rewrite orb_true_iff, IH. split.
    + intros [H|[i [j [Hij H]]]].
      * apply existsb_exists in H as [b [Hb Hf]]. destruct (In_nth _ _ HNil Hb) as [j [Hj Hn]].
        exists 0%nat, (S j). cbn [nth]. rewrite Hn. split; auto. lia.
      * exists (S i), (S j). cbn [nth]. split; auto. lia.
    + intros [i [j [Hij H]]]. destruct j as [|j]; [lia|]. destruct i as [|i]; cbn [nth] in H.
      * left. apply existsb_exists. exists (nth j l HNil). split; auto. apply nth_In. lia.
      * right. exists i, j. split; auto. lia.
Qed.

(* the domain for one set: its elements pairwise inside eq_domain *)
Definition set_domain (e : env) (et : ty) (l : list hval) : bool := pairwise (eq_domain e et) l.

Theorem validate_set_spec e et l :
  set_domain e et l = true ->
  (validate_set e et l = false <->
   exists i j, (i < j < length l)%nat /\ same (nth i l HNil) (nth j l HNil) = true).
Proof.
  intros Hd. unfold validate_set_gen. rewrite negb_false_iff.
  rewrite (has_dup_ext_pairwise (eq_domain e et) (deq e et) same l Hd (deq_same e et)).
  apply has_dup_nth.
Qed.

(* all of Write: every set of the value *)
Lemma pairwise_and (r1 r2 : hval -> hval -> bool) l :
  pairwise r1 l = true -> pairwise r2 l = true -> pairwise (fun a b => r1 a b && r2 a b) l = true.
Proof.
  induction l as [|a l IH]; cbn [pairwise]; auto. intros H1 H2.
  apply andb_true_iff in H1 as [A1 B1], H2 as [A2 B2]. apply andb_true_iff. split; auto.
  apply forallb_forall. intros b Hb. rewrite (forallb_In _ _ A1 b Hb), (forallb_In _ _ A2 b Hb). reflexivity.
Qed.

Lemma pairwise_unary (p : hval -> bool) l : forallb p l = true -> pairwise (fun a b => p a && p b) l = true.
Proof.
  induction l as [|a l IH]; cbn [pairwise forallb]; auto. intros H. apply andb_true_iff in H as [Ha Hl].
  apply andb_true_iff. split; auto. apply forallb_forall. intros b Hb. rewrite Ha, (forallb_In _ _ Hl b Hb). reflexivity.
Qed.

Lemma pairwise_impl (r1 r2 : hval -> hval -> bool) l :
  (forall a b, r1 a b = true -> r2 a b = true) -> pairwise r1 l = true -> pairwise r2 l = true.
Proof.
  intros Hi. induction l as [|a l IH]; cbn [pairwise]; auto. intros H. apply andb_true_iff in H as [A B].
  apply andb_true_iff. split; auto. apply forallb_forall. intros b Hb. apply Hi. apply (forallb_In _ _ A b Hb).
Qed.

Definition Qsets (e : env) (x : hval) : Prop :=
  forall t k, shape e k t x = true -> no_struct_keys x = true -> sets_shared_ok e t x = true ->
    sets_ok true e t x = sets_distinct e t x.

Lemma sets_ok_distinct_all e : forall x, Qsets e x.
Proof.
  unfold Qsets, sets_ok, sets_distinct, sets_shared_ok.
  induction x using hval_ind'; intros t k Hx Nx Sx; try reflexivity.
  - (* list / set *)
    destruct (shape_list _ _ _ _ Hx) as [et [Ht Hl]]. cbn [no_struct_keys] in Nx. rewrite Forall_forall in H.
    destruct Ht as [-> | ->]; cbn [sets_all] in *.
    + apply forallb_ext_in. intros a Ha. apply (H a Ha et false); eauto using forallb_In.
    + apply andb_true_iff in Sx as [Sp Sx]. f_equal.
      * unfold validate_set_gen. f_equal.
        apply (has_dup_ext_pairwise (eq_domain e et)); [|apply deq_same].
        unfold eq_domain.
        apply pairwise_and; [|exact Sp].
        eapply pairwise_impl; [|apply (pairwise_unary (fun a => shape e false et a && no_struct_keys a))].
        -- intros a b Hab. apply andb_true_iff in Hab as [Ha Hb].
           apply andb_true_iff in Ha as [Ha1 Ha2], Hb as [Hb1 Hb2]. rewrite Ha1, Ha2, Hb1, Hb2. reflexivity.
        -- apply forallb_forall. intros a Ha. rewrite (forallb_In _ _ Hl a Ha), (forallb_In _ _ Nx a Ha). reflexivity.
      * apply forallb_ext_in. intros a Ha. apply (H a Ha et false); eauto using forallb_In.
  - (* map *)
    destruct (shape_map _ _ _ _ Hx) as [kt [vt [-> [Hm Hnd]]]]. cbn [no_struct_keys] in Nx. cbn [sets_all] in *.
    rewrite Forall_forall in H. apply forallb_ext_in. intros kv Hi.
    destruct (H kv Hi) as [Hk Hv].
    pose proof (forallb_In _ _ Hm _ Hi) as S1. pose proof (forallb_In _ _ Nx _ Hi) as N1.
    pose proof (forallb_In _ _ Sx _ Hi) as X1. cbn beta in S1, N1, X1.
    apply andb_true_iff in S1 as [S1 Sv]. apply andb_true_iff in S1 as [_ Sk].
    apply andb_true_iff in N1 as [Bk Nv]. apply andb_true_iff in X1 as [Xk Xv].
    f_equal.
    + apply (Hk kt true); auto. destruct (fst kv); cbn in Bk; try discriminate; reflexivity.
    + apply (Hv vt false); auto.
  - (* struct *)
    destruct (shape_struct _ _ _ _ _ Hx) as [n [s [-> [Hs [Hids Hsl]]]]]. cbn [no_struct_keys] in Nx.
    cbn [sets_all] in *. rewrite Hs in *. rewrite Forall_forall in H. apply forallb_ext_in. intros p Hp.
    pose proof (forallb_In _ _ Hsl _ Hp) as Sp. pose proof (forallb_In _ _ Nx _ Hp) as Np.
    pose proof (forallb_In _ _ Sx _ Hp) as Xp. unfold slot_shape in Sp. cbn beta in Np, Xp.
    destruct (find_field (fst p) (s_fields s)) as [f|]; auto.
    destruct (base_ptr f).
    + destruct (snd p); try discriminate; reflexivity.
    + apply (H p Hp (f_ty f) false); auto.
Qed.

Theorem sets_ok_distinct e k t x :
  shape e k t x = true -> no_struct_keys x = true -> sets_shared_ok e t x = true ->
  sets_ok true e t x = sets_distinct e t x.
Proof. intros. eapply sets_ok_distinct_all; eauto. Qed.

(* ------------------------------------------------------------------ witnesses *)

Module Witness.
  Import String.
  Open Scope string_scope.
  Definition K : sschema := mkstruct (B "a.K") KStruct [mkfield 1 (B "x") Default TI32 None false].
  Definition M : sschema := mkstruct (B "a.M") KStruct
    [ mkfield 1 (B "m1") Default (TMap TI32 TString) None false;
      mkfield 3 (B "mk") Default (TMap (TRef (B "a.K")) TI32) None false;
      mkfield 10 (B "smk") Default (TSet (TMap (TRef (B "a.K")) TI32)) None false;
      mkfield 12 (B "d") Default TDouble None false;
      mkfield 7 (B "oi") Optional TI32 None false ].
  Definition E : env := mkenv [K; M] [].
  Definition tM : ty := TRef (B "a.M").
  Definition tKI : ty := TMap (TRef (B "a.K")) TI32.
  Definition k (a x : Z) : hval := HStruct a [(1, HInt x)].
  Definition m (a : Z) (m1 mk smk : hval) (d : Z) (oi : hval) : hval :=
    HStruct a [(1, m1); (3, mk); (10, smk); (12, HDbl d); (7, oi)].
  Definition nan : Z := 9221120237041090560.      (* 0x7ff8000000000000 *)

  (* recorded finding: a deep copy of a value with a struct-typed map key is not DeepEqual *)
  Definition sk_x := m 1 HNil (HMap [(k 2 1, HInt 7)]) HNil 0 HNil.
  Definition sk_y := m 3 HNil (HMap [(k 4 1, HInt 7)]) HNil 0 HNil.
  (* the same two maps as elements of one set: structurally equal elements that Write accepts *)
  Definition sk_set := [HMap [(k 2 1, HInt 7)]; HMap [(k 4 1, HInt 7)]].
  (* repaired defect: same size, disjoint keys, zero values *)
  Definition mk_x := m 1 (HMap [(HInt 1, HStr [])]) HNil HNil 0 HNil.
  Definition mk_y := m 2 (HMap [(HInt 2, HStr [])]) HNil HNil 0 HNil.
  (* inside the domain, not trivial: nested containers, optional pointer, distinct objects *)
  Definition dom_x := m 1 (HMap [(HInt 1, HStr (B "a")); (HInt 2, HStr [])]) HNil (HList [HNil; HMap []]) 5 (HSome 9 (HInt 3)).
  Definition dom_y := m 2 (HMap [(HInt 2, HStr []); (HInt 1, HStr (B "a"))]) (HMap []) (HList [HMap []; HNil]) 5 (HSome 8 (HInt 3)).
  (* the same object holding a NaN *)
  Definition nan_x := m 1 HNil HNil HNil nan HNil.
End Witness.

Lemma struct_keys_witness :
  shape Witness.E false Witness.tM Witness.sk_x = true /\ shape Witness.E false Witness.tM Witness.sk_y = true /\
  shared_okb Witness.sk_x Witness.sk_y = true /\ nan_free Witness.sk_x = true /\
  no_struct_keys Witness.sk_x = false /\
  same Witness.sk_x Witness.sk_y = true /\ gen_deep_eq Witness.E Witness.M Witness.sk_x Witness.sk_y = false.
Proof. vm_compute. repeat split. Qed.

Lemma struct_keys_set_witness :
  same (nth 0%nat Witness.sk_set HNil) (nth 1%nat Witness.sk_set HNil) = true /\
  validate_set_gen true Witness.E Witness.tKI Witness.sk_set = true.
Proof. vm_compute. repeat split. Qed.

Lemma missing_key_witness :
  eq_domain Witness.E Witness.tM Witness.mk_x Witness.mk_y = true /\
  same Witness.mk_x Witness.mk_y = false /\
  gen_deep_eq_pinned Witness.E Witness.M Witness.mk_x Witness.mk_y = true /\
  gen_deep_eq Witness.E Witness.M Witness.mk_x Witness.mk_y = false.
Proof. vm_compute. repeat split. Qed.

Lemma domain_witness :
  eq_domain Witness.E Witness.tM Witness.dom_x Witness.dom_y = true /\
  gen_deep_eq Witness.E Witness.M Witness.dom_x Witness.dom_y = true.
Proof. vm_compute. repeat split. Qed.

Lemma nan_object_witness :
  gen_deep_eq Witness.E Witness.M Witness.nan_x Witness.nan_x = true /\ same Witness.nan_x Witness.nan_x = false /\
  shared_okb Witness.nan_x Witness.nan_x = false.
Proof. vm_compute. repeat split. Qed.

(* ------------------------------------------------------------------ deep copies *)

Lemma all2_map_r {A B C} (f : A -> C -> bool) (g : B -> C) la lb :
  all2 f la (map g lb) = all2 (fun a b => f a (g b)) la lb.
Proof. revert lb. induction la as [|a la IH]; intros [|b lb]; cbn; auto. f_equal. auto. Qed.

Lemma existsb_map {A B} (f : B -> bool) (g : A -> B) l : existsb f (map g l) = existsb (fun a => f (g a)) l.
Proof. induction l as [|a l IH]; cbn; auto. f_equal. auto. Qed.

Lemma forallb_map {A B} (f : B -> bool) (g : A -> B) l : forallb f (map g l) = forallb (fun a => f (g a)) l.
Proof. induction l as [|a l IH]; cbn; auto. f_equal. auto. Qed.

(* the specification does not look at addresses *)
Lemma is_empty_map {A B} (g : A -> B) l : is_empty (map g l) = is_empty l.
Proof. destruct l; reflexivity. Qed.

Lemma same_readdr_r d : forall x y, same x (readdr d y) = same x y.
Proof.
  induction x using hval_ind'; intros y; destruct y; cbn [same readdr]; auto using is_empty_map.
  - rewrite all2_map_r. apply all2_ext_in. intros a b Ha Hb. rewrite Forall_forall in H. apply H; auto.
  - rewrite Forall_forall in H. rewrite map_length. f_equal; [f_equal|].
    + apply forallb_ext_in. intros kv Hi. rewrite existsb_map. apply existsb_ext_in. intros kv' Hi'. cbn [fst snd].
      destruct (H kv Hi) as [Hk Hv]. rewrite Hk, Hv. reflexivity.
    + rewrite forallb_map. apply forallb_ext_in. intros kv' Hi'. apply existsb_ext_in. intros kv Hi. cbn [fst snd].
      destruct (H kv Hi) as [Hk Hv]. rewrite Hk, Hv. reflexivity.
  - rewrite all2_map_r. apply all2_ext_in. intros p q Hp Hq. cbn [fst snd]. rewrite Forall_forall in H.
    f_equal. apply H; auto.
Qed.

Lemma hkey_eq_readdr d a b : hkey_eq (readdr d a) (readdr d b) = hkey_eq a b.
Proof.
  destruct a, b; cbn; auto.
  destruct (Z.eqb_spec a a0), (Z.eqb_spec (a + d) (a0 + d)); auto; lia.
Qed.

Lemma keyable_readdr d k : keyable (readdr d k) = keyable k.
Proof. destruct k; reflexivity. Qed.

Lemma has_dup_map {A} (eq : A -> A -> bool) (g : A -> A) l :
  (forall a b, eq (g a) (g b) = eq a b) -> has_dup eq (map g l) = has_dup eq l.
Proof.
  intros Hg. induction l as [|a l IH]; cbn; auto. rewrite IH. f_equal.
  rewrite existsb_map. apply existsb_ext_in. intros b _. apply Hg.
Qed.

Definition Qshape (e : env) (d : Z) (x : hval) : Prop :=
  forall t k, shape e k t (readdr d x) = shape e k t x.
Definition Pshape (e : env) (d : Z) (x : hval) : Prop :=
  Qshape e d x /\ match x with HSome _ u => Qshape e d u | _ => True end.

Lemma shape_readdr_all e d : forall x, Pshape e d x.
Proof.
  induction x using hval_ind'; (split; [|exact I || auto]); try (intros t k; reflexivity).
  - intros t k. cbn [readdr shape]. destruct t; auto; rewrite forallb_map; apply forallb_ext_in; intros a Ha;
      rewrite Forall_forall in H; apply (proj1 (H a Ha)).
  - intros t k. cbn [readdr shape]. destruct t; auto. rewrite Forall_forall in H. f_equal.
    + rewrite forallb_map. apply forallb_ext_in. intros kv Hi. cbn [fst snd].
      destruct (H kv Hi) as [[Hk _] [Hv _]]. rewrite keyable_readdr, Hk, Hv. reflexivity.
    + f_equal. rewrite map_map. cbn [fst]. rewrite <- (map_map fst (readdr d)).
      apply has_dup_map. apply hkey_eq_readdr.
  - intros t k. cbn [readdr shape]. destruct t; auto. destruct (find_struct e name) as [s|]; auto.
    rewrite Forall_forall in H. f_equal.
    + f_equal. rewrite map_map. apply map_ext. reflexivity.
    + rewrite forallb_map. apply forallb_ext_in. intros p Hp. cbn [fst snd].
      destruct (find_field (fst p) (s_fields s)) as [f|]; auto.
      destruct (H p Hp) as [Hq1 Hq2].
      destruct (base_ptr f).
      * destruct (snd p); cbn [readdr]; auto.
      * apply Hq1.
  - destruct IHx. auto.
Qed.

Lemma shape_readdr e d k t x : shape e k t (readdr d x) = shape e k t x.
Proof. apply (proj1 (shape_readdr_all e d x)). Qed.

Lemma is_base_readdr d k : is_base_hval (readdr d k) = is_base_hval k.
Proof. destruct k; reflexivity. Qed.

Lemma no_struct_keys_readdr d : forall x, no_struct_keys (readdr d x) = no_struct_keys x.
Proof.
  induction x using hval_ind'; cbn [readdr no_struct_keys]; auto.
  - rewrite forallb_map. apply forallb_ext_in. intros a Ha. rewrite Forall_forall in H. auto.
  - rewrite forallb_map. apply forallb_ext_in. intros kv Hi. cbn [fst snd]. rewrite Forall_forall in H.
    rewrite is_base_readdr. f_equal. apply (H kv Hi).
  - rewrite forallb_map. apply forallb_ext_in. intros p Hp. cbn [fst snd]. rewrite Forall_forall in H. auto.
Qed.

Lemma disjoint_shared_ok x y : disjointb x y = true -> shared_okb x y = true.
Proof.
  unfold disjointb, shared_okb. intros H. apply forallb_forall. intros p Hp.
  apply forallb_forall. intros q Hq. rewrite (forallb_In _ _ (forallb_In _ _ H p Hp) q Hq). reflexivity.
Qed.

(* a deep copy into fresh objects is DeepEqual to the original: NaN-free, no struct-typed map keys *)
Theorem deep_copy_equal e k t x d :
  shape e k t x = true -> no_struct_keys x = true -> nan_free x = true ->
  disjointb x (readdr d x) = true ->
  deq e t x (readdr d x) = true.
Proof.
  intros Hs Hn Hf Hd.
  rewrite (proj1 (deq_same_all e x) t k k (readdr d x)).
  - rewrite same_readdr_r. apply same_refl. exact Hf.
  - exact Hs.
  - rewrite shape_readdr. exact Hs.
  - exact Hn.
  - rewrite no_struct_keys_readdr. exact Hn.
  - apply shared_okb_ok, disjoint_shared_ok. exact Hd.
Qed.

(* ------------------------------------------------------------------ all shaped values: keys by Go identity *)

Lemma same_pk_refl : forall x, nan_free x = true -> keys_ok x = true -> same_pk x x = true.
Proof.
  induction x using hval_ind'; cbn [nan_free keys_ok same_pk]; intros Hn Hk; auto using Z.eqb_refl, beqb_refl.
  - destruct b; reflexivity.
  - apply feq_refl. apply negb_true_iff. exact Hn.
  - apply all2_refl. intros a Ha. rewrite Forall_forall in H. apply H; auto; eapply forallb_In; eauto.
  - rewrite Nat.eqb_refl. cbn [andb]. rewrite Forall_forall in H.
    assert (Hw : forall kv, In kv m -> hkey_eq (fst kv) (fst kv) && same_pk (snd kv) (snd kv) = true).
    { intros kv Hi. destruct (H kv Hi) as [_ Hv]. pose proof (forallb_In _ _ Hn _ Hi) as N1.
      pose proof (forallb_In _ _ Hk _ Hi) as K1. cbn beta in N1, K1.
      apply andb_true_iff in N1 as [Nk Nv]. apply andb_true_iff in K1 as [K1 Kv]. apply andb_true_iff in K1 as [Ky Kk].
      rewrite (keyable_refl _ Ky Nk), Hv; auto. }
    apply andb_true_iff. split; apply forallb_forall; intros kv Hi; apply existsb_exists; exists kv; auto.
  - apply all2_refl. intros p Hp. rewrite Forall_forall in H. rewrite Z.eqb_refl. cbn [andb].
    apply H; auto; [apply (forallb_In _ _ Hn p Hp)|apply (forallb_In _ _ Hk p Hp)].
Qed.

Definition heap_ok (x y : hval) : Prop :=
  forall a u w, In (a, u) (ptrs x) -> In (a, w) (ptrs y) -> u = w /\ nan_free u = true /\ keys_ok u = true.

Lemma heap_ok_incl x y x' y' :
  incl (ptrs x') (ptrs x) -> incl (ptrs y') (ptrs y) -> heap_ok x y -> heap_ok x' y'.
Proof. intros Hx Hy H a u w Hu Hw. apply (H a u w); auto. Qed.

Lemma heap_okb_ok x y : heap_okb x y = true -> heap_ok x y.
Proof.
  unfold heap_okb. intros H a u w Hu Hw.
  apply (forallb_In _ _ H) in Hu. apply (forallb_In _ _ Hu) in Hw. cbn [fst snd] in Hw.
  rewrite Z.eqb_refl in Hw. cbn in Hw. apply andb_true_iff in Hw as [Hw H3]. apply andb_true_iff in Hw as [H1 H2].
  repeat split; auto. apply heqb_eq. exact H1.
Qed.

Lemma heap_same a u w x y :
  heap_ok x y -> In (a, u) (ptrs x) -> In (a, w) (ptrs y) -> same_pk u w = true.
Proof. intros H Hu Hw. destruct (H a u w Hu Hw) as [<- [Hn Hk]]. apply same_pk_refl; auto. Qed.

Definition Qpk (e : env) (x : hval) : Prop :=
  forall t kx ky y, shape e kx t x = true -> shape e ky t y = true -> heap_ok x y ->
    deq e t x y = same_pk x y.
Definition Ppk (e : env) (x : hval) : Prop :=
  Qpk e x /\ match x with HSome _ u => Qpk e u | _ => True end.

Lemma deq_same_pk_all e : forall x, Ppk e x.
Proof.
  induction x using hval_ind'; (split; [|exact I || auto]).
  - intros t kx ky y Hx Hy _; destruct t; cbn in Hx; try discriminate; destruct y; cbn in Hy; try discriminate.
    reflexivity.
  - intros t kx ky y Hx Hy _; destruct t; cbn in Hx; try discriminate; destruct y; cbn in Hy; try discriminate;
      reflexivity.
  - intros t kx ky y Hx Hy _; destruct t; cbn in Hx; try discriminate; destruct y; cbn in Hy; try discriminate.
    reflexivity.
  - intros t kx ky y Hx Hy _; destruct t; cbn in Hx; try discriminate; destruct y; cbn in Hy; try discriminate.
    reflexivity.
  - intros t kx ky y Hx Hy _; destruct t; cbn in Hx; try discriminate; destruct y; cbn in Hy; try discriminate.
    + reflexivity.
    + cbn. apply beqb_nil_r.
  - (* list *)
    intros t kx ky y Hx Hy Hs. destruct (shape_list _ _ _ _ Hx) as [et [Ht Hl]].
    destruct y; try (destruct Ht; subst; cbn in Hy; discriminate).
    + destruct (shape_list _ _ _ _ Hy) as [et' [Ht' Hl']].
      assert (et' = et) by (destruct Ht, Ht'; congruence). subst et'.
      rewrite (deq_list_unfold true e t et l l0 Ht). cbn [same_pk].
      apply all2_ext_in. intros a b Ha Hb.
      rewrite Forall_forall in H. destruct (H a Ha) as [Hq _].
      apply (Hq et false false b); eauto using forallb_In.
      eapply heap_ok_incl; [apply ptrs_list_incl; eassumption|apply ptrs_list_incl; eassumption|exact Hs].
    + destruct Ht; subst; reflexivity.
  - (* map *)
    intros t kx ky y Hx Hy Hs. destruct (shape_map _ _ _ _ Hx) as [kt [vt [-> [Hm Hnd]]]].
    destruct y; try (cbn in Hy; discriminate).
    + destruct (shape_map _ _ _ _ Hy) as [kt' [vt' [Ht' [Hm' Hnd']]]]. inversion Ht'; subst kt' vt'.
      rewrite deq_map_unfold. cbn [same_pk].
      rewrite Forall_forall in H.
      assert (Hpt : forall kv kv', In kv m -> In kv' kvs ->
                hkey_eq (fst kv) (fst kv') && same_pk (snd kv) (snd kv') =
                hkey_eq (fst kv) (fst kv') && deq e vt (snd kv) (snd kv')).
      { intros kv kv' Hi Hi'. destruct (H kv Hi) as [_ [Hq _]].
        pose proof (forallb_In _ _ Hm _ Hi) as S1. pose proof (forallb_In _ _ Hm' _ Hi') as S2.
        apply andb_true_iff in S1 as [_ S1], S2 as [_ S2].
        f_equal. symmetry. apply (Hq vt false false); auto.
        destruct kv as [k v], kv' as [k' v'].
        eapply heap_ok_incl; [eapply ptrs_map_val_incl; eassumption|eapply ptrs_map_val_incl; eassumption|exact Hs]. }
      rewrite (forallb_ext_in _ (fun kv => existsb (fun kv' => hkey_eq (fst kv) (fst kv') && deq e vt (snd kv) (snd kv')) kvs) m)
        by (intros kv Hi; apply existsb_ext_in; intros kv' Hi'; auto).
      rewrite <- (mapcmp_exists (deq e vt) m kvs Hnd').
      rewrite (forallb_ext_in _ (fun kv' => existsb (fun kv => hkey_eq (fst kv') (fst kv) && deq e vt (snd kv) (snd kv')) m) kvs)
        by (intros kv' Hi'; apply existsb_ext_in; intros kv Hi; rewrite (hkey_eq_sym (fst kv')); auto).
      rewrite <- (mapcmp_exists (fun w v => deq e vt v w) kvs m Hnd).
      destruct (length m =? length kvs)%nat eqn:L; cbn [andb]; auto. apply Nat.eqb_eq in L.
      destruct (mapcmp (deq e vt) m kvs) eqn:C; cbn [andb]; auto.
      symmetry. apply mapcmp_swap; auto.
    + reflexivity.
  - (* struct *)
    intros t kx ky y Hx Hy Hsh. destruct (shape_struct _ _ _ _ _ Hx) as [n [s [-> [Hs [Hids Hsl]]]]].
    destruct y; try (cbn in Hy; discriminate).
    + destruct (shape_struct _ _ _ _ _ Hy) as [n' [s' [Ht' [Hs' [Hids' Hsl']]]]]. inversion Ht'; subst n'.
      rewrite Hs in Hs'. inversion Hs'; subst s'.
      rewrite deq_struct_unfold, Hs. destruct (a =? a0) eqn:Ea.
      * apply Z.eqb_eq in Ea. subst a0. symmetry.
        apply (heap_same a _ _ _ _ Hsh); cbn [ptrs]; left; reflexivity.
      * cbn [same_pk]. apply all2_ext_in. intros p q Hp Hq.
        unfold slot_cmp. destruct (fst p =? fst q) eqn:E; cbn [andb]; auto.
        apply Z.eqb_eq in E.
        pose proof (forallb_In _ _ Hsl _ Hp) as Sp. pose proof (forallb_In _ _ Hsl' _ Hq) as Sq.
        unfold slot_shape in Sp, Sq. rewrite <- E in Sq.
        destruct (find_field (fst p) (s_fields s)) as [f|]; try discriminate.
        rewrite Forall_forall in H. destruct (H p Hp) as [Hq1 Hq2].
          assert (Hsub : heap_ok (snd p) (snd q)).
        { eapply heap_ok_incl; [apply ptrs_struct_incl; eassumption|apply ptrs_struct_incl; eassumption|exact Hsh]. }
        unfold deq_slot. destruct (base_ptr f).
        -- destruct (snd p) eqn:Ep; try discriminate; destruct (snd q) eqn:Eq; try discriminate; auto.
           cbn [same_pk]. destruct (a1 =? a2) eqn:Eb; cbn [orb].
           ++ apply Z.eqb_eq in Eb. subst a2. symmetry.
              assert (Hw : same_pk (HSome a1 h) (HSome a1 h0) = true)
                by (apply (heap_same a1 _ _ _ _ Hsub); cbn [ptrs]; left; reflexivity).
              exact Hw.
           ++ apply (Hq2 (f_ty f) false false); auto.
              eapply heap_ok_incl; [apply ptrs_some_incl|apply ptrs_some_incl|exact Hsub].
        -- apply (Hq1 (f_ty f) false false); auto.
    + reflexivity.
  - (* nil *)
    intros t kx ky y Hx Hy _; destruct t; cbn in Hx; try discriminate; destruct y; cbn in Hy; try discriminate;
      cbn; auto using beqb_nil_l; try (destruct l; reflexivity); try (destruct kvs; reflexivity).
  - (* some *)
    intros t kx ky y Hx. cbn in Hx. discriminate.
  - destruct IHx. auto.
Qed.


(* on every pair of shaped values with a consistent heap, struct-typed map keys included, the generated
   comparison is structural equality with keys matched by Go identity *)
Theorem deq_same_pk e t kx ky x y :
  shape e kx t x = true -> shape e ky t y = true -> heap_okb x y = true -> deq e t x y = same_pk x y.
Proof. intros Hx Hy Hh. eapply (proj1 (deq_same_pk_all e x)); eauto using heap_okb_ok. Qed.

(* and without struct-typed keys that is plain structural equality *)
Lemma same_pk_same : forall x y, no_struct_keys x = true -> no_struct_keys y = true -> same_pk x y = same x y.
Proof.
  induction x using hval_ind'; intros y Nx Ny; destruct y; cbn [same same_pk]; auto; cbn [no_struct_keys] in Nx, Ny; auto.
  - apply all2_ext_in. intros a b Ha Hb. rewrite Forall_forall in H.
    apply H; [exact Ha|apply (forallb_In _ _ Nx a Ha)|apply (forallb_In _ _ Ny b Hb)].
  - rewrite Forall_forall in H. f_equal; [f_equal|].
    + apply forallb_ext_in. intros kv Hi. apply existsb_ext_in. intros kv' Hi'.
      pose proof (forallb_In _ _ Nx _ Hi) as N1. pose proof (forallb_In _ _ Ny _ Hi') as N2. cbn beta in N1, N2.
      apply andb_true_iff in N1 as [B1 N1], N2 as [B2 N2].
      rewrite (same_key_base _ _ B1 B2). f_equal. apply (proj2 (H kv Hi)); auto.
    + apply forallb_ext_in. intros kv' Hi'. apply existsb_ext_in. intros kv Hi.
      pose proof (forallb_In _ _ Nx _ Hi) as N1. pose proof (forallb_In _ _ Ny _ Hi') as N2. cbn beta in N1, N2.
      apply andb_true_iff in N1 as [B1 N1], N2 as [B2 N2].
      rewrite (same_key_base _ _ B1 B2). f_equal. apply (proj2 (H kv Hi)); auto.
  - apply all2_ext_in. intros p q Hp Hq. rewrite Forall_forall in H. f_equal.
    apply H; auto; [apply (forallb_In _ _ Nx p Hp)|apply (forallb_In _ _ Ny q Hq)].
Qed.

Lemma copy_witness :
  disjointb Witness.dom_x (readdr 100 Witness.dom_x) = true /\
  gen_deep_eq Witness.E Witness.M Witness.dom_x (readdr 100 Witness.dom_x) = true.
Proof. vm_compute. repeat split. Qed.

Lemma pk_witness :
  heap_okb Witness.sk_x Witness.sk_y = true /\
  same_pk Witness.sk_x Witness.sk_y = false /\ gen_deep_eq Witness.E Witness.M Witness.sk_x Witness.sk_y = false /\
  same Witness.sk_x Witness.sk_y = true.
Proof. vm_compute. repeat split. Qed.

Theorem validate_set_pk_spec e et l :
  set_domain_pk e et l = true ->
  (validate_set e et l = false <->
   exists i j, (i < j < length l)%nat /\ same_pk (nth i l HNil) (nth j l HNil) = true).
Proof.
  intros Hd. unfold validate_set_gen. rewrite negb_false_iff.
  rewrite (has_dup_ext_pairwise _ (deq e et) same_pk l Hd).
  - apply has_dup_nth.
  - intros a b Hab. apply andb_true_iff in Hab as [Hab Hh]. apply andb_true_iff in Hab as [Ha Hb].
    eapply deq_same_pk; eauto.
Qed.
