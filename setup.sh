#!/bin/sh
# Build the framework from files on disk only (offline): Coq project + Go harness.
set -e
cd "$(dirname "$0")"
export GOFLAGS=-mod=mod GOPROXY=off GOSUMDB=off GOTOOLCHAIN=local
python3 - <<'PY'
import sys, os
sys.path.insert(0, os.path.join(os.getcwd(), "lib"))
import vlib
bad = vlib.forbidden_words()
if bad:
    print("forbidden constructs in coq/:"); print("\n".join(bad)); sys.exit(1)
vlib.harness_prepare()
PY
# translators regenerate their .v files from /repo before the Coq build
if [ -x ./translate.sh ]; then ./translate.sh; fi
cd coq
python3 -c "import sys; sys.path.insert(0, \"../lib\"); import vlib; vlib.coq_makefile()"
timeout 3000 make -j"$(nproc)"
cd ../harness
mkdir -p ../build/bin
for d in cmd/*/; do
  n=$(basename "$d")
  go build -tags verif -o ../build/bin/"$n" ./"$d"
done
(cd /repo && go build -tags verif -o /verif/build/bin/thriftgo .)
echo setup-ok
