(* Idl/ResolveComplete.v — completeness of the resolver model: on every program
   described by Idl/ResolvableSpec.v, [resolve_program] succeeds. *)
From Coq Require Import List Bool Arith Lia NArith ZArith Permutation.
From Coq.Strings Require Import Byte.
From Verif Require Import Base.Bytes Idl.Ast Idl.AstUtil Idl.AstFacts Idl.Resolve Idl.ResolveSpec Idl.ResolveTd
     Idl.ResolveLemmas Idl.ResolveInv Idl.ResolveConst Idl.ResolveProg Idl.ResolveDeref Idl.ResolvePerm Idl.ResolveFacts Idl.ResolvableSpec.
Import ListNotations.
Local Open Scope resolve_scope.

(* ---------------------------------------------------------------- the executable denotation is sound *)

Lemma denote_sound p : forall fuel fn n d, denote fuel p fn n = Some d -> name_denotes p fn n d.
Proof.
  induction fuel as [|k IH]; intros fn n d H; cbn [denote] in H; [discriminate|].
  assert (Hdef : forall gn a, denote_def (denote k p) p gn a = Some d -> def_denotes p gn a d).
  { intros gn a Hd. unfold denote_def in Hd. destruct (def_of p gn a) as [kd|] eqn:Dk; [|discriminate].
    destruct kd as [tgt| |vs|s|]; try discriminate.
    - eapply dd_typedef; eauto.
    - injection Hd as <-. eapply dd_enum; eauto.
    - injection Hd as <-. eapply dd_struct; eauto. }
  destruct (builtin_category n) as [c|] eqn:Bn; [injection H as <-; apply nd_builtin; exact Bn|].
  destruct (split_type n) as [|a [|m [|? ?]]] eqn:Sn; try discriminate.
  - eapply nd_local; eauto.
  - destruct (prog_file p fn) as [f|] eqn:Pf; [|discriminate].
    destruct (spec_include p is_type_kind a m (file_incs f) 0) as [[i gn]|] eqn:Si; [|discriminate].
    eapply nd_qualified; eauto.
Qed.

Lemma denotes_b_sound p fn n : denotes_b p fn n = true -> exists d, name_denotes p fn n d.
Proof.
  unfold denotes_b. destruct (denote (denote_fuel p) p fn n) as [d|] eqn:E; [|discriminate].
  intros _. exists d. eapply denote_sound; eauto.
Qed.

(* ---------------------------------------------------------------- generic *)

Lemma mapM_ok {A B} (f : A -> result B) l : (forall x, In x l -> exists y, f x = Ok y) -> exists l', mapM f l = Ok l'.
Proof.
  induction l as [|x l IH]; intros H; cbn [mapM]; [eauto|].
  destruct (H x (or_introl eq_refl)) as (y & ->). cbn [bind].
  destruct IH as (l' & ->); [intros z Hz; apply H; right; exact Hz|]. cbn [bind]. eauto.
Qed.

Lemma nodupb_NoDup l : nodupb l = true -> NoDup l.
Proof.
  induction l as [|x l IH]; cbn [nodupb]; intros H; [constructor|].
  apply andb_true_iff in H. destruct H as (Hx & Hl). constructor; [|auto].
  intros Hin. apply negb_true_iff in Hx. assert (existsb (beqb x) l = true); [|congruence].
  apply existsb_exists. exists x. split; [exact Hin | apply beqb_refl].
Qed.

(* ---------------------------------------------------------------- from the specification to the model's lookups *)

Lemma spec_include_find p done (okc : category -> bool) (okk : dkind -> bool) pre m :
  inv p done -> (forall k, okk k = okc (dkind_cat k)) ->
  forall incs idx i gn,
  (forall x, In x incs -> exists hn, in_ref x = Some hn /\ lookup hn done <> None) ->
  spec_include p okk pre m (map inc_key incs) idx = Some (i, gn) ->
  exists c, find_include done okc pre m incs idx = Some (i, c).
Proof.
  intros Hinv Hok. induction incs as [|x incs IH]; intros idx i gn Hin H; cbn [map spec_include] in H; [discriminate|].
  cbn [find_include]. unfold inc_key at 1 in H.
  assert (Hin' : forall y, In y incs -> exists hn, in_ref y = Some hn /\ lookup hn done <> None)
    by (intros y Hy; apply Hin; right; exact Hy).
  destruct (beqb (idl_prefix (in_path x)) pre) eqn:Ep; [|eapply IH; eauto].
  destruct (Hin x (or_introl eq_refl)) as (hn & Hr & Hd). rewrite Hr in H.
  rewrite (include_target_done done x hn Hr).
  destruct (lookup hn done) as [g'|] eqn:Lg; [|congruence].
  destruct (Hinv hn g' Lg) as (g & Hg & Gd).
  rewrite (gd_n2c _ _ _ _ _ Gd). rewrite (def_of_file p hn g m Hg) in H.
  destruct (lookup m (file_defs g)) as [k|]; cbn [option_map]; [|eapply IH; eauto].
  rewrite Hok in H. destruct (okc (dkind_cat k)); [|eapply IH; eauto].
  injection H as <- <-. eauto.
Qed.

(* ---------------------------------------------------------------- ResolveType succeeds *)

Section FileComplete.
  Variables (p done : program) (fn : bytes) (f : file).
  Hypothesis Hinv : inv p done.
  Hypothesis Hf : prog_file p fn = Some f.
  Hypothesis Htargets : forall i, In i (f_includes f) -> exists hn, in_ref i = Some hn /\ lookup hn done <> None.
  Variable g1 : file.
  Hypothesis Hreg : register (file_def_names f) [] = Ok (n2c_of g1).
  Hypothesis Hincs : f_includes g1 = f_includes f.

  Lemma g1_lookup a : lookup a (n2c_of g1) = option_map dkind_cat (def_of p fn a).
  Proof. rewrite (def_of_file p fn f a Hf). exact (proj2 (register_file f _ Hreg) a). Qed.

  Lemma def_denotes_type_kind gn a d : def_denotes p gn a d -> exists k, def_of p gn a = Some k /\ is_type_kind k = true.
  Proof. destruct 1; eexists; split; eauto. destruct k; reflexivity. Qed.

  Lemma resolve_ty_complete : forall t, ty_ok p fn t = true -> exists t', resolve_ty done g1 t = Ok t'.
  Proof.
    induction t as [n k v cpp an cat r td IHk IHv] using ty_ind'. intros H. cbn [ty_ok] in H. cbn [resolve_ty].
    destruct (builtin_category n) as [c|] eqn:Bn.
    - destruct c; eauto.
      + destruct k as [kt|]; [|discriminate]. destruct v as [vt|]; [|discriminate].
        apply andb_true_iff in H. destruct H as (H1 & H2).
        destruct (IHk kt eq_refl H1) as (k' & ->). destruct (IHv vt eq_refl H2) as (v' & ->). cbn [bind]. eauto.
      + destruct k; [discriminate|]. destruct v as [vt|]; [|discriminate]. destruct (IHv vt eq_refl H) as (v' & ->). cbn [bind]. eauto.
      + destruct k; [discriminate|]. destruct v as [vt|]; [|discriminate]. destruct (IHv vt eq_refl H) as (v' & ->). cbn [bind]. eauto.
    - destruct k; [discriminate|]. destruct v; [discriminate|].
      destruct (denotes_b_sound _ _ _ H) as (d & Hd).
      inversion Hd as [? ? c Hb | ? ? a ? Hb Hs Hdd | ? f0 ? pre m i gn ? Hb Hs Hf0 Hsi Hdd]; subst; [congruence| |].
      + rewrite Hs. destruct (def_denotes_type_kind _ _ _ Hdd) as (kd & Hk & Tk).
        rewrite g1_lookup, Hk. cbn [option_map]. unfold is_type_kind in Tk. rewrite Tk. eauto.
      + rewrite Hs. assert (f0 = f) by congruence. subst f0. rewrite Hincs.
        destruct (spec_include_find p done is_type_cat is_type_kind pre m Hinv (fun _ => eq_refl) _ _ _ _ Htargets Hsi) as (c & ->).
        eauto.
  Qed.

  (* ---- values *)
  Variable fuel : nat.
  Variable okid : bytes -> bool.
  Hypothesis Hid : forall s, okid s = true -> exists e, resolve_ident fuel done g1 s = Ok e.

  Lemma resolve_ident_bool s : ident_is_bool s = true -> resolve_ident fuel done g1 s = Ok None.
  Proof. unfold resolve_ident. intros ->. reflexivity. Qed.

  Lemma resolve_cv_complete : forall c, cv_idents_ok okid c = true -> exists c', resolve_cv fuel done g1 c = Ok c'.
  Proof.
    induction c as [b|z|s|s e|l IHl|l IHl] using const_value_ind'; intros H; cbn [resolve_cv]; eauto.
    - cbn [cv_idents_ok] in H. apply orb_true_iff in H. destruct H as [H|H].
      + rewrite (resolve_ident_bool s H). cbn [bind]. eauto.
      + destruct (Hid s H) as (e' & ->). cbn [bind]. eauto.
    - cbn [cv_idents_ok] in H. rewrite forallb_forall in H.
      assert (G : exists l', (fix go (l0 : list const_value) : result (list const_value) :=
                   match l0 with [] => Ok [] | x :: r => x' <- resolve_cv fuel done g1 x;; r' <- go r;; Ok (x' :: r') end) l = Ok l').
      { induction IHl as [|y l Hy _ IH2]; [eauto|].
        destruct (Hy (H y (or_introl eq_refl))) as (y' & ->). cbn [bind].
        destruct IH2 as (l' & ->); [intros z Hz; apply H; right; exact Hz|]. cbn [bind]. eauto. }
      destruct G as (l' & ->). cbn [bind]. eauto.
    - cbn [cv_idents_ok] in H. rewrite forallb_forall in H.
      assert (G : exists l', (fix go (l0 : list (const_value * const_value)) : result (list (const_value * const_value)) :=
                   match l0 with [] => Ok [] | (k, v) :: r => k' <- resolve_cv fuel done g1 k;; v' <- resolve_cv fuel done g1 v;; r' <- go r;; Ok ((k', v') :: r') end) l = Ok l').
      { induction IHl as [|[k v] l (Hk & Hv) _ IH2]; [eauto|]. cbn [fst snd] in Hk, Hv.
        pose proof (H (k, v) (or_introl eq_refl)) as Hkv. cbn [fst snd] in Hkv. apply andb_true_iff in Hkv. destruct Hkv as (Hk1 & Hv1).
        destruct (Hk Hk1) as (k' & ->). cbn [bind]. destruct (Hv Hv1) as (v' & ->). cbn [bind].
        destruct IH2 as (l' & ->); [intros z Hz; apply H; right; exact Hz|]. cbn [bind]. eauto. }
      destruct G as (l' & ->). cbn [bind]. eauto.
  Qed.

  Definition field_ok (fd : field) : Prop :=
    ty_ok p fn (fd_type fd) = true /\ forall c, fd_default fd = Some c -> cv_idents_ok okid c = true.

  Lemma resolve_field_complete b fd : field_ok fd -> exists fd', resolve_field fuel done g1 b fd = Ok fd'.
  Proof.
    intros (Ht & Hd). unfold resolve_field. destruct (resolve_ty_complete _ Ht) as (t' & ->). cbn [bind].
    destruct (fd_default fd) as [c|]; [|cbn [bind]; eauto].
    destruct (resolve_cv_complete c (Hd c eq_refl)) as (c' & ->). cbn [bind]. eauto.
  Qed.

  Lemma resolve_fields_complete b l : (forall fd, In fd l -> field_ok fd) ->
    exists l', mapM (resolve_field fuel done g1 b) l = Ok l'.
  Proof. intros H. apply mapM_ok. intros fd Hin. apply resolve_field_complete. auto. Qed.

  Lemma resolve_struct_complete s : (forall fd, In fd (sl_fields s) -> field_ok fd) ->
    exists s', resolve_struct_like fuel done g1 s = Ok s'.
  Proof. intros H. unfold resolve_struct_like. destruct (resolve_fields_complete (is_union s) _ H) as (l' & ->). cbn [bind]. eauto. Qed.

  Lemma resolve_function_complete fu :
    (fn_void fu = false -> ty_ok p fn (fn_type fu) = true) ->
    (forall fd, In fd (function_fields fu) -> field_ok fd) ->
    exists fu', resolve_function fuel done g1 fu = Ok fu'.
  Proof.
    intros Ht H. unfold resolve_function.
    assert (E : exists rt, (if fn_void fu then Ok (fn_type fu) else resolve_ty done g1 (fn_type fu)) = Ok rt).
    { destruct (fn_void fu); [eauto|]. apply resolve_ty_complete. auto. }
    destruct E as (rt & ->). cbn [bind]. unfold function_fields in H.
    destruct (resolve_fields_complete false (fn_args fu)) as (a' & ->); [intros fd Hin; apply H; apply in_or_app; auto|]. cbn [bind].
    destruct (resolve_fields_complete false (fn_throws fu)) as (t' & ->); [intros fd Hin; apply H; apply in_or_app; auto|]. cbn [bind]. eauto.
  Qed.

  Lemma resolve_base_complete sv : base_ok p fn f sv = true -> exists r, resolve_base done g1 sv = Ok r.
  Proof.
    unfold base_ok, resolve_base. destruct (split_type (sv_extends sv)) as [|a [|m [|? ?]]]; eauto.
    - rewrite g1_lookup. destruct (def_of p fn a) as [k|]; [|discriminate]. destruct k; try discriminate. cbn. eauto.
    - destruct (spec_include p is_service_kind a m (file_incs f) 0) as [[i gn]|] eqn:Si; [|discriminate]. intros _.
      rewrite Hincs. destruct (spec_include_find p done is_service_cat is_service_kind a m Hinv (fun _ => eq_refl) _ _ _ _ Htargets Si) as (c & ->).
      eauto.
  Qed.

  Lemma resolve_service_complete sv :
    (forall fu, In fu (sv_functions sv) -> (fn_void fu = false -> ty_ok p fn (fn_type fu) = true) /\
                                          (forall fd, In fd (function_fields fu) -> field_ok fd)) ->
    base_ok p fn f sv = true -> exists sv', resolve_service fuel done g1 sv = Ok sv'.
  Proof.
    intros H Hb. unfold resolve_service.
    destruct (mapM_ok (resolve_function fuel done g1) (sv_functions sv)) as (fs & ->).
    { intros fu Hin. destruct (H fu Hin). apply resolve_function_complete; auto. }
    cbn [bind]. destruct (resolve_base_complete sv Hb) as (r & ->). cbn [bind]. eauto.
  Qed.
End FileComplete.

(* ---------------------------------------------------------------- the typedef pass succeeds *)

(* what a name denotes never has the category Typedef *)
Lemma denotes_kind p :
  (forall fn n d, def_denotes p fn n d -> is_typedef_cat (kind d) = false) /\
  (forall fn n d, name_denotes p fn n d -> is_typedef_cat (kind d) = false).
Proof.
  apply denotes_mutind; intros; auto.
  - destruct k; reflexivity.
  - cbn [kind]. exact (proj1 (builtin_cases _ _ H)).
Qed.

Lemma te_init_alias' d g td : te_alias (te_init d g td) = td_alias td.
Proof.
  unfold te_init. destruct (is_typedef_cat _); [|reflexivity]. destruct (ty_ref _); [|reflexivity].
  destruct (ext_typedef_cat _ _ _); reflexivity.
Qed.

Section FixComplete.
  Variables (p done : program) (fn : bytes) (f : file).
  Hypothesis Hinv : inv p done.
  Hypothesis Hf : prog_file p fn = Some f.
  Hypothesis Htargets : forall i, In i (f_includes f) -> exists hn, in_ref i = Some hn /\ lookup hn done <> None.
  Variable n2c : list (bytes * category).
  Hypothesis Hreg : register (file_def_names f) [] = Ok n2c.
  Variable tds1 : list typedef.
  Hypothesis Htds1 : mapM (resolve_typedef done (with_name2cat f (Some n2c))) (f_typedefs f) = Ok tds1.
  (* every typedef of the file denotes something *)
  Hypothesis Htd_den : forall td, In td (f_typedefs f) -> exists d, name_denotes p fn (ty_name (td_type td)) d.

  Let c1 := cur1 f n2c tds1.
  Let s0 := st0 done f n2c tds1.

  Lemma ext_typedef_cat_some pre m i gn tgt :
    spec_include p is_type_kind pre m (file_incs f) 0 = Some (i, gn) ->
    def_of p gn m = Some (DkTypedef tgt) ->
    exists c', ext_typedef_cat done c1 (Ref m (Z.of_nat i)) = Some c' /\ is_typedef_cat c' = false /\
               exists d, def_denotes p gn m d /\ kind d = c'.
  Proof.
    intros Hs Hd. destruct (spec_include_nth _ _ _ _ _ _ _ _ Hs) as (_ & Hnth & _).
    rewrite Nat.sub_0_r in Hnth. unfold file_incs in Hnth. rewrite nth_error_map in Hnth.
    destruct (nth_error (f_includes f) i) as [x|] eqn:Nx; [|discriminate]. cbn [option_map] in Hnth.
    injection Hnth as _ Hrx.
    destruct (Htargets x (nth_error_In _ _ Nx)) as (hn & Hrn & Hln). assert (hn = gn) by congruence. subst hn.
    destruct (lookup gn done) as [g'|] eqn:Lg; [|congruence].
    destruct (Hinv gn g' Lg) as (g & Hg & Gd). rewrite (def_of_file p gn g m Hg) in Hd.
    destruct (good_find_typedef p done gn g g' m tgt Gd Hd) as (td' & Ft & _ & _).
    assert (E : ext_typedef_cat done c1 (Ref m (Z.of_nat i)) = Some (ty_category (td_type td'))).
    { unfold ext_typedef_cat, reference_target. cbn [ref_index ref_name]. rewrite nth_include_nat.
      change (f_includes c1) with (f_includes f). rewrite Nx, (include_target_done done x gn Hrx), Lg, Ft. reflexivity. }
    exists (ty_category (td_type td')). split; [exact E|].
    destruct (ext_typedef_denotes p done f Hinv n2c tds1 pre m i gn _ Hs E) as (d & Hdd & Hk).
    split; [rewrite <- Hk; exact (proj1 (denotes_kind p) _ _ _ Hdd) | eauto].
  Qed.

  Lemma local_typedef_entry a tgt : def_of p fn a = Some (DkTypedef tgt) ->
    exists td1, In td1 tds1 /\ td_alias td1 = a /\ ty_name (td_type td1) = tgt /\ head1 done c1 (td_type td1).
  Proof.
    intros Hd. rewrite (def_of_file p fn f a Hf) in Hd.
    assert (Htd : exists td, In td (f_typedefs f) /\ td_alias td = a).
    { apply lookup_In in Hd. unfold file_defs in Hd. apply in_app_or in Hd. destruct Hd as [Hd|Hd].
      - apply in_map_iff in Hd. destruct Hd as (td & [= <- _] & Hin). eauto.
      - exfalso. repeat (apply in_app_or in Hd; destruct Hd as [Hd|Hd]);
          apply in_map_iff in Hd; destruct Hd as (? & [= _ ?] & _). }
    destruct Htd as (td & Hin & Ha).
    destruct (Forall2_In_l _ _ _ _ (tds1_aligned done f n2c tds1 Htds1) Hin) as (td1 & Hin1 & (Ha1 & Hn1 & _)).
    destruct (tds1_def p done fn f Hf n2c Hreg tds1 Htds1 td1 Hin1) as (Hdef & Hh).
    exists td1. split; [exact Hin1|]. split; [congruence|]. split; [|exact Hh].
    rewrite Ha1, Ha, (def_of_file p fn f a Hf), Hd in Hdef. congruence.
  Qed.

  Lemma denotes_chain :
    (forall gn a d, def_denotes p gn a d -> gn = fn -> forall tgt, def_of p fn a = Some (DkTypedef tgt) ->
                    te_chain s0 a (kind d)) /\
    (forall gn n d, name_denotes p gn n d -> gn = fn -> builtin_category n = None ->
                    forall a tgt, split_type n = [a] -> def_of p fn a = Some (DkTypedef tgt) -> te_chain s0 a (kind d)).
  Proof.
    apply denotes_mutind.
    - intros gn a vs H -> tgt Hd. congruence.
    - intros gn a k H -> tgt Hd. congruence.
    - intros gn a tgt d Hdef Hden IH -> tgt' Hd. assert (tgt' = tgt) by congruence. subst tgt'.
      destruct (local_typedef_entry a tgt Hd) as (td1 & Hin1 & Ha1 & Hn1 & Hh).
      assert (Hin : In (te_init done c1 td1) s0) by (unfold s0, st0; apply in_map; exact Hin1).
      pose proof (proj2 (denotes_kind p) _ _ _ Hden) as Hnk.
      assert (Hnon : is_typedef_cat (ty_category (td_type td1)) = false -> te_chain s0 a (kind d)).
      { intros Tc.
        destruct (head1_nontypedef_denotes p done fn f Hinv Hf Htargets n2c Hreg tds1 _ Hh Tc) as (d0 & Hd0 & Hk0).
        rewrite Hn1 in Hd0. pose proof (name_denotes_fun p _ _ _ Hd0 _ Hden) as ->.
        pose proof (tc_done s0 _ Hin) as Hc. unfold te_init in Hc. fold c1 in Hc. rewrite Tc in Hc.
        cbn [te_cat te_alias] in Hc. rewrite Ha1, <- Hk0 in Hc. apply Hc. rewrite Hk0. exact Tc. }
      destruct (is_typedef_cat (ty_category (td_type td1))) eqn:Tc; [|auto].
      unfold head1 in Hh. rewrite Hn1 in Hh. destruct (builtin_category tgt) as [cb|] eqn:Bt.
      { destruct Hh as (Hc & _). rewrite Hc in Tc. rewrite (proj1 (builtin_cases _ _ Bt)) in Tc. discriminate. }
      destruct (split_type tgt) as [|a' [|m [|? ?]]] eqn:St; try contradiction.
      + destruct Hh as (c & La & _ & Hc & Hr0 & _). subst c.
        pose proof (split_type_single _ _ St) as ->.
        rewrite (cur_lookup p fn f Hf n2c Hreg tds1) in La.
        destruct (def_of p fn tgt) as [k|] eqn:Dk; [|discriminate]. cbn [option_map] in La. injection La as La.
        assert (dkind_cat k = CatTypedef) as Hk by (rewrite La; destruct (ty_category (td_type td1)); try discriminate; reflexivity).
        destruct (dkind_typedef k Hk) as (tgt2 & ->).
        specialize (IH eq_refl eq_refl tgt tgt2 eq_refl Dk).
        apply tc_step with (e := te_init done c1 td1) (b := tgt) in IH; [| exact Hin | |].
        * unfold te_init in IH. fold c1 in IH. rewrite Tc, Hr0 in IH. cbn [te_alias] in IH. rewrite Ha1 in IH. exact IH.
        * unfold te_init. fold c1. rewrite Tc, Hr0. reflexivity.
        * unfold te_init. fold c1. rewrite Tc, Hr0. cbn [te_local]. rewrite Hn1. reflexivity.
      + destruct Hh as (idx & c & Fi & Hc & Hr0 & _). subst c.
        destruct (cur_find_include p done f Hinv Htargets n2c tds1 is_type_cat is_type_kind a' m idx _ (fun k => eq_refl) Fi) as (gn & k & Hs & Dk & Hk).
        assert (dkind_cat k = CatTypedef) as Hk' by (rewrite Hk; destruct (ty_category (td_type td1)); try discriminate; reflexivity).
        destruct (dkind_typedef k Hk') as (tgt2 & ->).
        destruct (ext_typedef_cat_some a' m idx gn tgt2 Hs Dk) as (c' & Ec & Nc & (d' & Hd' & Hkd')).
        assert (Hden' : name_denotes p fn tgt d') by (eapply nd_qualified; eauto).
        pose proof (name_denotes_fun p _ _ _ Hden' _ Hden) as ->.
        pose proof (tc_done s0 _ Hin) as Hc. unfold te_init in Hc. fold c1 in Hc. rewrite Tc, Hr0, Ec in Hc.
        cbn [te_cat te_alias] in Hc. rewrite Ha1, <- Hkd' in Hc. apply Hc. rewrite Hkd'. exact Nc.
    - intros gn n c Hb -> Hb'. congruence.
    - intros gn n a d Hb Hs Hdd IH -> _ a' tgt Hs' Hd. assert (a' = a) by congruence. subst a'. eapply IH; eauto.
    - intros gn f0 n pre m i hn d Hb Hs _ _ _ _ -> _ a tgt Hs'. congruence.
  Qed.

  Lemma st0_resolvable : te_resolvable s0.
  Proof.
    intros e Hin. unfold s0, st0 in Hin. apply in_map_iff in Hin. destruct Hin as (td1 & <- & Hin1).
    destruct (tds1_def p done fn f Hf n2c Hreg tds1 Htds1 td1 Hin1) as (Hdef & _).
    rewrite te_init_alias'.
    destruct (Forall2_In_r _ _ _ _ (tds1_aligned done f n2c tds1 Htds1) Hin1) as (td & Hin0 & (Ha & Hn & _)).
    destruct (Htd_den td Hin0) as (d & Hd). rewrite <- Hn in Hd.
    exists (kind d). eapply (proj1 denotes_chain); [eapply dd_typedef; eauto | reflexivity | exact Hdef].
  Qed.

  Lemma te_fix_ok : exists st, te_fix (S (length tds1)) s0 = Ok st.
  Proof.
    destruct (te_fix_complete s0 (st0_nodup done f n2c Hreg tds1 Htds1) st0_resolvable) as (st & H & _).
    unfold s0, st0 in H. rewrite map_length in H. eauto.
  Qed.

  (* ---- the second pass *)
  Variable st : list tde.
  Hypothesis Hfix : te_fix (S (length tds1)) s0 = Ok st.

  Lemma st_lookup_typedef a tgt : def_of p fn a = Some (DkTypedef tgt) ->
    exists c', te_lookup st a = Some c' /\ is_typedef_cat c' = false.
  Proof.
    intros Hd. pose proof (te_fix_sound _ _ _ Hfix) as HS.
    destruct (local_typedef_entry a tgt Hd) as (td1 & Hin1 & Ha1 & _).
    assert (Hin0 : In (te_init done c1 td1) s0) by (unfold s0, st0; apply in_map; exact Hin1).
    destruct (Forall2_In_l _ _ _ _ HS Hin0) as (e & Hin & (Hae & _)).
    rewrite te_init_alias', Ha1 in Hae.
    unfold te_lookup. destruct (find_by te_alias a st) as [e'|] eqn:F.
    - destruct (find_by_In _ _ _ _ F) as (Hin' & _).
      destruct (Forall2_In_r _ _ _ _ HS Hin') as (e0 & _ & (_ & _ & Hn & _)). eauto.
    - exfalso. apply find_by_none in F. apply F. rewrite <- Hae. apply in_map. exact Hin.
  Qed.

  Lemma fix_ty_complete : forall t t1, ty_ok p fn t = true -> resolve_ty done c1 t = Ok t1 ->
    exists t2, fix_ty done c1 st t1 = Ok t2.
  Proof.
    induction t as [n k v cpp an cat r td IHk IHv] using ty_ind'. intros t1 Hok H.
    cbn [ty_ok] in Hok. cbn [resolve_ty] in H. destruct (builtin_category n) as [c|] eqn:Bn.
    - pose proof (proj1 (builtin_cases _ _ Bn)) as Nt. destruct c; try (cbn in Nt; discriminate);
        try (destruct k; [discriminate|]; destruct v; [discriminate|]; injection H as <-; cbn [fix_ty bind is_typedef_cat]; eauto; fail).
      + destruct k as [kt|]; [|discriminate]. destruct v as [vt|]; [|discriminate].
        apply andb_true_iff in Hok. destruct Hok as (H1 & H2). inv_bind H. injection H as <-.
        destruct (IHk kt eq_refl _ H1 E) as (k2 & Ek). destruct (IHv vt eq_refl _ H2 E0) as (v2 & Ev).
        cbn [fix_ty]. rewrite Ek, Ev. cbn [bind is_typedef_cat]. eauto.
      + destruct k; [discriminate|]. destruct v as [vt|]; [|discriminate]. inv_bind H. injection H as <-.
        destruct (IHv vt eq_refl _ Hok E) as (v2 & Ev). cbn [fix_ty]. rewrite Ev. cbn [bind is_typedef_cat]. eauto.
      + destruct k; [discriminate|]. destruct v as [vt|]; [|discriminate]. inv_bind H. injection H as <-.
        destruct (IHv vt eq_refl _ Hok E) as (v2 & Ev). cbn [fix_ty]. rewrite Ev. cbn [bind is_typedef_cat]. eauto.
    - destruct k; [discriminate|]. destruct v; [discriminate|].
      destruct (split_type n) as [|a [|m [|? ?]]] eqn:Sn; try discriminate.
      + destruct (lookup a (n2c_of c1)) as [c|] eqn:La; [|discriminate].
        destruct (is_type_cat c) eqn:Tc; [|discriminate]. injection H as <-. cbn [fix_ty bind].
        destruct (is_typedef_cat c) eqn:Td; [|eauto].
        pose proof (split_type_single _ _ Sn) as ->.
        unfold c1 in La. rewrite (cur_lookup p fn f Hf n2c Hreg tds1) in La.
        destruct (def_of p fn n) as [kd|] eqn:Dk; [|discriminate]. cbn [option_map] in La. injection La as <-.
        assert (dkind_cat kd = CatTypedef) as Hk by (destruct (dkind_cat kd); try discriminate; reflexivity).
        destruct (dkind_typedef kd Hk) as (tgt & ->).
        destruct (st_lookup_typedef n tgt Dk) as (c' & -> & ->). eauto.
      + destruct (find_include done is_type_cat a m (f_includes c1) 0) as [[idx c]|] eqn:Fi; [|discriminate].
        injection H as <-. cbn [fix_ty bind]. destruct (is_typedef_cat c) eqn:Td; [|eauto].
        destruct (cur_find_include p done f Hinv Htargets n2c tds1 is_type_cat is_type_kind a m idx c (fun k => eq_refl) Fi) as (gn & kd & Hs & Dk & Hk).
        assert (dkind_cat kd = CatTypedef) as Hk' by (rewrite Hk; destruct c; try discriminate; reflexivity).
        destruct (dkind_typedef kd Hk') as (tgt & ->).
        destruct (ext_typedef_cat_some a m idx gn tgt Hs Dk) as (c' & -> & -> & _). eauto.
  Qed.

  Lemma second_pass {A B C} (r : A -> result B) (fx : B -> result C) (ok : A -> Prop) l l1 :
    (forall x y, ok x -> r x = Ok y -> exists z, fx y = Ok z) ->
    (forall x, In x l -> ok x) -> mapM r l = Ok l1 -> exists l2, mapM fx l1 = Ok l2.
  Proof.
    intros Hstep Hok H. apply mapM_ok. intros y Hy.
    destruct (Forall2_In_r _ _ _ _ (mapM_Forall2 _ _ _ H) Hy) as (x & Hx & Hxy). eapply Hstep; eauto.
  Qed.

  Lemma fix_typedef_complete td td1 : ty_ok p fn (td_type td) = true ->
    resolve_typedef done (with_name2cat f (Some n2c)) td = Ok td1 -> exists td2, fix_typedef done c1 st td1 = Ok td2.
  Proof.
    intros Hok H. unfold resolve_typedef in H. inv_bind H. injection H as <-.
    rewrite (resolve_ty_ctx done (with_name2cat f (Some n2c)) c1 eq_refl eq_refl) in E.
    destruct (fix_ty_complete _ _ Hok E) as (t2 & Ht). unfold fix_typedef. cbn [td_type]. rewrite Ht. cbn [bind]. eauto.
  Qed.

  Lemma fix_constant_complete fuel c c1' : ty_ok p fn (co_type c) = true ->
    resolve_constant fuel done c1 c = Ok c1' -> exists c2, fix_constant done c1 st c1' = Ok c2.
  Proof.
    intros Hok H. unfold resolve_constant in H. inv_bind H. injection H as <-.
    destruct (fix_ty_complete _ _ Hok E) as (t2 & Ht). unfold fix_constant. cbn [co_type]. rewrite Ht. cbn [bind]. eauto.
  Qed.

  Lemma fix_field_complete fuel b fd fd1 : ty_ok p fn (fd_type fd) = true ->
    resolve_field fuel done c1 b fd = Ok fd1 -> exists fd2, fix_field done c1 st fd1 = Ok fd2.
  Proof.
    intros Hok H. unfold resolve_field in H. inv_bind H. injection H as <-.
    destruct (fix_ty_complete _ _ Hok E) as (t2 & Ht). unfold fix_field. cbn [fd_type]. rewrite Ht. cbn [bind]. eauto.
  Qed.

  Lemma fix_fields_complete fuel b l l1 : (forall fd, In fd l -> ty_ok p fn (fd_type fd) = true) ->
    mapM (resolve_field fuel done c1 b) l = Ok l1 -> exists l2, mapM (fix_field done c1 st) l1 = Ok l2.
  Proof.
    intros Hok H. eapply (second_pass _ _ (fun fd => ty_ok p fn (fd_type fd) = true)); [|exact Hok|exact H].
    intros x y Hx Hxy. eapply fix_field_complete; eauto.
  Qed.

  Lemma fix_struct_complete fuel s s1 : (forall fd, In fd (sl_fields s) -> ty_ok p fn (fd_type fd) = true) ->
    resolve_struct_like fuel done c1 s = Ok s1 -> exists s2, fix_struct_like done c1 st s1 = Ok s2.
  Proof.
    intros Hok H. unfold resolve_struct_like in H. inv_bind H. injection H as <-.
    destruct (fix_fields_complete _ _ _ _ Hok E) as (l2 & Hl). unfold fix_struct_like. cbn [sl_fields]. rewrite Hl. cbn [bind]. eauto.
  Qed.

  Definition function_types_ok (fu : function) : Prop :=
    (fn_void fu = false -> ty_ok p fn (fn_type fu) = true) /\ void_ok fu = true /\
    (forall fd, In fd (function_fields fu) -> ty_ok p fn (fd_type fd) = true).

  Lemma fix_function_complete fuel fu fu1 : function_types_ok fu ->
    resolve_function fuel done c1 fu = Ok fu1 -> exists fu2, fix_function done c1 st fu1 = Ok fu2.
  Proof.
    intros (Ht & Hv & Hfs) H. unfold resolve_function in H. inv_bind H. injection H as <-. rename x into rt.
    unfold fix_function. cbn [fn_type fn_args fn_throws].
    assert (Ert : exists rt2, fix_ty done c1 st rt = Ok rt2).
    { unfold void_ok in Hv. destruct (fn_void fu).
      - injection E as <-. destruct (fn_type fu) as [n k v cpp an cat r td]. cbn [ty_key ty_value ty_category] in Hv.
        destruct k; [discriminate|]. destruct v; [discriminate|]. apply negb_true_iff in Hv.
        cbn [fix_ty bind]. rewrite Hv. eauto.
      - eapply fix_ty_complete; eauto. }
    destruct Ert as (rt2 & ->). cbn [bind]. unfold function_fields in Hfs.
    destruct (fix_fields_complete _ _ _ _ (fun fd Hin => Hfs fd (in_or_app _ _ _ (or_introl Hin))) E0) as (a2 & ->). cbn [bind].
    destruct (fix_fields_complete _ _ _ _ (fun fd Hin => Hfs fd (in_or_app _ _ _ (or_intror Hin))) E1) as (t2 & ->). cbn [bind]. eauto.
  Qed.

  Lemma fix_service_complete fuel sv sv1 : (forall fu, In fu (sv_functions sv) -> function_types_ok fu) ->
    resolve_service fuel done c1 sv = Ok sv1 -> exists sv2, fix_service done c1 st sv1 = Ok sv2.
  Proof.
    intros Hok H. unfold resolve_service in H. inv_bind H. injection H as <-.
    destruct (second_pass _ (fix_function done c1 st) function_types_ok _ _ (fun x y Hx Hxy => fix_function_complete _ x y Hx Hxy) Hok E) as (l2 & Hl).
    unfold fix_service. cbn [sv_functions]. rewrite Hl. cbn [bind]. eauto.
  Qed.
End FixComplete.

(* ---------------------------------------------------------------- one file *)

Lemma ty_ok_head_denotes p fn t : ty_ok p fn t = true -> exists d, name_denotes p fn (ty_name t) d.
Proof.
  destruct t as [n k v cpp an cat r td]. cbn [ty_ok ty_name]. destruct (builtin_category n) as [c|] eqn:Bn.
  - intros _. exists (TBuiltin c). apply nd_builtin. exact Bn.
  - destruct k; [discriminate|]. destruct v; [discriminate|]. apply denotes_b_sound.
Qed.

Section FileLevel.
  Variable p : program.
  Variable idok : bytes -> bytes -> bool.
  (* what [idok] promises: the identifier resolves in the context of its file *)
  Hypothesis Hid : forall done fn f n2c tds1 s,
    inv p done -> prog_file p fn = Some f ->
    (forall i, In i (f_includes f) -> exists hn, in_ref i = Some hn /\ lookup hn done <> None) ->
    register (file_def_names f) [] = Ok n2c ->
    mapM (resolve_typedef done (with_name2cat f (Some n2c))) (f_typedefs f) = Ok tds1 ->
    idok fn s = true ->
    exists e, resolve_ident (enum_fuel done (cur1 f n2c tds1)) done (cur1 f n2c tds1) s = Ok e.

  Lemma resolve_file_complete done fn f :
    inv p done -> prog_file p fn = Some f ->
    (forall i, In i (f_includes f) -> exists hn, in_ref i = Some hn /\ lookup hn done <> None) ->
    file_ok idok p fn f = true -> exists f', resolve_file_in done f = Ok f'.
  Proof.
    intros Hinv Hf Htg Hok. unfold file_ok in Hok. repeat (apply andb_true_iff in Hok; destruct Hok as (Hok & ?)).
    rename Hok into Hnd, H2 into Hty, H1 into Hbase, H0 into Hvoid, H into Hcv.
    rewrite forallb_forall in Hty, Hbase, Hvoid, Hcv.
    (* membership facts *)
    assert (Ttd : forall td, In td (f_typedefs f) -> ty_ok p fn (td_type td) = true).
    { intros td Hin. apply Hty. unfold file_top_occs. apply in_or_app. left. apply in_map. exact Hin. }
    assert (Tco : forall c, In c (f_constants f) -> ty_ok p fn (co_type c) = true).
    { intros c Hin. apply Hty. unfold file_top_occs. apply in_or_app. right. apply in_or_app. left. apply in_map. exact Hin. }
    assert (Tfd : forall s fd, In s (struct_likes f) -> In fd (sl_fields s) -> ty_ok p fn (fd_type fd) = true).
    { intros s fd Hs Hfd. apply Hty. unfold file_top_occs. apply in_or_app. right. apply in_or_app. right. apply in_or_app. left.
      apply in_map. apply in_flat_map'. eauto. }
    assert (Tfn : forall sv fu t, In sv (f_services f) -> In fu (sv_functions sv) -> In t (function_top_types fu) -> ty_ok p fn t = true).
    { intros sv fu t Hs Hfu Ht. apply Hty. unfold file_top_occs. apply in_or_app. right. apply in_or_app. right. apply in_or_app. right.
      apply in_flat_map'. exists sv. split; [exact Hs|]. apply in_flat_map'. eauto. }
    assert (Vco : forall c, In c (f_constants f) -> cv_idents_ok (idok fn) (co_value c) = true).
    { intros c Hin. apply Hcv. unfold file_top_const_values. apply in_or_app. left. apply in_map. exact Hin. }
    assert (Vfd : forall fd c, In fd (file_fields f) -> fd_default fd = Some c -> cv_idents_ok (idok fn) c = true).
    { intros fd c Hin Hd. apply Hcv. unfold file_top_const_values. apply in_or_app. right. apply in_flat_map'.
      exists fd. split; [exact Hin|]. rewrite Hd. left. reflexivity. }
    assert (Fsl : forall s fd, In s (struct_likes f) -> In fd (sl_fields s) -> In fd (file_fields f)).
    { intros s fd Hs Hfd. unfold file_fields. apply in_or_app. left. apply in_flat_map'. eauto. }
    assert (Ffn : forall sv fu fd, In sv (f_services f) -> In fu (sv_functions sv) -> In fd (function_fields fu) -> In fd (file_fields f)).
    { intros sv fu fd Hs Hfu Hfd. unfold file_fields. apply in_or_app. right. apply in_flat_map'. exists sv. split; [exact Hs|].
      unfold service_fields. apply in_flat_map'. eauto. }
    assert (I1 : incl (f_structs f) (struct_likes f)) by (unfold struct_likes; intros x Hx; apply in_or_app; left; exact Hx).
    assert (I2 : incl (f_unions f) (struct_likes f)) by (unfold struct_likes; intros x Hx; apply in_or_app; right; apply in_or_app; left; exact Hx).
    assert (I3 : incl (f_exceptions f) (struct_likes f)) by (unfold struct_likes; intros x Hx; apply in_or_app; right; apply in_or_app; right; exact Hx).
    (* names *)
    destruct (register_complete (file_def_names f) []) as (n2c & Hreg).
    { rewrite map_fst_def_names. apply nodupb_NoDup. exact Hnd. } { reflexivity. }
    set (f0 := with_name2cat f (Some n2c)).
    (* typedef types *)
    destruct (mapM_ok (resolve_typedef done f0) (f_typedefs f)) as (tds1 & Htds1).
    { intros td Hin. unfold resolve_typedef.
      destruct (resolve_ty_complete p done fn f Hinv Hf Htg f0 Hreg eq_refl _ (Ttd td Hin)) as (t' & ->). cbn [bind]. eauto. }
    set (f1 := cur1 f n2c tds1). set (fuel := enum_fuel done f1).
    pose proof (fun s => Hid done fn f n2c tds1 s Hinv Hf Htg Hreg Htds1) as Hids.
    assert (Hfld : forall fd, ty_ok p fn (fd_type fd) = true -> In fd (file_fields f) -> field_ok p fn (idok fn) fd).
    { intros fd Ht Hin. split; [exact Ht|]. intros c Hd. eapply Vfd; eauto. }
    (* first pass *)
    destruct (mapM_ok (resolve_constant fuel done f1) (f_constants f)) as (cs1 & Hcs1).
    { intros c Hin. unfold resolve_constant.
      destruct (resolve_ty_complete p done fn f Hinv Hf Htg f1 Hreg eq_refl _ (Tco c Hin)) as (t' & ->). cbn [bind].
      destruct (resolve_cv_complete done f1 fuel (idok fn) Hids _ (Vco c Hin)) as (v' & ->). cbn [bind]. eauto. }
    assert (Hsl : forall l, incl l (struct_likes f) -> exists l1, mapM (resolve_struct_like fuel done f1) l = Ok l1).
    { intros l Hl. apply mapM_ok. intros s Hin.
      eapply (resolve_struct_complete p done fn f Hinv Hf Htg f1 Hreg eq_refl fuel (idok fn) Hids).
      intros fd Hfd. apply Hfld; [eapply Tfd; eauto | eapply Fsl; eauto]. }
    destruct (Hsl (f_structs f) I1) as (ss1 & Hss1).
    destruct (Hsl (f_unions f) I2) as (us1 & Hus1).
    destruct (Hsl (f_exceptions f) I3) as (es1 & Hes1).
    destruct (mapM_ok (resolve_service fuel done f1) (f_services f)) as (sv1 & Hsv1).
    { intros sv Hin. eapply (resolve_service_complete p done fn f Hinv Hf Htg f1 Hreg eq_refl fuel (idok fn) Hids); [|apply Hbase; exact Hin].
      intros fu Hfu. split.
      - intros Hv. eapply Tfn; eauto. unfold function_top_types. rewrite Hv. left. reflexivity.
      - intros fd Hfd. apply Hfld; [|eapply Ffn; eauto]. eapply Tfn; eauto. unfold function_top_types.
        apply in_or_app. right. apply in_map. exact Hfd. }
    (* the fixpoint *)
    destruct (te_fix_ok p done fn f Hinv Hf Htg n2c Hreg tds1 Htds1) as (st & Hst).
    { intros td Hin. apply ty_ok_head_denotes. apply Ttd. exact Hin. }
    (* second pass *)
    destruct (second_pass _ (fix_typedef done f1 st) (fun td => ty_ok p fn (td_type td) = true) _ _
                (fun x y Hx Hxy => fix_typedef_complete p done fn f Hinv Hf Htg n2c Hreg tds1 Htds1 st Hst x y Hx Hxy) Ttd Htds1) as (tds2 & Htds2).
    destruct (second_pass _ (fix_constant done f1 st) (fun c => ty_ok p fn (co_type c) = true) _ _
                (fun x y Hx Hxy => fix_constant_complete p done fn f Hinv Hf Htg n2c Hreg tds1 Htds1 st Hst fuel x y Hx Hxy) Tco Hcs1) as (cs2 & Hcs2).
    assert (Hsl2 : forall l l1, incl l (struct_likes f) -> mapM (resolve_struct_like fuel done f1) l = Ok l1 ->
                   exists l2, mapM (fix_struct_like done f1 st) l1 = Ok l2).
    { intros l l1 Hl H1. eapply (second_pass _ _ (fun s => forall fd, In fd (sl_fields s) -> ty_ok p fn (fd_type fd) = true)); [| |exact H1].
      - intros x y Hx Hxy. exact (fix_struct_complete p done fn f Hinv Hf Htg n2c Hreg tds1 Htds1 st Hst fuel x y Hx Hxy).
      - intros s Hs fd Hfd. eapply Tfd; eauto. }
    destruct (Hsl2 _ _ I1 Hss1) as (ss2 & Hss2).
    destruct (Hsl2 _ _ I2 Hus1) as (us2 & Hus2).
    destruct (Hsl2 _ _ I3 Hes1) as (es2 & Hes2).
    assert (Hsvok : forall sv, In sv (f_services f) -> forall fu, In fu (sv_functions sv) -> function_types_ok p fn fu).
    { intros sv Hs fu Hfu. split; [|split].
      - intros Hv. eapply Tfn; eauto. unfold function_top_types. rewrite Hv. left. reflexivity.
      - pose proof (Hvoid sv Hs) as Hv. rewrite forallb_forall in Hv. exact (Hv fu Hfu).
      - intros fd Hfd. eapply Tfn; eauto. unfold function_top_types. apply in_or_app. right. apply in_map. exact Hfd. }
    destruct (second_pass _ (fix_service done f1 st) (fun sv => forall fu, In fu (sv_functions sv) -> function_types_ok p fn fu) _ _
                (fun x y Hx Hxy => fix_service_complete p done fn f Hinv Hf Htg n2c Hreg tds1 Htds1 st Hst fuel x y Hx Hxy) Hsvok Hsv1) as (sv2 & Hsv2).
    (* assemble *)
    unfold resolve_file_in. rewrite Hreg. cbn [bind]. fold f0. rewrite Htds1. cbn [bind].
    change (with_typedefs f0 tds1) with f1. fold fuel.
    rewrite Hcs1. cbn [bind]. rewrite Hss1. cbn [bind]. rewrite Hus1. cbn [bind]. rewrite Hes1. cbn [bind]. rewrite Hsv1. cbn [bind].
    change (map (te_init done f1) tds1) with (st0 done f n2c tds1). rewrite Hst. cbn [bind].
    rewrite Htds2. cbn [bind]. rewrite Hcs2. cbn [bind]. rewrite Hss2. cbn [bind]. rewrite Hus2. cbn [bind]. rewrite Hes2. cbn [bind].
    rewrite Hsv2. cbn [bind]. eauto.
  Qed.
End FileLevel.

(* ---------------------------------------------------------------- the include graph *)

Definition inc_step (p : program) (a b : bytes) : Prop :=
  exists f i, prog_file p a = Some f /\ In i (f_includes f) /\ in_ref i = Some b.

Inductive reaches (p : program) : bytes -> bytes -> Prop :=
| r_refl a : reaches p a a
| r_step a b c : inc_step p a b -> reaches p b c -> reaches p a c.

Lemma reaches_snoc p a b c : reaches p a b -> inc_step p b c -> reaches p a c.
Proof. induction 1 as [a|a b0 b Hs _ IH]; intros H; [eapply r_step; [exact H | apply r_refl] | eapply r_step; eauto]. Qed.

Lemma reaches_trans p a b c : reaches p a b -> reaches p b c -> reaches p a c.
Proof. induction 1; intros; [assumption | eapply r_step; eauto]. Qed.

Lemma includes_ok_step p k a b : includes_ok (S k) p a = true -> inc_step p a b -> includes_ok k p b = true.
Proof.
  cbn [includes_ok]. intros H (f & i & Hf & Hi & Hr). rewrite Hf in H. rewrite forallb_forall in H.
  specialize (H i Hi). rewrite Hr in H. exact H.
Qed.

(* [includes_ok] excludes include cycles *)
Lemma includes_ok_acyclic p : forall n a, includes_ok n p a = true ->
  forall b, inc_step p a b -> reaches p b a -> False.
Proof.
  induction n as [|k IH]; intros a H b Hs Hr; [discriminate|].
  pose proof (includes_ok_step p k a b H Hs) as Hb.
  inversion Hr as [|? c ? Hbc Hca]; subst.
  - exact (IH a Hb a Hs (r_refl p a)).
  - exact (IH b Hb c Hbc (reaches_snoc p c a b Hca Hs)).
Qed.

Definition go_includes (k : nat) (p : program) :=
  fix go (incs : list include) (d : program) {struct incs} : result program :=
    match incs with
    | [] => Ok d
    | i :: r => match in_ref i with
                | Some g => d' <- resolve_rec k p d g;; go r d'
                | None => Error ErrNotParsed
                end
    end.

Lemma resolve_rec_unfold k p d a :
  resolve_rec (S k) p d a =
  match lookup a d with
  | Some _ => Ok d
  | None =>
    match prog_file p a with
    | None => Error ErrNotParsed
    | Some f =>
      done1 <- go_includes k p (f_includes f) d;;
      match lookup a done1 with
      | Some _ => Error ErrIncludeCycle
      | None => f' <- resolve_file_in done1 f;; Ok ((a, f') :: done1)
      end
    end
  end.
Proof. reflexivity. Qed.

(* what a run of the driver adds to the finished files is reachable from its start *)
Lemma resolve_rec_adds p : forall fuel d a d1, resolve_rec fuel p d a = Ok d1 ->
  forall x, lookup x d1 <> None -> lookup x d <> None \/ reaches p a x.
Proof.
  induction fuel as [|k IH]; intros d a d1 H x Hx.
  - cbn [resolve_rec] in H. destruct (lookup a d); [|discriminate]. injection H as <-. auto.
  - rewrite resolve_rec_unfold in H. destruct (lookup a d) eqn:La; [injection H as <-; auto|].
    destruct (prog_file p a) as [f|] eqn:Pf; [|discriminate]. inv_bind H. rename x0 into done1.
    assert (Hgo : forall incs d0 d2, go_includes k p incs d0 = Ok d2 -> forall y, lookup y d2 <> None ->
              lookup y d0 <> None \/ exists i g, In i incs /\ in_ref i = Some g /\ reaches p g y).
    { induction incs as [|i incs IHi]; intros d0 d2 Hg y Hy; cbn [go_includes] in Hg.
      - injection Hg as <-. auto.
      - destruct (in_ref i) as [g|] eqn:Ri; [|discriminate]. inv_bind Hg.
        destruct (IHi _ _ Hg y Hy) as [Hy'|(j & g' & Hj & Hrj & Hre)].
        + destruct (IH _ _ _ E0 y Hy') as [?|Hre]; [auto|]. right. exists i, g. cbn. auto.
        + right. exists j, g'. cbn. auto. }
    destruct (lookup a done1) eqn:La1; [discriminate|]. inv_bind H. injection H as <-.
    cbn [lookup] in Hx. destruct (beqb x a) eqn:Exa.
    + apply beqb_true in Exa. subst. right. apply r_refl.
    + destruct (Hgo _ _ _ E x Hx) as [?|(i & g & Hi & Hri & Hre)]; [auto|].
      right. eapply r_step; [|exact Hre]. exists f, i. auto.
Qed.

Section Driver.
  Variable p : program.
  Variable idok : bytes -> bytes -> bool.
  Hypothesis Hid : forall done fn f n2c tds1 s,
    inv p done -> prog_file p fn = Some f ->
    (forall i, In i (f_includes f) -> exists hn, in_ref i = Some hn /\ lookup hn done <> None) ->
    register (file_def_names f) [] = Ok n2c ->
    mapM (resolve_typedef done (with_name2cat f (Some n2c))) (f_typedefs f) = Ok tds1 ->
    idok fn s = true ->
    exists e, resolve_ident (enum_fuel done (cur1 f n2c tds1)) done (cur1 f n2c tds1) s = Ok e.
  Hypothesis Hall : forall fn f, prog_file p fn = Some f -> file_ok idok p fn f = true.

  Lemma resolve_rec_complete : forall fuel d a, inv p d -> includes_ok fuel p a = true ->
    exists d1, resolve_rec fuel p d a = Ok d1.
  Proof.
    induction fuel as [|k IH]; intros d a Hinv Hok; [discriminate|].
    rewrite resolve_rec_unfold. destruct (lookup a d) eqn:La; [eauto|].
    pose proof Hok as Hok'. cbn [includes_ok] in Hok. destruct (prog_file p a) as [f|] eqn:Pf; [|discriminate].
    rewrite forallb_forall in Hok.
    assert (Hgo : forall incs, incl incs (f_includes f) -> forall d0, inv p d0 ->
              exists d2, go_includes k p incs d0 = Ok d2 /\ inv p d2 /\ extends d0 d2 /\
                (forall i, In i incs -> exists hn, in_ref i = Some hn /\ lookup hn d2 <> None) /\
                (forall y, lookup y d2 <> None -> lookup y d0 <> None \/ exists i g, In i incs /\ in_ref i = Some g /\ reaches p g y)).
    { induction incs as [|i incs IHi]; intros Hin d0 Hd0; cbn [go_includes].
      - exists d0. split; [reflexivity|]. split; [exact Hd0|]. split; [apply extends_refl|]. split; [intros i []|auto].
      - pose proof (Hok i (Hin i (or_introl eq_refl))) as Hi. destruct (in_ref i) as [g|] eqn:Ri; [|discriminate].
        destruct (IH d0 g Hd0 Hi) as (d' & Hd'). rewrite Hd'. cbn [bind].
        destruct (resolve_rec_inv p _ _ _ _ Hd0 Hd') as (I1 & X1 & L1).
        destruct (IHi (fun x Hx => Hin x (or_intror Hx)) d' I1) as (d2 & Hg & I2 & X2 & T2 & A2).
        exists d2. split; [exact Hg|]. split; [exact I2|]. split; [eapply extends_trans; eauto|]. split.
        + intros j [<-|Hj]; [|apply T2; exact Hj]. exists g. split; [exact Ri|]. eapply extends_some; eauto.
        + intros y Hy. destruct (A2 y Hy) as [Hy'|(j & g' & Hj & Hrj & Hre)].
          * destruct (resolve_rec_adds p _ _ _ _ Hd' y Hy') as [?|Hre]; [auto|]. right. exists i, g. cbn. auto.
          * right. exists j, g'. cbn. auto. }
    destruct (Hgo (f_includes f) (incl_refl _) d Hinv) as (done1 & Hg & I1 & X1 & T1 & A1).
    change (go_includes k p (f_includes f) d) with (go_includes k p (f_includes f) d). rewrite Hg. cbn [bind].
    destruct (lookup a done1) eqn:La1.
    { exfalso. destruct (A1 a) as [H|(i & g & Hi & Hri & Hre)]; [congruence | congruence |].
      eapply (includes_ok_acyclic p _ a Hok' g); [exists f, i; auto | exact Hre]. }
    destruct (resolve_file_complete p idok Hid done1 a f I1 Pf T1 (Hall a f Pf)) as (f' & ->). cbn [bind]. eauto.
  Qed.
End Driver.

(* completeness, relative to what [idok] promises about identifiers *)
Theorem resolve_complete_with p idok :
  (forall done fn f n2c tds1 s,
    inv p done -> prog_file p fn = Some f ->
    (forall i, In i (f_includes f) -> exists hn, in_ref i = Some hn /\ lookup hn done <> None) ->
    register (file_def_names f) [] = Ok n2c ->
    mapM (resolve_typedef done (with_name2cat f (Some n2c))) (f_typedefs f) = Ok tds1 ->
    idok fn s = true ->
    exists e, resolve_ident (enum_fuel done (cur1 f n2c tds1)) done (cur1 f n2c tds1) s = Ok e) ->
  resolvable_with idok p = true -> exists r, resolve_program p = Ok r.
Proof.
  intros Hid H. unfold resolvable_with in H. unfold resolve_program. destruct p as [|[mainfn mf] p'] eqn:Ep; [eauto|].
  rewrite <- Ep in *. apply andb_true_iff in H. destruct H as (Hinc & Hall). rewrite forallb_forall in Hall.
  assert (Hall' : forall fn f, prog_file p fn = Some f -> file_ok idok p fn f = true).
  { intros fn f Hf. unfold prog_file in Hf. apply lookup_In in Hf. exact (Hall (fn, f) Hf). }
  destruct (resolve_rec_complete p idok Hid Hall' _ [] mainfn (inv_nil p) Hinc) as (d1 & ->). cbn [bind]. eauto.
Qed.

(* the type / service part: a program without identifier values (other than true / false) *)
Theorem resolve_complete_types p : resolvable_types p = true -> exists r, resolve_program p = Ok r.
Proof. apply resolve_complete_with. intros; discriminate. Qed.
