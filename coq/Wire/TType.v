(* Wire/TType.v — the Thrift wire types (TType) with their byte codes, and the IDL
   categories of parser/AST.go (the Category constants) that the generators key their tables on.
   The tables themselves (category -> TProtocol method suffix, fastgo wire type and size)
   are regenerated from /repo into Wire/GenTables.v on every run. *)
From Coq Require Import List ZArith Bool Lia.
From Verif Require Import Base.Bytes.
Import ListNotations.
Open Scope Z_scope.

Inductive ttype := T_BOOL|T_BYTE|T_DOUBLE|T_I16|T_I32|T_I64|T_STRING|T_STRUCT|T_MAP|T_SET|T_LIST.

Definition code (t : ttype) : Z :=
  match t with T_BOOL=>2|T_BYTE=>3|T_DOUBLE=>4|T_I16=>6|T_I32=>8|T_I64=>10|T_STRING=>11
  |T_STRUCT=>12|T_MAP=>13|T_SET=>14|T_LIST=>15 end.
Definition of_code (z : Z) : option ttype :=
  match z with 2=>Some T_BOOL|3=>Some T_BYTE|4=>Some T_DOUBLE|6=>Some T_I16|8=>Some T_I32
  |10=>Some T_I64|11=>Some T_STRING|12=>Some T_STRUCT|13=>Some T_MAP|14=>Some T_SET|15=>Some T_LIST
  |_=>None end.

Lemma of_code_code t : of_code (code t) = Some t. Proof. destruct t; reflexivity. Qed.
Lemma code_range t : 0 < code t < 128. Proof. destruct t; cbn; lia. Qed.
Lemma code_of_code z t : of_code z = Some t -> code t = z.
Proof.
  unfold of_code. intro H.
  repeat (match type of H with
          | match ?x with _ => _ end = _ => destruct x; try discriminate
          end); injection H as <-; reflexivity.
Qed.

Definition ttype_eqb (a b : ttype) : bool := code a =? code b.
Lemma ttype_eqb_spec a b : reflect (a = b) (ttype_eqb a b).
Proof.
  unfold ttype_eqb. destruct (Z.eqb_spec (code a) (code b)) as [E|E]; constructor.
  - destruct a, b; cbn in E; congruence.
  - congruence.
Qed.
Lemma ttype_eqb_refl a : ttype_eqb a a = true.
Proof. unfold ttype_eqb. apply Z.eqb_refl. Qed.
Lemma ttype_eqb_eq a b : ttype_eqb a b = true <-> a = b.
Proof. destruct (ttype_eqb_spec a b); split; congruence. Qed.

Definition all_ttypes : list ttype :=
  [T_BOOL;T_BYTE;T_DOUBLE;T_I16;T_I32;T_I64;T_STRING;T_STRUCT;T_MAP;T_SET;T_LIST].

(* parser.Category constants (parser/AST.go); typedefs are resolved before code generation *)
Inductive category :=
| Cat_Bool | Cat_Byte | Cat_I16 | Cat_I32 | Cat_I64 | Cat_Double | Cat_String | Cat_Binary
| Cat_Map | Cat_List | Cat_Set | Cat_Enum | Cat_Struct | Cat_Union | Cat_Exception.

Definition category_index (c : category) : Z :=
  match c with
  | Cat_Bool => 1 | Cat_Byte => 2 | Cat_I16 => 3 | Cat_I32 => 4 | Cat_I64 => 5 | Cat_Double => 6
  | Cat_String => 7 | Cat_Binary => 8 | Cat_Map => 9 | Cat_List => 10 | Cat_Set => 11
  | Cat_Enum => 12 | Cat_Struct => 13 | Cat_Union => 14 | Cat_Exception => 15
  end.
Definition category_eqb (a b : category) : bool := category_index a =? category_index b.
Lemma category_eqb_eq a b : category_eqb a b = true <-> a = b.
Proof.
  unfold category_eqb. rewrite Z.eqb_eq. split; [|congruence].
  destruct a, b; cbn; congruence.
Qed.
Definition all_categories : list category :=
  [Cat_Bool;Cat_Byte;Cat_I16;Cat_I32;Cat_I64;Cat_Double;Cat_String;Cat_Binary;
   Cat_Map;Cat_List;Cat_Set;Cat_Enum;Cat_Struct;Cat_Union;Cat_Exception].

Fixpoint cat_lookup {A} (c : category) (m : list (category * A)) : option A :=
  match m with [] => None | (c', v) :: r => if category_eqb c c' then Some v else cat_lookup c r end.

From Coq.Strings Require Import String.
Local Open Scope string_scope.
(* the name of the constant in github.com/apache/thrift/lib/go/thrift (type.go), upper case *)
Definition ttype_of_const (s : bytes) : option ttype :=
  if beqb s (B "BOOL") then Some T_BOOL else
  if beqb s (B "BYTE") then Some T_BYTE else
  if beqb s (B "DOUBLE") then Some T_DOUBLE else
  if beqb s (B "I16") then Some T_I16 else
  if beqb s (B "I32") then Some T_I32 else
  if beqb s (B "I64") then Some T_I64 else
  if beqb s (B "STRING") then Some T_STRING else
  if beqb s (B "STRUCT") then Some T_STRUCT else
  if beqb s (B "MAP") then Some T_MAP else
  if beqb s (B "SET") then Some T_SET else
  if beqb s (B "LIST") then Some T_LIST else None.


Definition const_BINARY : bytes := B "BINARY".
Definition const_STRING : bytes := B "STRING".
