"""C01 — every accepted IDL yields Go code that compiles (partial: see DESIGN.md C01)."""
import os
import re
import vlib


class S(vlib.Spec):
    prop = "C01"
    coq_targets = ["Props/C01.vo", "Corr/C01.vo"]
    props_file = "Props/C01.v"
    harness_pkg = "./cmd/c01"
    harness_name = "c01"
    needs_thriftgo = True
    corr_codes = {1, 9}
    code_names = {1: "model and implementation disagree (namespace operations, or name tables vs declared identifiers)", 2: "two ids share a name",
                  3: "generated file is not valid Go", 4: "generated packages do not type-check", 5: "exit 0 without any generated file",
                  6: "a package-level identifier is declared twice in one generated package", 7: "a struct type has two members of one name",
                  8: "a method has two receiver/parameter/result names alike"}
    modelled = ("pkg/namespace/namespace.go (Add, Reserve, Get, ID with the three rename functions the generator uses) -> coq/Gen/Namespace.v; "
                "generator/golang/scope_internal.go (installNames, buildService, buildFunction, buildStructLike, buildEnum, buildTypedef, buildConstant, Scope.identify; "
                "scope.go buildSynthesized; types.go isKeywords; thrift.go SupportIsSet) -> coq/Gen/Scope.v, the sequence of Add/MustReserve operations on the file, "
                "struct, service, function and enum tables; naming styles and LowerFirstRune are Section variables answered by the real code; "
                "template text is NOT modelled: its validity is decided by go/parser and `go build` on the output of the real thriftgo")
    trusted_base = [
        "hand-written model coq/Gen/Namespace.v of pkg/namespace",
        "hand-written model coq/Gen/Scope.v of the name-table construction in generator/golang/scope_internal.go; the naming style (styles.Naming.Identify) and common.LowerFirstRune are not modelled: Section variables whose values the harness obtains from the real functions",
        "harness/godecls (go/parser extraction of declared identifiers, struct members, method parameters), harness/astdump + harness/idlast (resolved AST of the real front end as a Coq term)",
        "the rule that excludes identifiers composed inside templates from the set comparison (Corr/C01.v: not_modelled_global, not_modelled_member; they still take part in the duplicate oracles 6-8)",
        "go/parser and the Go type checker (`go build -gcflags=-e ./...`) as the oracle for 'valid Go' / 'type-checks' against apache/thrift v0.13.0, cloudwego/gopkg v0.2.0 and /repo's runtime packages",
        "harness/cmd/c01, harness/gobuild, harness/idlgen (program generator), harness/coqfmt, lib/vlib.py",
        "partial: the theorems cover collision renaming and the name tables (package-level names that go through the file table, struct members, method parameters); well-typedness of template text, and identifiers that templates compose without a table, are observed on generated programs, not proved",
    ]
    assumptions = ["programs are inside the validity envelope of idlgen (DESIGN.md 2.2); programs thriftgo rejects are counted (rejected_by_impl), not judged"]

    def translators(self, ctx):
        ok, log, binp = vlib.go_build("./cmd/translate-keywords", "translate-keywords")
        if not ok:
            raise RuntimeError("translate-keywords build failed: " + log[-1000:])
        rc, out = vlib.sh([binp, "-repo", vlib.REPO, "-out", os.path.join(vlib.COQ, "Gen", "KeywordTable.v")])
        if rc != 0:
            raise RuntimeError("translate-keywords failed: " + out[-1000:])
        return ["translate-keywords -> coq/Gen/KeywordTable.v: " + out.strip().splitlines()[-1]]

    def producer_args(self, ctx):
        return ["-seed", str(ctx.seed), "-tier", ctx.tier, "-out", ctx.out, "-thriftgo", ctx.thriftgo]

    def classify(self, code, case):
        base = {2: "C01-two-ids-one-name", 3: "C01-unparsable-go", 4: "C01-does-not-type-check", 5: "C01-exit0-without-output"}.get(code, "C01-code-%d" % code)
        if case and case.get("kind") == "scope":
            if code == 7:
                dups = set()
                for t in (case.get("declared") or {}).get("types", []):
                    seen = set()
                    for n in (t.get("fields") or []) + [m["name"] for m in (t.get("methods") or [])]:
                        if n in seen:
                            dups.add(n)
                        seen.add(n)
                if dups and dups <= {"InitDefault"}:
                    return "C01-field-collides-with-unreserved-method:InitDefault"
                return "C01-member-declared-twice:" + ",".join(sorted(dups))
            return {6: "C01-identifier-declared-twice-in-package", 8: "C01-parameter-declared-twice"}.get(code, base)
        if case and case.get("kind") == "build":
            errs = " ".join(case.get("build_errors") or []) + " ".join(case.get("unparsable_files") or [])
            be = case.get("backend", "")
            if "use_type_alias=false" in be and code == 4 and re.search(r"cannot use|mismatched types|has no field or method|invalid operation|cannot convert", errs):
                # typedefs generated as defined types (type T int32 / type T S) without conversions or methods
                return "C01-use_type_alias_false-typedef-as-defined-type"
            if code == 4 and ("cannot refer to unexported field" in errs or "not exported by package" in errs):
                return "C01-leading-underscore-name-unexported"
            # enable_nested_struct makes args.go switch the template to slim
            if code == 4 and ("template=slim" in be or "no_default_serdes" in be or "enable_nested_struct" in be) and "imported and not used" in errs:
                return "C01-slim-template-unused-import"
            if code == 4 and "field and method with the same name InitDefault" in errs and not re.search(r"same name (?!InitDefault)", errs):
                return "C01-field-collides-with-unreserved-method:InitDefault"
            texts = " ".join((case.get("program") or {}).get("files", {}).values())
            if code == 4 and re.search(r"duplicate case 0|ReadField0 already declared|duplicate key 0", errs) and re.search(r"throws\s*\(\s*[^)]*\b0\s*:", texts):
                return "C01-throws-id-0-collides-with-success"
            # refine by the shape of the failure so that a different defect is reported separately
            for key, tag in (("declared and not used", "unused-variable"), ("redeclared", "redeclared"), ("imported and not used", "unused-import"),
                             ("undefined:", "undefined-identifier"), ("newline in string", "newline-in-literal"), ("cannot use", "type-mismatch"),
                             ("mismatched types", "type-mismatch"), ("duplicate case", "duplicate-case")):
                if key in errs:
                    return "%s:%s:%s" % (base, be.split(":")[0], tag)
            return "%s:%s" % (base, be.split(":")[0])
        return base


def run(tier):
    return vlib.standard_run(S(), tier)


def replay(path):
    print(open(path).read()[:6000])
    return 0
