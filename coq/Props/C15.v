(* Props/C15.v — property C15: reflection descriptors describe the IDL exactly.
   Statements only; proofs are in Idl/ReflectFacts.v.

   Model: Idl/Reflect.v
     descriptor_of            thrift_reflection.GetFileDescriptor (after the repair
                              proposed_fixes/C15-namespaces-first-wins and C15-include-prefix-any-extension)
     project_a / project_d    the items the property names, read off the AST (the specification) and
                              off a descriptor: names, field ids, requiredness, type expressions with
                              key / value types, default values, enum numbers, annotations key -> all
                              values, comments, base service, oneway, includes, namespaces; per
                              definition kind, in source order
     enc_fdesc / dec_fdesc    meta.Marshal / meta.Unmarshal as the Thrift binary encoding at the schema
                              T-thrift regenerates from descriptor.thrift (Wire/SchemaDescriptor.v)
     marshal / unmarshal      the same through gzip (a pair of functions with unzip (zip x) = Some x)
     registry_of, get_* , lookup_*, type_target   RegisterAST and the lookups
     go_type_table            registerGoTypes and the by-Go-type maps
   tied to /repo on every run by Corr/C15.v (in process and through compiled generated code).

   Premises are decidable tests:
     file_annos_ok f       the annotations of every node have pairwise distinct keys (what the parser
                           builds: Annotations.Append groups repeated keys)
     distinct_basenames f  no two includes of f have the same base name
     includes_named f      no include has an empty file name or prefix
     includes_plain f      every include was parsed and the file found has the base name the statement wrote
     prog_ok P             every file once, under its own Filename
     fdesc_ok d            the maps of d have pairwise distinct keys (Go maps), type numbers fit 32 bits
     wfb (enc_fdesc d)     strings / lists shorter than 2^31, ids 32 bit: d fits the wire format *)
From Coq Require Import List Bool NArith ZArith.
From Coq.Strings Require Import Byte.
From Verif Require Import Base.Bytes Wire.WVal Wire.Codec Idl.Ast Idl.AstUtil Idl.Resolve Idl.ResolveSpec Idl.Reflect Idl.ReflectFacts
  Idl.ReflectResolveFacts.
Import ListNotations.
Local Open Scope list_scope.

(* ---- the descriptor states exactly what the IDL states ---- *)

Theorem C15_descriptor_faithful : forall f,
  file_annos_ok f = true -> distinct_basenames f = true -> includes_plain f = true ->
  project_d (descriptor_of f) = project_a f.
Proof. exact descriptor_faithful. Qed.
Print Assumptions C15_descriptor_faithful.

(* everything but the includes, for every file (also with two includes of one base name) *)
Theorem C15_descriptor_faithful_definitions : forall f,
  file_annos_ok f = true -> forget_includes (project_d (descriptor_of f)) = forget_includes (project_a f).
Proof. exact descriptor_faithful_definitions. Qed.
Print Assumptions C15_descriptor_faithful_definitions.

(* a difference in anything the property names shows in the descriptor *)
Theorem C15_descriptor_of_injective_on_projection : forall f g,
  file_annos_ok f = true -> distinct_basenames f = true -> includes_plain f = true ->
  file_annos_ok g = true -> distinct_basenames g = true -> includes_plain g = true ->
  descriptor_of f = descriptor_of g -> project_a f = project_a g.
Proof. exact descriptor_of_injective_on_projection. Qed.
Print Assumptions C15_descriptor_of_injective_on_projection.

(* and the descriptor holds nothing else: it is a function of these items *)
Theorem C15_descriptor_from_facts : forall f,
  file_annos_ok f = true -> distinct_basenames f = true -> includes_plain f = true ->
  descriptor_of f = fdesc_of_facts (project_a f).
Proof. exact descriptor_from_facts. Qed.
Print Assumptions C15_descriptor_from_facts.

Theorem C15_descriptor_determined_by_projection : forall f g,
  file_annos_ok f = true -> distinct_basenames f = true -> includes_plain f = true ->
  file_annos_ok g = true -> distinct_basenames g = true -> includes_plain g = true ->
  project_a f = project_a g -> descriptor_of f = descriptor_of g.
Proof. exact descriptor_determined_by_projection. Qed.
Print Assumptions C15_descriptor_determined_by_projection.

(* the namespace map is the one thriftgo itself reads from the header: first line of a language,
   last line of "*" — for every file *)
Theorem C15_namespaces_faithful : forall f, namespaces_map f = namespaces_x f.
Proof. exact namespaces_faithful. Qed.
Print Assumptions C15_namespaces_faithful.

Theorem C15_includes_faithful : forall f,
  distinct_basenames f = true -> includes_plain f = true -> includes_map f = includes_x f.
Proof. exact includes_faithful. Qed.
Print Assumptions C15_includes_faithful.

(* KNOWN FINDING: with two includes of one base name the descriptor does not state the includes *)
Theorem C15_includes_same_basename_refuted :
  exists f, file_annos_ok f = true /\ includes_plain f = true /\ distinct_basenames f = false /\
            x_includes (project_d (descriptor_of f)) <> x_includes (project_a f).
Proof. exact includes_same_basename_refuted. Qed.
Print Assumptions C15_includes_same_basename_refuted.

(* ---- encoding a file descriptor and decoding it again is the identity ---- *)

(* for EVERY descriptor (not only those GetFileDescriptor builds) *)
Theorem C15_wire_roundtrip : forall d, fdesc_ok d = true -> dec_fdesc (enc_fdesc d) = Some d.
Proof. exact fdesc_rt. Qed.
Print Assumptions C15_wire_roundtrip.

Theorem C15_meta_roundtrip : forall d rest,
  fdesc_ok d = true -> wfb (enc_fdesc d) = true -> meta_unmarshal (meta_marshal d ++ rest) = Some d.
Proof. exact meta_roundtrip. Qed.
Print Assumptions C15_meta_roundtrip.

Theorem C15_marshal_roundtrip : forall (zip : bytes -> bytes) (unzip : bytes -> option bytes),
  (forall x, unzip (zip x) = Some x) ->
  forall d, fdesc_ok d = true -> wfb (enc_fdesc d) = true -> unmarshal unzip (marshal zip d) = Some d.
Proof. exact marshal_roundtrip. Qed.
Print Assumptions C15_marshal_roundtrip.

(* Go maps have no order.  fdesc_equiv: equal up to the order in which the entries of the maps
   (annotations, includes, namespaces, Extra, value_map) are listed, at every level — an equivalence
   relation, and equivalent descriptors are in the domain of the round trip together *)
Theorem C15_fdesc_equiv_equivalence :
  (forall d, fdesc_equiv d d) /\ (forall a b, fdesc_equiv a b -> fdesc_equiv b a) /\
  (forall a b c, fdesc_equiv a b -> fdesc_equiv b c -> fdesc_equiv a c).
Proof. exact (conj fdesc_equiv_refl (conj fdesc_equiv_sym fdesc_equiv_trans)). Qed.
Print Assumptions C15_fdesc_equiv_equivalence.

Theorem C15_fdesc_ok_equiv : forall a b, fdesc_equiv a b -> fdesc_ok a = true -> fdesc_ok b = true.
Proof. exact fdesc_ok_equiv. Qed.
Print Assumptions C15_fdesc_ok_equiv.

(* decoding the encoding of ANY entry-order permutation d' of the maps of a descriptor d (whatever
   order the writer picks: the real one sorts by encoded key) yields a descriptor equivalent to d *)
Theorem C15_wire_roundtrip_any_order : forall d d',
  fdesc_ok d = true -> fdesc_equiv d d' ->
  exists d'', dec_fdesc (enc_fdesc d') = Some d'' /\ fdesc_equiv d'' d.
Proof. exact wire_roundtrip_any_order. Qed.
Print Assumptions C15_wire_roundtrip_any_order.

(* equivalent descriptors fit the wire widths together, so the premises speak about d only *)
Theorem C15_fdesc_wf_equiv : forall a b, fdesc_equiv a b -> wf (enc_fdesc a) -> wf (enc_fdesc b).
Proof. exact fdesc_wf_equiv. Qed.
Print Assumptions C15_fdesc_wf_equiv.

Theorem C15_meta_roundtrip_any_order : forall d d' rest,
  fdesc_ok d = true -> wfb (enc_fdesc d) = true -> fdesc_equiv d d' ->
  exists d'', meta_unmarshal (meta_marshal d' ++ rest) = Some d'' /\ fdesc_equiv d'' d.
Proof. exact meta_roundtrip_any_order. Qed.
Print Assumptions C15_meta_roundtrip_any_order.

Theorem C15_marshal_roundtrip_any_order : forall (zip : bytes -> bytes) (unzip : bytes -> option bytes),
  (forall x, unzip (zip x) = Some x) ->
  forall d d', fdesc_ok d = true -> wfb (enc_fdesc d) = true -> fdesc_equiv d d' ->
  exists d'', unmarshal unzip (marshal zip d') = Some d'' /\ fdesc_equiv d'' d.
Proof. exact marshal_roundtrip_every_order. Qed.
Print Assumptions C15_marshal_roundtrip_any_order.

(* every descriptor GetFileDescriptor builds is in the domain of the round trip *)
Theorem C15_descriptor_of_ok : forall f, fdesc_ok (descriptor_of f) = true.
Proof. exact descriptor_of_ok. Qed.
Print Assumptions C15_descriptor_of_ok.

(* ---- lookups by name and id find the right entry, also across included files ---- *)

Theorem C15_lookup_by_name_local : forall P f n,
  n <> [] -> no_byte dot n = true ->
  get_struct (registry_of P) (descriptor_of f) n = omap (struct_desc (f_filename f)) (find_struct f n) /\
  get_union (registry_of P) (descriptor_of f) n = omap (struct_desc (f_filename f)) (find_union f n) /\
  get_exception (registry_of P) (descriptor_of f) n = omap (struct_desc (f_filename f)) (find_exception f n) /\
  get_enum (registry_of P) (descriptor_of f) n = omap (enum_desc (f_filename f)) (find_enum f n) /\
  get_typedef (registry_of P) (descriptor_of f) n = omap (typedef_desc (f_filename f)) (find_typedef f n) /\
  get_const (registry_of P) (descriptor_of f) n = omap (const_desc (f_filename f)) (find_constant f n) /\
  get_service (registry_of P) (descriptor_of f) n = omap (service_desc (f_filename f)) (find_service f n).
Proof. exact lookup_by_name_local. Qed.
Print Assumptions C15_lookup_by_name_local.

(* a name written through the prefix of an include finds the definition of the included file *)
Theorem C15_lookup_by_name_and_id_right : forall P f i gname g n,
  prog_ok P = true -> distinct_basenames f = true ->
  In i (f_includes f) -> in_ref i = Some gname -> gname <> [] -> include_alias gname <> [] ->
  prog_file P gname = Some g -> n <> [] -> no_byte dot n = true ->
  let q := include_alias gname ++ dot :: n in
  get_struct (registry_of P) (descriptor_of f) q = omap (struct_desc (f_filename g)) (find_struct g n) /\
  get_union (registry_of P) (descriptor_of f) q = omap (struct_desc (f_filename g)) (find_union g n) /\
  get_exception (registry_of P) (descriptor_of f) q = omap (struct_desc (f_filename g)) (find_exception g n) /\
  get_enum (registry_of P) (descriptor_of f) q = omap (enum_desc (f_filename g)) (find_enum g n) /\
  get_typedef (registry_of P) (descriptor_of f) q = omap (typedef_desc (f_filename g)) (find_typedef g n) /\
  get_const (registry_of P) (descriptor_of f) q = omap (const_desc (f_filename g)) (find_constant g n) /\
  get_service (registry_of P) (descriptor_of f) q = omap (service_desc (f_filename g)) (find_service g n).
Proof. exact lookup_by_name_through_include. Qed.
Print Assumptions C15_lookup_by_name_and_id_right.

(* KNOWN FINDING: without distinct_basenames the lookup through the prefix can miss the definition *)
Theorem C15_lookup_same_basename_refuted :
  exists P f g n, prog_ok P = true /\ prog_file P (f_filename f) = Some f /\
    (exists i, In i (f_includes f) /\ in_ref i = Some (f_filename g)) /\
    prog_file P (f_filename g) = Some g /\ find_struct g n <> None /\
    get_struct (registry_of P) (descriptor_of f) (include_alias (f_filename g) ++ dot :: n)%list = None.
Proof. exact lookup_same_basename_refuted. Qed.
Print Assumptions C15_lookup_same_basename_refuted.

(* a type expression resolves through the file it was written in *)
Theorem C15_type_target_right : forall A (get : registry -> fdesc -> bytes -> option A) P f t,
  prog_ok P = true -> prog_file P (f_filename f) = Some f ->
  is_container (ty_name t) || is_basic (ty_name t) = false -> f_filename f <> [] ->
  type_target get (registry_of P) (type_desc (f_filename f) t) = get (registry_of P) (descriptor_of f) (ty_name t).
Proof. exact @type_target_right. Qed.
Print Assumptions C15_type_target_right.

Theorem C15_field_by_id_right : forall p s x,
  NoDup (map fd_id (sl_fields s)) -> In x (sl_fields s) ->
  get_field_by_id (struct_desc p s) (fd_id x) = Some (field_desc p x).
Proof. exact field_by_id_right. Qed.
Print Assumptions C15_field_by_id_right.

Theorem C15_field_by_name_right : forall p s x,
  NoDup (map fd_name (sl_fields s)) -> In x (sl_fields s) ->
  get_field_by_name (struct_desc p s) (fd_name x) = Some (field_desc p x).
Proof. exact field_by_name_right. Qed.
Print Assumptions C15_field_by_name_right.

Theorem C15_method_by_name_right : forall p s fn,
  NoDup (map fn_name (sv_functions s)) -> In fn (sv_functions s) ->
  get_method_by_name (service_desc p s) (fn_name fn) = Some (method_desc p fn).
Proof. exact method_by_name_right. Qed.
Print Assumptions C15_method_by_name_right.

(* Lookup*(name, path) with a path is the lookup of that file; without a path (the Go code ranges
   over a map) it is right when exactly one registered file answers, in whatever order *)
Theorem C15_lookup_with_path : forall A (get : registry -> fdesc -> bytes -> option A) P path f name,
  prog_ok P = true -> path <> [] -> prog_file P path = Some f ->
  lookup_in get (registry_of P) name path = get (registry_of P) (descriptor_of f) name.
Proof. exact @lookup_with_path. Qed.
Print Assumptions C15_lookup_with_path.

Theorem C15_lookup_without_path : forall A (get : registry -> fdesc -> bytes -> option A) reg name d0 x,
  In d0 reg -> get reg d0 name = Some x ->
  (forall d, In d reg -> get reg d name <> None -> d = d0) ->
  lookup_in get reg name [] = Some x.
Proof. exact @lookup_without_path. Qed.
Print Assumptions C15_lookup_without_path.

(* against property C05's model of semantic.ResolveSymbols: resolution keeps the definitions of every
   file, and a type expression the resolver bound through an include (ty_ref = include index idx and
   name m) is found by every descriptor lookup as the definition m of the file include idx refers
   to, which has such a definition of a type kind *)
Theorem C15_resolve_keeps_defs : forall p r,
  resolve_program p = Ok r ->
  forall gn g, prog_file p gn = Some g -> exists g', prog_file r gn = Some g' /\ file_defs g' = file_defs g.
Proof. exact resolve_keeps_defs. Qed.
Print Assumptions C15_resolve_keeps_defs.

Theorem C15_qualified_type_lookup_right : forall p r fn f' t m idx,
  parsed_program p = true -> resolve_program p = Ok r -> prog_ok r = true ->
  prog_file r fn = Some f' -> f_name2cat f' <> None ->
  distinct_basenames f' = true -> includes_plain f' = true -> includes_named f' = true ->
  In t (file_occs f') -> ty_ref t = Some (Ref m idx) -> m <> [] ->
  exists i gn g' k,
    nth_include f' idx = Some i /\ in_ref i = Some gn /\ prog_file r gn = Some g' /\
    lookup m (file_defs g') = Some k /\ is_type_kind k = true /\
    get_struct (registry_of r) (descriptor_of f') (ty_name t) = omap (struct_desc (f_filename g')) (find_struct g' m) /\
    get_union (registry_of r) (descriptor_of f') (ty_name t) = omap (struct_desc (f_filename g')) (find_union g' m) /\
    get_exception (registry_of r) (descriptor_of f') (ty_name t) = omap (struct_desc (f_filename g')) (find_exception g' m) /\
    get_enum (registry_of r) (descriptor_of f') (ty_name t) = omap (enum_desc (f_filename g')) (find_enum g' m) /\
    get_typedef (registry_of r) (descriptor_of f') (ty_name t) = omap (typedef_desc (f_filename g')) (find_typedef g' m).
Proof. exact qualified_type_lookup_right. Qed.
Print Assumptions C15_qualified_type_lookup_right.

(* the same for the base service of a service: what the resolver bound (sv_ref) is what
   GetServiceDescriptor of the written base name and GetParent return *)
Theorem C15_base_service_lookup_right : forall p r fn f' sv' m idx,
  parsed_program p = true -> resolve_program p = Ok r -> prog_ok r = true ->
  prog_file r fn = Some f' -> f_name2cat f' <> None ->
  distinct_basenames f' = true -> includes_plain f' = true -> includes_named f' = true ->
  In sv' (f_services f') -> sv_ref sv' = Some (Ref m idx) -> m <> [] ->
  exists i gn g',
    nth_include f' idx = Some i /\ in_ref i = Some gn /\ prog_file r gn = Some g' /\
    lookup m (file_defs g') = Some DkService /\
    get_service (registry_of r) (descriptor_of f') (sv_extends sv') = omap (service_desc (f_filename g')) (find_service g' m) /\
    get_parent (registry_of r) (service_desc fn sv') = omap (service_desc (f_filename g')) (find_service g' m).
Proof. exact base_service_lookup_right. Qed.
Print Assumptions C15_base_service_lookup_right.

(* GetAllMethods: the methods of the service followed by those of its base service, and so on, for an
   extends chain of any length (links inside a file or through an include prefix) *)
Theorem C15_all_methods_chain : forall P, prog_ok P = true -> forall f s l, base_chain P f s l ->
  forall fuel, (List.length l <= S fuel)%nat ->
  all_methods fuel (registry_of P) (service_desc (f_filename f) s) = chain_methods l.
Proof. exact all_methods_chain. Qed.
Print Assumptions C15_all_methods_chain.

Theorem C15_get_all_methods_chain : forall P f s l,
  prog_ok P = true -> base_chain P f s l -> (List.length l <= S (chain_fuel (registry_of P)))%nat ->
  get_all_methods (registry_of P) (service_desc (f_filename f) s) = chain_methods l.
Proof. exact get_all_methods_chain. Qed.
Print Assumptions C15_get_all_methods_chain.

(* an extends chain without repetition (the checker rejects cyclic chains) always fits the fuel of
   the model: no premise about it *)
Theorem C15_get_all_methods_acyclic : forall P f s l,
  prog_ok P = true -> base_chain P f s l -> NoDup (tl l) ->
  get_all_methods (registry_of P) (service_desc (f_filename f) s) = chain_methods l.
Proof. exact get_all_methods_acyclic. Qed.
Print Assumptions C15_get_all_methods_acyclic.

Theorem C15_method_from_all_chain : forall P f s l n,
  prog_ok P = true -> base_chain P f s l -> (List.length l <= S (chain_fuel (registry_of P)))%nat ->
  get_method_from_all (registry_of P) (service_desc (f_filename f) s) n = first_named md_name (chain_methods l) n.
Proof. exact method_from_all_chain. Qed.
Print Assumptions C15_method_from_all_chain.

(* ---- each Go type maps to its own descriptor and back ---- *)

Theorem C15_go_type_bijection : forall G (geqb : G -> G -> bool),
  (forall a b, geqb a b = true <-> a = b) ->
  forall d gs t',
  go_type_table geqb gtable_empty d gs = Some t' ->
  (forall kd g k, desc_of_go_type geqb t' kd g = Some k -> go_type_of t' k = Some g /\ kind_of k = kd) /\
  (forall k g, In (k, g) (combine (all_keys d) gs) ->
     go_type_of t' k = Some g /\
     ((forall k', In (k', g) (combine (all_keys d) gs) -> kind_of k' = kind_of k -> k' = k) ->
      desc_of_go_type geqb t' (kind_of k) g = Some k)).
Proof. exact @go_type_bijection. Qed.
Print Assumptions C15_go_type_bijection.

(* the same when the table already holds other files *)
Theorem C15_go_type_table_spec : forall G (geqb : G -> G -> bool),
  (forall a b, geqb a b = true <-> a = b) ->
  forall t d gs t',
  table_inv geqb t -> (forall k, In k (all_keys d) -> go_type_of t k = None) ->
  go_type_table geqb t d gs = Some t' ->
  table_inv geqb t' /\
  (forall k g, In (k, g) (combine (all_keys d) gs) ->
     go_type_of t' k = Some g /\
     ((forall k', In (k', g) (combine (all_keys d) gs) -> kind_of k' = kind_of k -> k' = k) ->
      desc_of_go_type geqb t' (kind_of k) g = Some k)).
Proof. exact @go_type_table_spec. Qed.
Print Assumptions C15_go_type_table_spec.

(* ---- the premises are satisfiable ---- *)
Example C15_hypotheses_satisfiable :
  file_annos_ok ex_api = true /\ distinct_basenames ex_api = true /\ includes_plain ex_api = true /\
  prog_ok ex_program = true /\ wfb (enc_fdesc (descriptor_of ex_api)) = true /\ fdesc_ok (descriptor_of ex_api) = true.
Proof. exact ex_hypotheses. Qed.
