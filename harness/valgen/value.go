// Package valgen: typed values for schemagen programs, mirroring Wire/Value.v.
//
//	v := valgen.Gen(r, prog, s, valgen.DefaultParams())   seeded value of struct-like s
//	v.Coq()                                                term of type Wire.Value.value
//	v.JSON() / valgen.ParseJSON                            the driver's value form (see gendrv/driver)
//	valgen.FromDump(prog, ty, dump)                        driver reflection dump -> Value, guided by the schema
//	valgen.ToWire(prog, s, v)                              harness-side encoder -> *W (generic wire value)
//	w.Enc()                                                binary protocol bytes
//	valgen.Perturb...                                      unknown-field insertion, retagging, deletion, truncation
//
// The encoder here is NOT a trusted reference: whatever bytes the harness feeds to the generated
// Read are interpreted by the Coq model (dec + from_wire).
package valgen

import (
	"encoding/hex"
	"encoding/json"
	"fmt"
	"strings"

	"verif/harness/coqfmt"
)

// Value kinds: bool int dbl str bin list map struct nil some
type Value struct {
	K string
	B bool
	I int64
	D uint64
	S []byte
	L []*Value
	M [][2]*Value
	F []FieldVal
	P *Value
}

type FieldVal struct {
	ID int
	V  *Value
}

func Nil() *Value             { return &Value{K: "nil"} }
func Bool(b bool) *Value      { return &Value{K: "bool", B: b} }
func Int(i int64) *Value      { return &Value{K: "int", I: i} }
func Dbl(d uint64) *Value     { return &Value{K: "dbl", D: d} }
func Str(s []byte) *Value     { return &Value{K: "str", S: s} }
func Bin(s []byte) *Value     { return &Value{K: "bin", S: s} }
func List(l []*Value) *Value  { return &Value{K: "list", L: l} }
func Map(m [][2]*Value) *Value { return &Value{K: "map", M: m} }
func Some(v *Value) *Value    { return &Value{K: "some", P: v} }
func Struct(f []FieldVal) *Value { return &Value{K: "struct", F: f} }

// Bad is a value no schema accepts (used when an observed dump does not have the expected Go shape).
func Bad() *Value { return Some(Some(Nil())) }

func (v *Value) Field(id int) *Value {
	for _, f := range v.F {
		if f.ID == id {
			return f.V
		}
	}
	return nil
}

// Coq prints the value as a Wire.Value.value term.
func (v *Value) Coq() string {
	switch v.K {
	case "nil":
		return "VNil"
	case "bool":
		return "(VBool " + coqfmt.Bool(v.B) + ")"
	case "int":
		return "(VInt " + coqfmt.ZF(v.I) + ")"
	case "dbl":
		return "(VDbl " + coqfmt.ZFU(v.D) + ")"
	case "str":
		return "(VStr " + coqfmt.BytesF(string(v.S)) + ")"
	case "bin":
		return "(VBin " + coqfmt.BytesF(string(v.S)) + ")"
	case "some":
		return "(VSome " + v.P.Coq() + ")"
	case "list":
		p := make([]string, len(v.L))
		for i, x := range v.L {
			p[i] = x.Coq()
		}
		return "(VList " + coqfmt.List(p) + ")"
	case "map":
		p := make([]string, len(v.M))
		for i, kv := range v.M {
			p[i] = "(" + kv[0].Coq() + ", " + kv[1].Coq() + ")"
		}
		return "(VMap " + coqfmt.List(p) + ")"
	case "struct":
		p := make([]string, len(v.F))
		for i, f := range v.F {
			p[i] = "(" + coqfmt.ZF(int64(f.ID)) + ", " + f.V.Coq() + ")"
		}
		return "(VStruct " + coqfmt.List(p) + ")"
	}
	return "VNil"
}

// ---- JSON value form shared with the driver -------------------------------------------------
//
//	null                         nil pointer / slice / map
//	true / false                 bool
//	123  (json number)           any integer kind
//	{"d":"7ff8000000000000"}     float64 bit pattern
//	{"x":"6869"}                 Go string (hex)
//	{"b":"6869"}                 non-nil []byte (hex)
//	[v, ...]                     non-nil slice
//	{"m":[[k,v], ...]}           non-nil map
//	{"s":[[id,v], ...]}          non-nil pointer to struct (or struct value), fields by thrift id
//	{"p":v}                      non-nil pointer to a base value

func (v *Value) JSON() string {
	var b strings.Builder
	v.json(&b)
	return b.String()
}

func (v *Value) json(b *strings.Builder) {
	switch v.K {
	case "nil":
		b.WriteString("null")
	case "bool":
		if v.B {
			b.WriteString("true")
		} else {
			b.WriteString("false")
		}
	case "int":
		fmt.Fprintf(b, "%d", v.I)
	case "dbl":
		fmt.Fprintf(b, `{"d":"%016x"}`, v.D)
	case "str":
		fmt.Fprintf(b, `{"x":"%s"}`, hex.EncodeToString(v.S))
	case "bin":
		fmt.Fprintf(b, `{"b":"%s"}`, hex.EncodeToString(v.S))
	case "some":
		b.WriteString(`{"p":`)
		v.P.json(b)
		b.WriteString("}")
	case "list":
		b.WriteString("[")
		for i, x := range v.L {
			if i > 0 {
				b.WriteString(",")
			}
			x.json(b)
		}
		b.WriteString("]")
	case "map":
		b.WriteString(`{"m":[`)
		for i, kv := range v.M {
			if i > 0 {
				b.WriteString(",")
			}
			b.WriteString("[")
			kv[0].json(b)
			b.WriteString(",")
			kv[1].json(b)
			b.WriteString("]")
		}
		b.WriteString("]}")
	case "struct":
		b.WriteString(`{"s":[`)
		for i, f := range v.F {
			if i > 0 {
				b.WriteString(",")
			}
			fmt.Fprintf(b, "[%d,", f.ID)
			f.V.json(b)
			b.WriteString("]")
		}
		b.WriteString("]}")
	}
}

func (v *Value) MarshalJSON() ([]byte, error) { return []byte(v.JSON()), nil }

func (v *Value) UnmarshalJSON(data []byte) error {
	x, err := ParseJSON(string(data))
	if err != nil {
		return err
	}
	*v = *x
	return nil
}

// ParseJSON reads the JSON value form without a schema (strings stay "str"/"bin" as tagged).
func ParseJSON(s string) (*Value, error) {
	dec := json.NewDecoder(strings.NewReader(s))
	dec.UseNumber()
	var raw interface{}
	if err := dec.Decode(&raw); err != nil {
		return nil, err
	}
	return fromRaw(raw)
}

func fromRaw(raw interface{}) (*Value, error) {
	switch x := raw.(type) {
	case nil:
		return Nil(), nil
	case bool:
		return Bool(x), nil
	case json.Number:
		i, err := x.Int64()
		if err != nil {
			return nil, err
		}
		return Int(i), nil
	case []interface{}:
		l := make([]*Value, len(x))
		for i, e := range x {
			v, err := fromRaw(e)
			if err != nil {
				return nil, err
			}
			l[i] = v
		}
		return List(l), nil
	case map[string]interface{}:
		if d, ok := x["d"]; ok {
			var u uint64
			if _, err := fmt.Sscanf(d.(string), "%x", &u); err != nil {
				return nil, err
			}
			return Dbl(u), nil
		}
		if d, ok := x["x"]; ok {
			bs, err := hex.DecodeString(d.(string))
			return Str(bs), err
		}
		if d, ok := x["b"]; ok {
			bs, err := hex.DecodeString(d.(string))
			return Bin(bs), err
		}
		if d, ok := x["p"]; ok {
			v, err := fromRaw(d)
			if err != nil {
				return nil, err
			}
			return Some(v), nil
		}
		if d, ok := x["m"]; ok {
			arr := d.([]interface{})
			m := make([][2]*Value, len(arr))
			for i, e := range arr {
				kv := e.([]interface{})
				k, err := fromRaw(kv[0])
				if err != nil {
					return nil, err
				}
				v, err := fromRaw(kv[1])
				if err != nil {
					return nil, err
				}
				m[i] = [2]*Value{k, v}
			}
			return Map(m), nil
		}
		if d, ok := x["s"]; ok {
			arr := d.([]interface{})
			fs := make([]FieldVal, len(arr))
			for i, e := range arr {
				kv := e.([]interface{})
				id, err := kv[0].(json.Number).Int64()
				if err != nil {
					return nil, err
				}
				v, err := fromRaw(kv[1])
				if err != nil {
					return nil, err
				}
				fs[i] = FieldVal{ID: int(id), V: v}
			}
			return Struct(fs), nil
		}
	}
	return nil, fmt.Errorf("valgen: unexpected JSON %v", raw)
}
