(* Mask/Path.v — model of the thrift-path tokenizer of fieldmask/path.go
   (pathIterator.Next / lit / str, newPathToken), after the repairs C14-2, C14-4, C14-8:
   integer literals beyond int, ill-formed quoted strings and a stray backslash are
   error tokens, and every token consumes at least one byte.
   No proofs in this file. *)
From Coq Require Import List Bool ZArith NArith.
From Coq.Strings Require Import Byte.
From Verif Require Import Base.Bytes.
Import ListNotations.

(* pathToken, without positions.  EOF is the end of the list.
   TErr  = pathTypeERR.
   TOut  = the input left the fragment of strconv.Unquote that is modelled
           (escapes other than backslash, quote, n, t, r, xHH; bytes >= 0x80): never produced on the
           inputs the correspondence check compares; it behaves like TErr. *)
Inductive token :=
| TLitStr (s : bytes)
| TLitInt (n : Z)
| TStr (s : bytes)
| TRoot | TField | TIndexL | TIndexR | TMapL | TMapR | TElem | TAny
| TErr | TOut.

(* pathSepElem, Any, Root, Field, IndexLeft, IndexRight, MapLeft, MapRight, Quote, Slash *)
Definition is_sep (b : byte) : bool :=
  match b with
  | x2c | x2a | x24 | x2e | x5b | x5d | x7b | x7d | x22 | x5c => true
  | _ => false
  end.

Definition digit_val (b : byte) : option Z :=
  match b with
  | x30 => Some 0%Z | x31 => Some 1%Z | x32 => Some 2%Z | x33 => Some 3%Z | x34 => Some 4%Z
  | x35 => Some 5%Z | x36 => Some 6%Z | x37 => Some 7%Z | x38 => Some 8%Z | x39 => Some 9%Z
  | _ => None
  end.

Definition is_digit (b : byte) : bool := match digit_val b with Some _ => true | None => false end.

(* lit(): the longest prefix without separator *)
Fixpoint span_lit (s : bytes) : bytes * bytes :=
  match s with
  | [] => ([], [])
  | b :: r => if is_sep b then ([], s) else let (v, rest) := span_lit r in (b :: v, rest)
  end.

Definition dec_value (v : bytes) : Z :=
  fold_left (fun acc b => match digit_val b with Some d => acc * 10 + d | None => acc end)%Z v 0%Z.

Definition max_int : Z := 9223372036854775807%Z.     (* int is 64 bit on the checked platform *)
Definition max_int32 : Z := 2147483647%Z.

Definition lit_token (v : bytes) : token :=
  match v with
  | [] => TErr                                  (* not reached: span_lit is called on a non-separator *)
  | _ => if forallb is_digit v
         then (if (dec_value v <=? max_int)%Z then TLitInt (dec_value v) else TErr)
         else TLitStr v
  end.

(* str(): scan from after the opening quote; a backslash skips the next byte *)
Fixpoint str_scan (s : bytes) : bytes * bool * bytes :=
  match s with
  | [] => ([], false, [])
  | x5c :: r =>
      match r with
      | [] => ([x5c], false, [])
      | c :: r' => let '(v, cl, rest) := str_scan r' in (x5c :: c :: v, cl, rest)
      end
  | x22 :: r => ([], true, r)
  | b :: r => let '(v, cl, rest) := str_scan r in (b :: v, cl, rest)
  end.

Inductive uq := UOk (v : bytes) | UBad | UOut.

Definition uq_cons (b : byte) (r : uq) : uq :=
  match r with UOk v => UOk (b :: v) | UBad => UBad | UOut => UOut end.

Definition hex_digit (b : byte) : option N :=
  match b with
  | x30 => Some 0 | x31 => Some 1 | x32 => Some 2 | x33 => Some 3 | x34 => Some 4
  | x35 => Some 5 | x36 => Some 6 | x37 => Some 7 | x38 => Some 8 | x39 => Some 9
  | x61 | x41 => Some 10 | x62 | x42 => Some 11 | x63 | x43 => Some 12
  | x64 | x44 => Some 13 | x65 | x45 => Some 14 | x66 | x46 => Some 15
  | _ => None
  end%N.

(* strconv.Unquote on the text between the quotes (fragment) *)
Fixpoint unq (s : bytes) : uq :=
  match s with
  | [] => UOk []
  | x5c :: r =>
      match r with
      | [] => UBad
      | x5c :: r' => uq_cons x5c (unq r')
      | x22 :: r' => uq_cons x22 (unq r')
      | x6e :: r' => uq_cons x0a (unq r')
      | x74 :: r' => uq_cons x09 (unq r')
      | x72 :: r' => uq_cons x0d (unq r')
      | x78 :: r' =>
          match r' with
          | h1 :: h2 :: r'' =>
              match hex_digit h1, hex_digit h2 with
              | Some a, Some b =>
                  match Byte.of_N (a * 16 + b) with
                  | Some c => uq_cons c (unq r'')
                  | None => UBad
                  end
              | _, _ => UBad
              end
          | _ => UBad
          end
      | _ => UOut
      end
  | x0a :: _ => UBad
  | b :: r => if (Byte.to_N b <? 128)%N then uq_cons b (unq r) else UOut
  end.

Fixpoint tok_go (fuel : nat) (s : bytes) : list token :=
  match fuel with
  | O => [TOut]
  | S f =>
    match s with
    | [] => []
    | b :: r =>
      match b with
      | x24 => TRoot :: tok_go f r
      | x2e => TField :: tok_go f r
      | x5b => TIndexL :: tok_go f r
      | x5d => TIndexR :: tok_go f r
      | x7b => TMapL :: tok_go f r
      | x7d => TMapR :: tok_go f r
      | x2c => TElem :: tok_go f r
      | x2a => TAny :: tok_go f r
      | x22 =>
          let '(inner, closed, rest) := str_scan r in
          if closed
          then (match unq inner with UOk v => TStr v | UBad => TErr | UOut => TOut end) :: tok_go f rest
          else [TErr]
      | x5c => TErr :: tok_go f r
      | _ => let (v, rest) := span_lit s in lit_token v :: tok_go f rest
      end
    end
  end.

Definition tokenize (s : bytes) : list token := tok_go (S (List.length s)) s.

Definition has_out (ts : list token) : bool :=
  existsb (fun t => match t with TOut => true | _ => false end) ts.
