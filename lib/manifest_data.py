BASELINE_OFF = "cd /repo && for m in . tests/fieldmask tests/unknown_fields; do (cd $m && GOFLAGS=-mod=mod GOPROXY=off GOSUMDB=off go test -json -vet=off -count=1 -timeout 25m ./...); done"
HOOK_COMMITS = []
NOTES = ("Every check rebuilds its Coq cone (make) and its Go harness against /repo's working tree, runs the real code on generated "
         "inputs, and evaluates model + property oracles inside coqc. Properties not yet claimed are listed under not_applicable with "
         "reason 'not built yet' only while the framework is growing; see DESIGN.md section 8 (status).")

CHECKS = [
 dict(id="C12",
      technique="Coq proof over all Feed histories (induction, invariant) + in-Coq correspondence with the real FileManager",
      text=("Theorems (coq/Props/C12.v, 12 statements, all closed under the global context) hold for every history of Feed calls: output names are "
            "pairwise distinct, accepted files are never overwritten or merged, identical resubmissions are dropped with their unnamed patches, "
            "conflicting ones are kept under a name no file has, patches of one point are concatenated in submission order, target-less patches "
            "are errors, scanner-found markers are always replacer keys and key-free text is unchanged. The model is tied to /repo on every run "
            "by executing the real FileManager on all histories up to length 3 (4 in thorough) over a 13-item alphabet plus random longer ones "
            "and comparing name and content of every output file with the model inside Coq."),
      note=("Trusted: Coq kernel + VM; hand-written model Gen/FileManager.v; the harness printing Go values as Coq terms; Go regexp and "
            "strings.Replacer semantics as modelled (replacer key order is irrelevant only for prefix-free keys, which generated inputs respect). "
            "No axioms (Print Assumptions: closed)."))
]

_NOT_BUILT = "not built yet in this round (framework growing); planned per DESIGN.md section 3"
NOT_APPLICABLE = [dict(property_id="C%02d" % i, reason=_NOT_BUILT) for i in range(1, 21) if "C%02d" % i not in [c["id"] for c in CHECKS]]
