(* Props/C01.v — property C01 "Every accepted IDL yields Go code that compiles" (partial).
   Proved here: (1) the collision-renaming logic every generated identifier table goes through
   (pkg/namespace) never gives one name to two ids, never takes a reserved name away, for
   every sequence of operations and every rename function; (2) for the sequence of table
   operations that the Go backend performs for a resolved file (model Gen/Scope.v of
   generator/golang/scope_internal.go), for every file, feature set and naming style: equal
   names in one table mean equal ids, struct-like type names are pairwise distinct, names with
   distinct ids are distinct (package level, struct members, method parameters), no parameter
   is a Go keyword, a reserve failure is the error result and the only one.
   Not proved (observed by compiling the generated code in the correspondence harness): that
   template text is well-typed Go, and identifiers templates compose without a name table. *)
From Coq Require Import List Arith Bool.
From Verif Require Import Base.Bytes Gen.Namespace Gen.NamespaceFacts.
Import ListNotations.

Theorem C01_ns_injective :
  forall rename ops s vs i j n,
  run_ops rename ns0 ops = (s, vs) ->
  lookup i (id2name s) = Some n -> lookup j (id2name s) = Some n -> i = j.
Proof. exact ns_injective. Qed.
Print Assumptions C01_ns_injective.

Theorem C01_ns_owner_stable :
  forall rename ops s s' vs, run_ops rename s ops = (s', vs) -> owners_kept s s'.
Proof. exact ns_owner_stable. Qed.
Print Assumptions C01_ns_owner_stable.

Theorem C01_reserve_spec :
  forall s name id,
  (lookup name (name2id s) = None -> exists s', reserve s name id = (s', true) /\ get s' id = name /\ get_id s' name = id) /\
  (lookup name (name2id s) <> None -> reserve s name id = (s, false)).
Proof. exact reserve_spec. Qed.
Print Assumptions C01_reserve_spec.

Theorem C01_add_spec :
  forall rename s name id s' r,
  add rename s name id = Some (s', r) ->
  get s' id = r /\ get_id s' r = id /\
  ((lookup name (name2id s) = None \/ lookup name (name2id s) = Some id) -> r = name).
Proof. exact add_spec. Qed.
Print Assumptions C01_add_spec.

(* non-vacuity: a collision is renamed, a reservation blocks, ids stay apart *)
From Coq Require Import String.
Open Scope string_scope.
Example C01_example :
  snd (run_ops underscore_suffix ns0
        [OReserve (B "New") (B "r"); OAdd (B "New") (B "a"); OAdd (B "New") (B "b"); OGet (B "a"); OID (B "New__")])
  = [VBool true; VName (B "New_"); VName (B "New__"); VName (B "New_"); VName (B "b")].
Proof. vm_compute. reflexivity. Qed.

(* ---------------------------------------------------------------------------------------------
   The name tables of the Go backend (generator/golang/scope_internal.go), model Gen/Scope.v.
   [scope_run identify lower_first ft f] performs, for a resolved file f, the Add / MustReserve
   operations of installNames / buildService / buildFunction / buildStructLike / buildEnum /
   buildTypedef / buildConstant on the file-level table, the per-struct, per-service,
   per-function and per-enum tables, and returns every operation with the name that came back
   ([SOk es], oldest first) or [SErr EReserve] when a MustReserve found its name occupied.
   The naming style ([identify]) and LowerFirstRune ([lower_first]) are arbitrary functions: the
   theorems hold for every naming style, every feature set and every file. *)
From Coq Require Import ZArith.
From Verif Require Import Idl.Ast Gen.Scope Gen.ScopeFacts Gen.ScopeTypeNames.
Close Scope string_scope.

(* the table the model consults at every step is the one pkg/namespace builds from the recorded
   operation sequence: the theorems below are statements about run_ops sequences *)
Theorem C01_scope_tables_are_run_ops :
  forall t tr, ns_of t tr = table_after t (chron tr).
Proof. exact ns_of_table_after. Qed.
Print Assumptions C01_scope_tables_are_run_ops.

(* two operations on one table that came back with the same name were made for the same id, and
   the later one is an Add: no side condition *)
Theorem C01_table_same_name :
  forall identify lower_first ft f es a e1 b e2 c,
  scope_run identify lower_first ft f = SOk es ->
  es = a ++ e1 :: b ++ e2 :: c ->
  e_table e1 = e_table e2 -> e_name e1 = e_name e2 ->
  e_id e1 = e_id e2 /\ is_add (e_op e2) = true.
Proof. exact table_same_name. Qed.
Print Assumptions C01_table_same_name.

(* package-level identifiers that go through the file table (type names, New<T>,
   fieldIDToName_<T>, <Svc>Client, <Svc>Processor, <Svc><Func>Args/Result, enums, typedefs,
   constants) are pairwise distinct when the fold raises no reserve failure and the ids are *)
Theorem C01_globals_distinct :
  forall identify lower_first ft f es,
  scope_run identify lower_first ft f = SOk es ->
  NoDup (map e_id (entries_of TGlobals es)) -> NoDup (map e_name (entries_of TGlobals es)).
Proof. exact globals_distinct. Qed.
Print Assumptions C01_globals_distinct.

(* members of a struct-like (reserved methods, Get/Set/IsSet/ReadFieldN/writeFieldN/
   FieldNDeepEqual, field names), user-defined or synthesized args / result *)
Theorem C01_struct_members_distinct :
  forall identify lower_first ft f es t,
  scope_run identify lower_first ft f = SOk es ->
  (exists k, t = TStruct k) \/ (exists i j r, t = TSynth i j r) ->
  NoDup (map e_id (entries_of t es)) -> NoDup (map e_name (entries_of t es)).
Proof. exact struct_members_distinct. Qed.
Print Assumptions C01_struct_members_distinct.

(* no premise about ids: the Go type names of the struct-likes of one file (structs, unions,
   exceptions and the synthesized <Svc><Func>Args / Result) are pairwise distinct in every
   accepted file, because New<name> is reserved right after <name> was obtained *)
Theorem C01_struct_type_names_distinct :
  forall identify lower_first ft f es a e1 b e2 c,
  scope_run identify lower_first ft f = SOk es ->
  es = a ++ e1 :: b ++ e2 :: c ->
  is_struct_type e1 = true -> is_struct_type e2 = true ->
  e_name e1 <> e_name e2.
Proof. exact struct_type_names_distinct. Qed.
Print Assumptions C01_struct_type_names_distinct.

(* any table (also the per-service method table and the per-enum value table) *)
Theorem C01_table_distinct :
  forall identify lower_first ft f es t,
  scope_run identify lower_first ft f = SOk es ->
  NoDup (map e_id (entries_of t es)) -> NoDup (map e_name (entries_of t es)).
Proof. exact table_distinct. Qed.
Print Assumptions C01_table_distinct.

(* receiver, locals, parameters, throws of a method: distinct, and no parameter / throw name is
   a Go keyword *)
Theorem C01_params_distinct_and_not_keywords :
  forall identify lower_first ft f es i j,
  scope_run identify lower_first ft f = SOk es ->
  (NoDup (map e_id (entries_of (TFunction i j) es)) -> NoDup (map e_name (entries_of (TFunction i j) es))) /\
  (forall e, In e es -> (kind_eqb (e_kind e) KParam || kind_eqb (e_kind e) KThrow) = true -> is_keyword (e_name e) = false).
Proof. exact params_distinct_and_not_keywords. Qed.
Print Assumptions C01_params_distinct_and_not_keywords.

(* a reserved name (New<T>, fieldIDToName_<T>, <Svc>Client, <Svc>Processor, Read, Write, p, err,
   ctx, ...) differs from every name recorded earlier in its table: no side condition *)
Theorem C01_reserved_name_fresh :
  forall identify lower_first ft f es a e1 b e2 c,
  scope_run identify lower_first ft f = SOk es ->
  es = a ++ e1 :: b ++ e2 :: c -> e_table e1 = e_table e2 ->
  is_add (e_op e2) = false -> e_name e1 <> e_name e2.
Proof. exact reserved_name_fresh. Qed.
Print Assumptions C01_reserved_name_fresh.

(* MustReserve on an occupied name is the error result, an error is never swallowed, hence
   acceptance means every MustReserve found its name free in the table built so far *)
Theorem C01_reserve_fails_iff :
  forall t ow k name id tr,
  m_reserve t ow k name id tr = SErr EReserve <-> lookup name (name2id (ns_of t tr)) <> None.
Proof. exact reserve_fails_iff. Qed.
Print Assumptions C01_reserve_fails_iff.

Theorem C01_error_propagates :
  forall A B (m : M A) (g : A -> M B) tr e, m tr = SErr e -> bind m g tr = SErr e.
Proof. exact @error_propagates. Qed.
Print Assumptions C01_error_propagates.

Theorem C01_reserve_failure_is_error :
  forall identify lower_first ft f es a e c name id,
  scope_run identify lower_first ft f = SOk es ->
  es = a ++ e :: c -> e_op e = OReserve name id ->
  lookup name (name2id (table_after (e_table e) (map (fun x => (e_table x, e_op x)) a))) = None /\ e_name e = name.
Proof. exact reserve_failure_is_error. Qed.
Print Assumptions C01_reserve_failure_is_error.

(* the model never runs out of fuel (Add with the underscore rename terminates within the fuel:
   pigeonhole over name, name_, name__, ...), so a rejected file is a reserve failure *)
Theorem C01_scope_error_is_reserve_failure :
  forall identify lower_first ft f e,
  scope_run identify lower_first ft f = SErr e -> e = EReserve.
Proof. exact scope_error_is_reserve_failure. Qed.
Print Assumptions C01_scope_error_is_reserve_failure.

(* non-vacuity.  With the identity as naming style: a struct with fields get_x / x keeps field
   and getter apart; "struct NewX" before "struct X" is a reserve failure (New ++ X is taken). *)
Open Scope string_scope.
Definition C01_ft0 := Features false false false false false.
Definition C01_i32 := Ty (B "i32") None None [] [] CatI32 None None.
Definition C01_file (structs : list struct_like) (services : list service) : file :=
  File (B "a.thrift") [] [] [] [] [] [] structs [] [] services None.
Definition C01_s1 := StructLike SKStruct (B "S")
  [Field 1%Z (B "x") ReqOptional C01_i32 None [] []; Field 2%Z (B "Getx") ReqDefault C01_i32 None [] []] [] [].

Example C01_scope_example_members :
  match scope_run (fun n => n) (fun n => n) C01_ft0 (C01_file [C01_s1] []) with
  | SOk es => map e_name (entries_of (TStruct 0) es)
  | SErr _ => []
  end = [B "Read"; B "Write"; B "String"; B "InitDefault"; B "Getx"; B "IsSetx"; B "ReadField1"; B "writeField1";
         B "GetGetx"; B "ReadField2"; B "writeField2"; B "x"; B "Getx_"].
Proof. vm_compute. reflexivity. Qed.

Example C01_scope_example_reserve_failure :
  scope_ops (fun n => n) (fun n => n) C01_ft0
    (C01_file [StructLike SKStruct (B "NewX") [] [] []; StructLike SKStruct (B "X") [] [] []] []) = SErr EReserve.
Proof. vm_compute. reflexivity. Qed.

Example C01_scope_example_keyword_param :
  match scope_run (fun n => n) (fun n => n) C01_ft0
        (C01_file [] [Service (B "Svc") [] [Function (B "f") false true (ty_named (B "void"))
                        [Field 1%Z (B "type") ReqDefault C01_i32 None [] []; Field 2%Z (B "p") ReqDefault C01_i32 None [] []] [] [] []] [] None []]) with
  | SOk es => map e_name (entries_of (TFunction 0 0) es)
  | SErr _ => []
  end = [B "p"; B "err"; B "ctx"; B "_type"; B "p_"].
Proof. vm_compute. reflexivity. Qed.

(* The keyword list of the model is the table of generator/golang/types.go (isKeywords) as the
   translator read it on this run (Gen/KeywordTable.v is regenerated by every check): a keyword
   added to or removed from the source breaks this theorem. *)
From Verif Require Import Gen.KeywordTable Gen.KeywordFacts.
Theorem C01_keyword_table_is_source : forall n, is_keyword n = existsb (beqb n) src_keywords.
Proof. exact keyword_table_is_source. Qed.
Print Assumptions C01_keyword_table_is_source.
