(* Wire/Value.v — typed values mirroring the *Go representation* chosen by the standard
   generator (generator/golang: NeedRedirect, GetTypeName, templates/struct.go).

   One untyped tree; the schema decides which shapes are legal where (wt_val / wt_fields):

     VBool b | VInt z | VDbl bits | VStr s      plain Go bool / intN, enum (int64) / float64 (bit pattern) / string
     VBin s                                      non-nil []byte (binary); binary *map keys* are Go strings: VBin only
     VList l                                     non-nil slice (list and set are both slices)
     VMap kvs                                    non-nil map, entries in some order (order is irrelevant)
     VStruct fs                                  non-nil pointer to T; fs = (field id, slot) in declaration order
     VNil                                        nil pointer / nil slice / nil map / nil []byte
     VSome v                                     non-nil pointer to a base value (pointer to int32, string, enum ...)

   A field *slot* holds: VNil | VSome x  when the field is an optional base type without default
   (base_ptr); otherwise the plain representation of its type (which for struct-likes, containers
   and binary may be VNil).  No proofs in this file. *)
From Coq Require Import List ZArith Bool Lia.
From Verif Require Import Base.Bytes Base.BE Wire.TType Wire.Schema.
Import ListNotations.
Open Scope Z_scope.

Inductive value :=
| VBool (b : bool)
| VInt (z : Z)
| VDbl (bits : Z)
| VStr (s : bytes)
| VBin (s : bytes)
| VList (l : list value)
| VMap (kvs : list (value * value))
| VStruct (fs : list (Z * value))
| VNil
| VSome (v : value).

Definition is_nil (v : value) : bool := match v with VNil => true | _ => false end.

(* ---- defaults and zero values ---- *)

Fixpoint value_of_lit (l : lit) : value :=
  match l with
  | LBool b => VBool b | LInt z => VInt z | LDbl b => VDbl b | LStr s => VStr s | LBin s => VBin s
  | LList l => VList (map value_of_lit l)
  | LMap kvs => VMap (map (fun kv => (value_of_lit (fst kv), value_of_lit (snd kv))) kvs)
  end.

(* Go zero value of the plain representation of a type *)
Definition zero_val (t : ty) : value :=
  match t with
  | TBool => VBool false
  | TByte | TI16 | TI32 | TI64 | TEnum _ => VInt 0
  | TDouble => VDbl 0
  | TString => VStr []
  | TBinary | TRef _ | TList _ | TSet _ | TMap _ _ => VNil
  end.
Definition zero_slot (f : field) : value := if base_ptr f then VNil else zero_val (f_ty f).
(* what NewX() / InitDefault() put into the slot *)
Definition init_slot (f : field) : value :=
  match f_default f with Some l => value_of_lit l | None => zero_slot f end.

Definition new_fields (s : sschema) : list (Z * value) := map (fun f => (f_id f, init_slot f)) (s_fields s).
Definition zero_fields (s : sschema) : list (Z * value) := map (fun f => (f_id f, zero_slot f)) (s_fields s).
Definition new_struct (e : env) (s : sschema) : value := VStruct (new_fields s).
Definition zero_struct (e : env) (s : sschema) : value := VStruct (zero_fields s).

(* ---- Go equalities ---- *)

(* IEEE-754 binary64 "==" on bit patterns *)
Definition dbl_is_nan (x : Z) : bool := 9218868437227405312 <? x mod 9223372036854775808.   (* 0x7ff0... < |x| *)
Definition dbl_is_zero (x : Z) : bool := x mod 9223372036854775808 =? 0.
Definition feq (a b : Z) : bool :=
  if dbl_is_nan a || dbl_is_nan b then false else (a =? b) || (dbl_is_zero a && dbl_is_zero b).

(* Go "==" on map keys: base values by value (doubles IEEE), struct keys are pointers, and
   every generated or decoded struct is a fresh pointer: never equal, except nil = nil *)
Definition go_key_eq (a b : value) : bool :=
  match a, b with
  | VBool x, VBool y => Bool.eqb x y
  | VInt x, VInt y => x =? y
  | VDbl x, VDbl y => feq x y
  | VStr x, VStr y | VBin x, VBin y => beqb x y
  | VNil, VNil => true            (* two nil struct pointers are the same key *)
  | _, _ => false
  end.

Section All2.
  Context {A B : Type} (f : A -> B -> bool).
  Fixpoint all2 (la : list A) (lb : list B) : bool :=
    match la, lb with
    | [], [] => true
    | a :: ra, b :: rb => f a b && all2 ra rb
    | _, _ => false
    end.
End All2.

Fixpoint find_key (k : value) (l : list (value * value)) : option value :=
  match l with [] => None | (k', v) :: r => if go_key_eq k k' then Some v else find_key k r end.

(* reflect.DeepEqual on two values of the same Go type (distinct objects: no pointer sharing) *)
Fixpoint deep_eq (a b : value) {struct a} : bool :=
  match a, b with
  | VBool x, VBool y => Bool.eqb x y
  | VInt x, VInt y => x =? y
  | VDbl x, VDbl y => feq x y
  | VStr x, VStr y | VBin x, VBin y => beqb x y
  | VNil, VNil => true
  | VSome x, VSome y => deep_eq x y
  | VList la, VList lb => all2 deep_eq la lb
  | VMap la, VMap lb =>
      (length la =? length lb)%nat &&
      forallb (fun kv => match find_key (fst kv) lb with
                         | Some y => deep_eq (snd kv) y | None => false end) la
  | VStruct fa, VStruct fb => all2 (fun p q => (fst p =? fst q) && deep_eq (snd p) (snd q)) fa fb
  | _, _ => false
  end.

Section Dup.
  Context {A : Type} (eq : A -> A -> bool).
  Fixpoint has_dup (l : list A) : bool :=
    match l with [] => false | x :: r => existsb (eq x) r || has_dup r end.
End Dup.

(* ---- IsSet and getters (templates/struct.go: FieldIsSet, FieldGetOrSet) ---- *)

Definition bin_bytes (v : value) : bytes := match v with VBin s => s | _ => [] end.

(* Go "!=" between a plain base slot and the DEFAULT variable *)
Definition base_neq (t : ty) (v d : value) : bool :=
  match t with
  | TBinary => negb (beqb (bin_bytes v) (bin_bytes d))
  | _ => match v, d with
         | VDbl x, VDbl y => negb (feq x y)
         | _, _ => negb (go_key_eq v d)
         end
  end.

Definition isset (f : field) (v : value) : bool :=
  match f_default f with
  | Some l => if is_base (f_ty f) then base_neq (f_ty f) v (value_of_lit l) else negb (is_nil v)
  | None => negb (is_nil v)
  end.

Definition deref (f : field) (v : value) : value :=
  if base_ptr f then match v with VSome x => x | _ => VNil end else v.

(* value of the X_F_DEFAULT variable: the declared default, else the zero value of the getter's type *)
Definition default_var (f : field) : value :=
  match f_default f with Some l => value_of_lit l | None => zero_val (f_ty f) end.

Definition getter (f : field) (v : value) : value :=
  if supports_isset f then (if isset f v then deref f v else default_var f) else v.

(* a field is emitted by Write *)
Definition present (f : field) (v : value) : bool := negb (is_optional f) || isset f v.

Definition count_set (fields : list field) (fs : list (Z * value)) : nat :=
  length (filter (fun p => match find_field (fst p) fields with
                           | Some f => supports_isset f && isset f (snd p) | None => false end) fs).

(* ---- well-typedness: the values the round-trip theorems quantify over ---- *)

Definition len_ok {A} (l : list A) : bool := Z.of_nat (length l) <? 2147483648.

Fixpoint list_eqbZ (a b : list Z) : bool :=
  match a, b with [], [] => true | x :: r, y :: s => (x =? y) && list_eqbZ r s | _, _ => false end.

(* [key] = the value is a map key (binary keys are Go strings: never nil) *)
Fixpoint wt_val (e : env) (key : bool) (t : ty) (v : value) {struct v} : bool :=
  match v with
  | VBool _ => match t with TBool => true | _ => false end
  | VInt z => match t with
              | TByte => in_srangeb 1 z | TI16 => in_srangeb 2 z | TI32 => in_srangeb 4 z
              | TI64 | TEnum _ => in_srangeb 8 z | _ => false end
  | VDbl b => match t with TDouble => (0 <=? b) && (b <? 18446744073709551616) | _ => false end
  | VStr s => match t with TString => len_ok s | _ => false end
  | VBin s => match t with TBinary => len_ok s | _ => false end
  | VNil => match t with
            | TBinary => negb key
            | TList _ | TSet _ | TMap _ _ => true
            | TRef n => match find_struct e n with
                        | Some s => negb (is_union s) && negb (existsb is_required (s_fields s))
                        | None => false end
            | _ => false end
  | VSome _ => false
  | VList l => match t with
               | TList et => len_ok l && forallb (wt_val e false et) l
               | TSet et => len_ok l && forallb (wt_val e false et) l && negb (has_dup deep_eq l)
               | _ => false end
  | VMap kvs => match t with
                | TMap kt vt =>
                    len_ok kvs &&
                    forallb (fun kv => wt_val e true kt (fst kv) && wt_val e false vt (snd kv)) kvs &&
                    negb (has_dup go_key_eq (map fst kvs))
                | _ => false end
  | VStruct fs =>
      match t with
      | TRef n =>
        match find_struct e n with
        | Some s =>
            list_eqbZ (map fst fs) (map f_id (s_fields s)) &&
            forallb (fun p => match find_field (fst p) (s_fields s) with
                              | Some f =>
                                  if base_ptr f then
                                    match snd p with
                                    | VNil => true
                                    | VSome x => wt_val e false (f_ty f) x
                                    | _ => false end
                                  else if is_optional f && is_nil (snd p) then
                                    negb (is_base (f_ty f)) || is_binary (f_ty f)
                                  else wt_val e false (f_ty f) (snd p)
                              | None => false end) fs &&
            (if is_union s then (count_set (s_fields s) fs =? 1)%nat else true)
        | None => false end
      | _ => false end
  end.

(* top level: a non-nil object of struct-like s *)
Definition wt (e : env) (s : sschema) (v : value) : bool :=
  match find_struct e (s_name s) with
  | Some s' => match v with VStruct _ => true | _ => false end && wt_val e false (TRef (s_name s)) v
  | None => false
  end.
