(* Corr/C06.v — correspondence record and comparison for property C06 (constants and
   default values).

   One set of shards per program: the shard preamble defines the resolved program
   (astdump of the real parser + semantic pass) as [P] and
   [mismatches := mismatches_for P].  A case is one observation made on COMPILED
   generated code (or the outcome of the pipeline for the whole program):

     KOutcome acc          thriftgo accepted the program and the generated Go compiled
     KProg q acc           the same for the program q carried by the case (small programs
                           that are refused are bundled into one shard)
     KCompiled ok          under some option set of the property the generated packages of the
                           program compiled (ok) / did not compile
     KConst fi ci v        the Go constant / variable generated for the ci-th constant of
                           the fi-th file of P holds v
     KNew fi si vn vi      NewX() = vn and InitDefault() on &X{} gives vi, X = the si-th
                           struct-like (structs ++ unions ++ exceptions) of file fi
     KInit fi si x y       InitDefault() on the object x gives y
     KGet fi si x gs is    on the object x the getters return gs (field id, value) and the
                           IsSet methods return is (field id, bool)

     KHist fi si vn vi     HISTORY: another instance of X was constructed and everything its fields
                           refer to (slices, maps, []byte, inner structs) was edited in place;
                           afterwards NewX() = vn and InitDefault() on &X{} gives vi (also: the
                           second of two decoded list elements that carry no fields, after the
                           first was edited)
     KHistGet fi si x gs is  after the same history: getters / IsSet on the zero object x

   [mismatches_for] returns (case index, code):
     1   the model under go_rules and the implementation disagree        (correspondence)
     9   the model ran out of fuel                                       (correspondence)
     2   a constant does not hold the value of its IDL initializer       (property oracle)
     3   as 2 / 4, but the only difference is the sign of a zero double  (property oracle)
     4   NewX() / InitDefault(): a field with a declared default does not hold it, or a
         field without one is not zero / nil                             (property oracle)
     5   InitDefault() on the zero object differs from NewX()            (property oracle)
     6   the getter of an unset optional field does not return the declared default
                                                                         (property oracle)
     7   an optional field holding a value different from its default reports itself
         as not set                                                      (property oracle)
     8   every initializer of the program has a value (model) but the generated Go does
         not compile under an option set the property names: the constants are not
         available                                                       (property oracle)
     10  a value of the wrong kind for a scalar or struct type was accepted
                                                                         (property oracle)
     11  after an in-place edit of ANOTHER instance a freshly constructed struct does not
         hold the declared defaults (instances share storage)            (property oracle)
     12  as 11 / 13, and every affected field has a default written as a reference to a
         container / struct / binary constant: the instances share the CONSTANT's storage
                                                                         (property oracle)
     13  after the same history the getter of an unset optional field does not return the
         declared default                                                (property oracle)
   The model has no heap: histories are judged by the oracles only (idl_rules, sign of zero
   ignored).
   The oracles evaluate the IDL under [idl_rules]; struct literals constrain only the
   fields they mention ([VAny]).  Map entries and struct slots are compared as sets. *)
From Coq Require Import List Bool ZArith NArith.
From Verif Require Import Base.Bytes Idl.Ast Idl.AstUtil Idl.Consts.
Import ListNotations.
Local Open Scope Z_scope.

Inductive case :=
| KOutcome (accepted : bool)
| KProg (q : program) (accepted : bool)
| KCompiled (ok : bool)
| KConst (fi ci : Z) (v : cval)
| KNew (fi si : Z) (vnew vinit : cval)
| KInit (fi si : Z) (x y : cval)
| KGet (fi si : Z) (x : cval) (getters : list (Z * cval)) (issets : list (Z * bool))
| KHist (fi si : Z) (vnew vinit : cval)
| KHistGet (fi si : Z) (x : cval) (getters : list (Z * cval)) (issets : list (Z * bool)).

(* ---- equality of an expected value with an observed one.
   zs = true: +0 and -0 are the same double *)
Definition dbl_same (zs : bool) (a b : Z) : bool :=
  (a =? b) || (zs && dbl_is_zero a && dbl_is_zero b).

Fixpoint veq (zs : bool) (e o : cval) {struct e} : bool :=
  match e with
  | VSome (VSome VNil) => true
  | VBool x => match o with VBool y => Bool.eqb x y | _ => false end
  | VInt x => match o with VInt y => x =? y | _ => false end
  | VDbl x => match o with VDbl y => dbl_same zs x y | _ => false end
  | VStr x => match o with VStr y => beqb x y | _ => false end
  | VBin x => match o with VBin y => beqb x y | _ => false end
  | VNil => match o with VNil => true | _ => false end
  | VSome x => match o with VSome y => veq zs x y | _ => false end
  | VList la =>
    match o with
    | VList lb =>
      (fix go (la lb : list cval) : bool :=
         match la, lb with
         | [], [] => true
         | a :: ra, b :: rb => veq zs a b && go ra rb
         | _, _ => false
         end) la lb
    | _ => false
    end
  | VMap la =>
    match o with
    | VMap lb =>
      (fix go (la : list (cval * cval)) (lb : list (cval * cval)) : bool :=
         match la with
         | [] => match lb with [] => true | _ => false end
         | kv :: ra =>
           (fix pick (pre lb' : list (cval * cval)) : bool :=
              match lb' with
              | [] => false
              | kv' :: rb =>
                if veq zs (fst kv) (fst kv') && veq zs (snd kv) (snd kv')
                then go ra (rev_append pre rb)
                else pick (kv' :: pre) rb
              end) [] lb
         end) la lb
    | _ => false
    end
  | VStruct fa =>
    match o with
    | VStruct fb =>
      (length fa =? length fb)%nat &&
      (fix go (fa : list (Z * cval)) : bool :=
         match fa with
         | [] => true
         | e1 :: ra =>
           match find (fun e2 => fst e2 =? fst e1) fb with
           | Some e2 => veq zs (snd e1) (snd e2) && go ra
           | None => false
           end
         end) fa
    | _ => false
    end
  end.

(* ---- lookups by index *)

Definition nthZ {A} (l : list A) (i : Z) : option A := if i <? 0 then None else nth_error l (Z.to_nat i).
Definition file_at (p : program) (fi : Z) : option file := option_map snd (nthZ p fi).

(* ---- whole program: every constant and every field default evaluates *)

Definition is_ok {A} (r : result A) : bool := match r with Ok _ => true | Error _ => false end.
Definition is_fuel {A} (r : result A) : bool := match r with Error EFuel => true | _ => false end.

Definition file_results (q : quirks) (p : program) (f : file) : list (result cval) :=
  let n := prog_fuel p in
  map (eval_constant q n p f) (f_constants f) ++
  flat_map (fun fd => match fd_default fd with
                      | Some c => [eval_top q n p f (fd_type fd) c]
                      | None => []
                      end) (file_fields f).
Definition prog_results (q : quirks) (p : program) : list (result cval) :=
  flat_map (file_results q p) (prog_files p).
Definition prog_ok (q : quirks) (p : program) : bool := forallb is_ok (prog_results q p).

(* a scalar or struct-like position written with a value of another kind (the cases the
   property lists); containers are excluded: the generator tolerates them on purpose *)
Definition scalar_or_struct (c : category) : bool :=
  is_base_category c || is_struct_like_category c || match c with CatEnum => true | _ => false end.
Definition kind_errors (p : program) (f : file) : bool :=
  let n := prog_fuel p in
  existsb (fun co => scalar_or_struct (ty_category (co_type co)) &&
                     match eval_constant idl_rules n p f co with Error EKind => true | _ => false end)
          (f_constants f) ||
  existsb (fun fd => scalar_or_struct (fd_cat fd) &&
                     match fd_default fd with
                     | Some c => match eval_top idl_rules n p f (fd_type fd) c with Error EKind => true | _ => false end
                     | None => false
                     end) (file_fields f).

(* ---- one case *)

(* compare an observation with the go_rules value (code 1 / 9) and with the idl_rules
   value (code [oc], or 3 when only the sign of a zero differs) *)
Definition judge (oc : N) (go idl : result cval) (obs : cval) : list N :=
  (match go with
   | Ok v => if veq false v obs then [] else [1%N]
   | Error EFuel => [9%N]
   | Error _ => [1%N]
   end) ++
  (match idl with
   | Ok v => if veq false v obs then [] else if veq true v obs then [3%N] else [oc]
   | Error _ => []
   end).

Definition field_dv (q : quirks) (p : program) (f : file) (fd : field) : result (option cval) :=
  default_value q (prog_fuel p) p f fd.

Definition check_get (p : program) (f : file) (s : struct_like) (x : cval)
           (getters : list (Z * cval)) (issets : list (Z * bool)) : list N :=
  flat_map
    (fun fd =>
       match get_slot x (fd_id fd) with
       | None => [1%N]
       | Some slot =>
         let og := option_map snd (find (fun e => fst e =? fd_id fd) getters) in
         let oi := option_map snd (find (fun e => fst e =? fd_id fd) issets) in
         (* correspondence *)
         (match field_dv go_rules p f fd with
          | Ok dv =>
            (match og with
             | Some g => if veq false (getter fd dv slot) g then [] else [1%N]
             | None => [1%N]
             end) ++
            (match oi with
             | Some b => if support_isset fd then (if Bool.eqb (is_set fd dv slot) b then [] else [1%N]) else [1%N]
             | None => if support_isset fd then [1%N] else []
             end)
          | Error EFuel => [9%N]
          | Error _ => [1%N]
          end) ++
         (* oracles *)
         (if is_optional fd then
            match field_dv idl_rules p f fd, og, oi with
            | Ok dv, Some g, Some b =>
              (if negb b && negb (veq true (default_var fd dv) g) then [6%N] else []) ++
              (if is_set fd dv slot && negb b then [7%N] else [])
            | _, _, _ => []
            end
          else [])
       end)
    (sl_fields s).

Definition check_outcome (p : program) (acc : bool) : list N :=
  (if existsb is_fuel (prog_results go_rules p) then [9%N]
   else if Bool.eqb (prog_ok go_rules p) acc then [] else [1%N]) ++
  (if acc && existsb (kind_errors p) (prog_files p) then [10%N] else []).

(* ---- histories *)

(* the default is an identifier standing for a container / struct-like / binary constant: the
   generated code assigns the constant's own slice / map / pointer *)
Definition shares_constant (fd : field) : bool :=
  match fd_default fd with
  | Some (CIdent s _) =>
    negb (is_true s || is_false s) &&
    (is_container_category (fd_cat fd) || is_struct_like_category (fd_cat fd) || is_binary (fd_cat fd))
  | _ => false
  end.

Definition verdict (code : N) (bad : list field) : list N :=
  match bad with
  | [] => []
  | _ => if forallb shares_constant bad then [12%N] else [code]
  end.

(* fields of s whose slot in the observed struct differs from the expected one *)
Fixpoint bad_fields (fds : list field) (exp : list (Z * cval)) (obs : cval) : list field :=
  match fds, exp with
  | fd :: fr, e :: er =>
    (match get_slot obs (fst e) with
     | Some o => if veq true (snd e) o then [] else [fd]
     | None => [fd]
     end) ++ bad_fields fr er obs
  | _, _ => []
  end.

Definition check_hist (p : program) (f : file) (s : struct_like) (vn vi : cval) : list N :=
  match new_struct idl_rules (prog_fuel p) p f s with
  | Ok (VStruct exp) => verdict 11%N (bad_fields (sl_fields s) exp vn ++ bad_fields (sl_fields s) exp vi)
  | _ => []
  end.

Definition check_hist_get (p : program) (f : file) (s : struct_like)
           (getters : list (Z * cval)) (issets : list (Z * bool)) : list N :=
  verdict 13%N
    (flat_map (fun fd =>
       match field_dv idl_rules p f fd,
             option_map snd (find (fun e => fst e =? fd_id fd) getters),
             option_map snd (find (fun e => fst e =? fd_id fd) issets) with
       | Ok dv, Some g, Some false => if veq true (default_var fd dv) g then [] else [fd]
       | _, _, _ => []
       end) (sl_fields s)).

Definition check_case (p : program) (c : case) : list N :=
  let n := prog_fuel p in
  match c with
  | KOutcome acc => check_outcome p acc
  | KProg q acc => check_outcome q acc
  | KCompiled ok => if ok then [] else if prog_ok go_rules p then [8%N] else []
  | KConst fi ci v =>
    match file_at p fi with
    | Some f =>
      match nthZ (f_constants f) ci with
      | Some co => judge 2%N (eval_constant go_rules n p f co) (eval_constant idl_rules n p f co) v
      | None => [1%N]
      end
    | None => [1%N]
    end
  | KNew fi si vn vi =>
    match file_at p fi with
    | Some f =>
      match nthZ (struct_likes f) si with
      | Some s =>
        judge 4%N (new_struct go_rules n p f s) (new_struct idl_rules n p f s) vn ++
        judge 4%N (init_default go_rules n p f s (zero_struct s)) (init_default idl_rules n p f s (zero_struct s)) vi ++
        (if veq false vn vi then [] else [5%N])
      | None => [1%N]
      end
    | None => [1%N]
    end
  | KInit fi si x y =>
    match file_at p fi with
    | Some f =>
      match nthZ (struct_likes f) si with
      | Some s => judge 4%N (init_default go_rules n p f s x) (init_default idl_rules n p f s x) y
      | None => [1%N]
      end
    | None => [1%N]
    end
  | KGet fi si x gs is =>
    match file_at p fi with
    | Some f =>
      match nthZ (struct_likes f) si with
      | Some s => check_get p f s x gs is
      | None => [1%N]
      end
    | None => [1%N]
    end
  | KHist fi si vn vi =>
    match file_at p fi with
    | Some f =>
      match nthZ (struct_likes f) si with
      | Some s => check_hist p f s vn vi
      | None => [1%N]
      end
    | None => [1%N]
    end
  | KHistGet fi si x gs is =>
    match file_at p fi with
    | Some f =>
      match nthZ (struct_likes f) si with
      | Some s => check_hist_get p f s gs is
      | None => [1%N]
      end
    | None => [1%N]
    end
  end.

Fixpoint mismatches_from (p : program) (i : N) (cs : list case) : list (N * N) :=
  match cs with
  | [] => []
  | c :: r => map (fun code => (i, code)) (nodup N.eq_dec (check_case p c)) ++ mismatches_from p (N.succ i) r
  end.

Definition mismatches_for (p : program) (cs : list case) : list (N * N) := mismatches_from p 0%N cs.
