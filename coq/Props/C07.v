(* Props/C07.v — property C07 "Code generation is deterministic" (partial, see DESIGN.md C07).
   Statements only.  What is proved: (1) the permutation-invariance theorems that justify each
   class of order-sensitive construct; (2) for the list of constructs REGENERATED from /repo on
   every run, every one is classified and none is order sensitive outside the recorded finding.
   What is not proved: that the classification of a site is right (reviewed abstraction) and
   that template text has no other source of nondeterminism (observed by repeated runs). *)
From Coq Require Import List Arith Bool Permutation Sorted String.
From Verif Require Import Base.Bytes Gen.FileManager Gen.Determinism Gen.DeterminismInst Gen.MapSites Gen.SiteClasses.
Import ListNotations.

(* class Sorted: whatever order the map delivered, sorting by distinct keys gives one list *)
Theorem C07_sort_then_emit_perm_invariant :
  forall (A : Type) (leb : A -> A -> bool),
  (forall x y, leb x y = true \/ leb y x = true) ->
  (forall x y z, leb x y = true -> leb y z = true -> leb x z = true) ->
  (forall x y, leb x y = true -> leb y x = true -> x = y) ->
  forall (B : Type) (emit : list A -> B) l l',
  Permutation l l' -> emit (isort A leb l) = emit (isort A leb l').
Proof. exact sort_then_emit_perm_invariant. Qed.
Print Assumptions C07_sort_then_emit_perm_invariant.

(* class Commutative *)
Theorem C07_commutative_fold_perm_invariant :
  forall (A S : Type) (step : S -> A -> S),
  (forall s x y, step (step s x) y = step (step s y) x) ->
  forall l l', Permutation l l' -> forall s, fold_left step l s = fold_left step l' s.
Proof. exact commutative_fold_perm_invariant. Qed.
Print Assumptions C07_commutative_fold_perm_invariant.

(* class PrefixFree: the insertion-point replacer *)
Theorem C07_replacer_perm_invariant :
  forall pairs pairs', NoDup (map fst pairs) -> prefix_free (map fst pairs) -> Permutation pairs pairs' ->
  forall s, replace pairs s = replace pairs' s.
Proof. exact replacer_perm_invariant. Qed.
Print Assumptions C07_replacer_perm_invariant.

Theorem C07_markers_prefix_free :
  forall names, Forall no_rparen names -> prefix_free (map marker names).
Proof. exact markers_prefix_free. Qed.
Print Assumptions C07_markers_prefix_free.

(* the regenerated site list: every construct is classified ... *)
Theorem C07_all_sites_classified :
  forall s, In s map_sites -> class_of s <> None.
Proof.
  assert (H : all_classified = true) by (vm_compute; reflexivity).
  intros s Hs. unfold all_classified in H. rewrite forallb_forall in H. specialize (H s Hs).
  destruct (class_of s); [discriminate | discriminate].
Qed.
Print Assumptions C07_all_sites_classified.

(* ... and the only order-sensitive ones are the recorded findings *)
Theorem C07_no_order_sensitive_site_outside_findings :
  forall s, In s map_sites -> class_of s = Some KnownOrderSensitive -> In s known_sensitive_sites.
Proof.
  assert (H : sensitive_only_known = true) by (vm_compute; reflexivity).
  intros s Hs Hc. unfold sensitive_only_known in H. rewrite forallb_forall in H. specialize (H s Hs).
  assert (Hex0 : existsb (site_eqb s) known_sensitive_sites = true).
  { rewrite Hc in H. unfold is_known_sensitive in H.
    destruct (existsb (site_eqb s) known_sensitive_sites); [reflexivity | discriminate H]. }
  apply existsb_exists in Hex0. destruct Hex0 as [x [Hx Hex]].
  assert (x = s) as <-; [|exact Hx].
  destruct s as [[[a1 a2] a3] a4], x as [[[b1 b2] b3] b4]. unfold site_eqb in Hex.
  repeat (apply andb_true_iff in Hex; destruct Hex as [Hex ?]).
  repeat match goal with H0 : String.eqb _ _ = true |- _ => apply String.eqb_eq in H0 end.
  congruence.
Qed.
Print Assumptions C07_no_order_sensitive_site_outside_findings.

(* the class Sorted is backed by the source: the translator found a call into package sort after
   the loop, in the same function, for every site classified Sorted (removing the sort call from
   the source breaks this theorem on the next run) *)
Theorem C07_sorted_sites_are_followed_by_a_sort :
  forall s, In s map_sites -> class_of s = Some Sorted -> existsb (site_eqb s) sorted_after_sites = true.
Proof.
  assert (H : sorted_backed = true) by (vm_compute; reflexivity).
  intros s Hs Hc. unfold sorted_backed in H. rewrite forallb_forall in H. specialize (H s Hs).
  rewrite Hc in H. exact H.
Qed.
Print Assumptions C07_sorted_sites_are_followed_by_a_sort.

(* the faithful model of "emit in map order" IS order sensitive: two entries suffice *)
Theorem C07_emit_in_map_order_refuted :
  exists (l l' : list nat), Permutation l l' /\ (fun x => x) l <> (fun x => x) l'.
Proof. exists [1; 2], [2; 1]. split; [constructor | discriminate]. Qed.
Print Assumptions C07_emit_in_map_order_refuted.

(* the hypotheses of the Sorted class are satisfiable by what the sites actually sort: byte-wise
   lexicographic order on strings is total, transitive and antisymmetric, so whatever order the
   runtime delivered the keys in, sorting them gives one list and hence one output *)
Theorem C07_sorted_strings_deterministic :
  forall (B : Type) (emit : list bytes -> B) (l l' : list bytes),
    Permutation l l' -> emit (isort bytes lex_leb l) = emit (isort bytes lex_leb l').
Proof. exact sorted_strings_deterministic. Qed.
Print Assumptions C07_sorted_strings_deterministic.
