(* Wire/StdPresFacts.v — presentation invariance of the standard codec: the result of Write does not
   depend on the order in which the schema lists the fields (reorder_fields), and visiting the slots
   of an object in another order permutes the emitted fields. *)
From Coq Require Import List ZArith Bool Lia Permutation.
From Verif Require Import Base.Bytes Base.BE Wire.TType Wire.WVal Wire.Codec Wire.CodecFacts
  Wire.Schema Wire.Value Wire.GenTables Wire.Std Wire.StdFacts.
Import ListNotations.
Open Scope Z_scope.

(* ------------------------------------------------------------------ presentation invariance *)

(* two environments that differ only in the order of the fields of their struct-likes
   (what reorder_fields does), stated through what the codec looks at *)
Definition env_equiv (e e' : env) : Prop :=
  forall n, match find_struct e n, find_struct e' n with
            | Some s, Some s' => is_union s = is_union s' /\
                                 forall id, find_field id (s_fields s) = find_field id (s_fields s')
            | None, None => True
            | _, _ => False end.

Lemma find_field_perm l l' : NoDup (map f_id l) -> Permutation l l' ->
  forall id, find_field id l = find_field id l'.
Proof.
  intros Hnd Hp. induction Hp; intro id.
  - reflexivity.
  - cbn. destruct (id =? f_id x); [reflexivity|]. apply IHHp. inversion Hnd; assumption.
  - cbn. destruct (Z.eqb_spec id (f_id y)), (Z.eqb_spec id (f_id x)); try reflexivity.
    exfalso. cbn in Hnd. inversion Hnd as [|? ? Hn _]; subst. apply Hn. left. congruence.
  - rewrite IHHp1 by assumption. apply IHHp2.
    eapply Permutation_NoDup; [apply Permutation_map; exact Hp1 | assumption].
Qed.

Lemma mapM_ext_Forall {A B} (f g : A -> result B) l :
  Forall (fun x => f x = g x) l -> mapM f l = mapM g l.
Proof. induction 1 as [|x l Hx Hl IH]; cbn; [reflexivity|]. rewrite Hx, IH. reflexivity. Qed.

Lemma count_set_ext fields fields' fs :
  (forall id, find_field id fields = find_field id fields') -> count_set fields fs = count_set fields' fs.
Proof.
  intro H. unfold count_set. f_equal. apply filter_ext. intro p. rewrite H. reflexivity.
Qed.

Theorem to_w_env_equiv e e' : env_equiv e e' -> forall v t, to_w e t v = to_w e' t v.
Proof.
  intros Heq v.
  enough (H : (forall t, to_w e t v = to_w e' t v) /\
              match v with VSome x => forall t, to_w e t x = to_w e' t x | _ => True end) by apply H.
  assert (Htt : forall t, ttype_of e t = ttype_of e' t) by (intro t; rewrite !ttype_of_spec; reflexivity).
  Ltac triv := match goal with |- ?a = ?a => reflexivity | _ => idtac end.
  induction v using value_ind2.
  - split; [intro t; destruct t; cbn [to_w]; triv | exact I].
  - split; [intro t; destruct t; cbn [to_w]; triv | exact I].
  - split; [intro t; destruct t; cbn [to_w]; triv | exact I].
  - split; [intro t; destruct t; cbn [to_w]; triv | exact I].
  - split; [intro t; destruct t; cbn [to_w]; triv | exact I].
  - split; [|exact I]. intro t. destruct t; cbn [to_w]; triv; rewrite !Htt.
    + rewrite (mapM_ext_Forall (to_w e t) (to_w e' t)); [reflexivity|].
      eapply Forall_impl; [|exact H]. intros x [Hx _]. apply Hx.
    + rewrite (mapM_ext_Forall (to_w e t) (to_w e' t)); [reflexivity|].
      eapply Forall_impl; [|exact H]. intros x [Hx _]. apply Hx.
  - split; [|exact I]. intro t. destruct t; cbn [to_w]; triv. rewrite !Htt.
    match goal with |- bind (mapM ?F kvs) _ = bind (mapM ?G kvs) _ => rewrite (mapM_ext_Forall F G) end; [reflexivity|].
    eapply Forall_impl; [|exact H]. intros kv [[Hk _] [Hx _]]. cbn beta. rewrite Hk, Hx. reflexivity.
  - split; [|exact I]. intro t.
    destruct t; try (match goal with |- to_w _ (TRef _) _ = _ => fail 1 | _ => cbn [to_w]; reflexivity end).
    rewrite !to_w_struct.
    specialize (Heq name).
    destruct (find_struct e name) as [s|], (find_struct e' name) as [s'|]; try contradiction; [|reflexivity].
    destruct Heq as [Hu Hff]. cbn zeta. rewrite (count_set_ext _ _ fs Hff), Hu.
    destruct (is_union s' && negb (count_set (s_fields s') fs =? 1)%nat); [reflexivity|].
    rewrite (mapM_ext_Forall (wfield_fn e s) (wfield_fn e' s')); [reflexivity|].
    eapply Forall_impl; [|exact H]. intros p Hp. unfold wfield_fn. rewrite Hff.
    destruct (find_field (fst p) (s_fields s')) as [f|]; [|reflexivity].
    destruct (present f (snd p)); [|reflexivity]. rewrite Htt.
    destruct (base_ptr f).
    + destruct Hp as [_ Hp]. destruct (snd p); triv. rewrite Hp. reflexivity.
    + destruct Hp as [Hp _]. rewrite Hp. reflexivity.
  - split; [|exact I]. intro t. destruct t; cbn [to_w]; rewrite ?Htt; triv.
    specialize (Heq name).
    destruct (find_struct e name) as [s|], (find_struct e' name) as [s'|]; try contradiction; [|reflexivity].
    destruct Heq as [-> _]. reflexivity.
  - split; [intro t; cbn [to_w]; reflexivity | apply IHv].
Qed.

Lemma mapM_perm {A B} (f : A -> result B) l l' ys :
  Permutation l l' -> mapM f l = Ok ys -> exists ys', mapM f l' = Ok ys' /\ Permutation ys ys'.
Proof.
  intro Hp. revert ys. induction Hp; intros ys H.
  - exists ys. split; [assumption | apply Permutation_refl].
  - cbn in *. destruct (f x) as [y|]; [|discriminate].
    destruct (mapM f l) as [ys0|] eqn:E; [|discriminate]. injection H as <-.
    destruct (IHHp _ eq_refl) as (ys' & -> & Hpp). exists (y :: ys'). split; [reflexivity | constructor; assumption].
  - cbn in *. destruct (f y) as [y1|]; [|discriminate]. destruct (f x) as [x1|]; [|discriminate].
    destruct (mapM f l) as [ys0|]; [|discriminate]. injection H as <-.
    exists (x1 :: y1 :: ys0). split; [reflexivity | apply perm_swap].
  - destruct (IHHp1 _ H) as (ys1 & H1 & P1). destruct (IHHp2 _ H1) as (ys2 & H2 & P2).
    exists ys2. split; [assumption | eapply Permutation_trans; eassumption].
Qed.

Lemma cat_somes_perm {A} (l l' : list (option A)) : Permutation l l' -> Permutation (cat_somes l) (cat_somes l').
Proof.
  induction 1.
  - apply Permutation_refl.
  - destruct x; cbn; [constructor|]; assumption.
  - destruct x, y; cbn; try apply Permutation_refl. apply perm_swap.
  - eapply Permutation_trans; eassumption.
Qed.

Lemma count_set_perm fields fs fs' : Permutation fs fs' -> count_set fields fs = count_set fields fs'.
Proof.
  intro H. unfold count_set. apply Permutation_length.
  induction H; cbn.
  - apply Permutation_refl.
  - destruct (match find_field (fst x) fields with Some f => _ | None => _ end); [constructor|]; assumption.
  - destruct (match find_field (fst x) fields with Some f => _ | None => _ end),
             (match find_field (fst y) fields with Some f => _ | None => _ end);
      try apply Permutation_refl. apply perm_swap.
  - eapply Permutation_trans; eassumption.
Qed.

(* the same object with its slots listed in another order (reorder_fields changes the Go field order and
   therefore the order in which Write visits them): the emitted fields are a permutation *)
Theorem to_wire_reorder e s fs fs' wfs :
  find_struct e (s_name s) = Some s -> Permutation fs fs' ->
  to_wire e s (VStruct fs) = Ok (WStruct wfs) ->
  exists wfs', to_wire e s (VStruct fs') = Ok (WStruct wfs') /\ Permutation wfs wfs'.
Proof.
  intros Hs Hp Hw. unfold to_wire in *. rewrite to_w_struct, Hs in *. cbn zeta in *.
  rewrite <- (count_set_perm _ _ _ Hp).
  destruct (is_union s && negb (count_set (s_fields s) fs =? 1)%nat); [discriminate|].
  destruct (mapM (wfield_fn e s) fs) as [ofs|] eqn:Hm; [|discriminate]. injection Hw as <-.
  destruct (mapM_perm _ _ _ _ Hp Hm) as (ofs' & -> & Hpp).
  exists (cat_somes ofs'). split; [reflexivity | apply cat_somes_perm; assumption].
Qed.
