package main

import (
	"encoding/json"
	"fmt"
	"os"
	"os/exec"
	"path/filepath"
	"strings"

	"github.com/cloudwego/thriftgo/parser"

	"verif/harness/coqfmt"
	"verif/harness/gendrv"
	"verif/harness/refldump"
)

// The compiled cases: the real thriftgo binary generates Go code with with_reflection for the
// program (working directory = program root, exactly like the in-process parse, so the Filenames
// agree); the code is compiled together with the generic driver in a scratch module of its own
// (the reflection registry is process-global and keyed by the IDL path: one binary per program),
// and the driver verb c15_dump reports what the generated packages registered.
type compiler struct {
	dir, thriftgo, repo string
}

func newCompiler(dir, thriftgo, repo string) *compiler {
	os.MkdirAll(dir, 0o755)
	return &compiler{dir: dir, thriftgo: thriftgo, repo: repo}
}

// compiled is the result of one program (produced on a goroutine of its own: nothing shared is
// written; the counters are merged by the caller).
type compiled struct {
	cases    []*Case
	counters map[string]int
	log      string
}

type drvType struct {
	Kind     string `json:"kind"`
	Name     string `json:"name"`
	HasType  bool   `json:"has_go_type"`
	Own      bool   `json:"own_descriptor"`
	ByGoType bool   `json:"by_go_type"`
	Shared   bool   `json:"go_type_shared"`
	TypeDesc bool   `json:"type_descriptor"`
	Back     bool   `json:"go_type_back"`
	Fields   bool   `json:"fields_ok"`
	Note     string `json:"note,omitempty"`
}

type drvLookup struct {
	Kind  string     `json:"kind"`
	Name  string     `json:"name"`
	Found *[2]string `json:"found"`
}

type drvFile struct {
	Dump    *refldump.File `json:"dump"`
	GoPkg   string         `json:"go_pkg"`
	Types   []drvType      `json:"types"`
	Lookups []drvLookup    `json:"lookups"`
}

type drvOut struct {
	Files []drvFile `json:"files"`
	Panic bool      `json:"panic"`
	Msg   string    `json:"msg"`
}

func goEnv() []string {
	return append(os.Environ(), "GOFLAGS=-mod=mod", "GOPROXY=off", "GOSUMDB=off", "GOTOOLCHAIN=local")
}

func copyTree(src, dst string) error {
	return filepath.Walk(src, func(path string, info os.FileInfo, err error) error {
		if err != nil {
			return err
		}
		rel, _ := filepath.Rel(src, path)
		if info.IsDir() {
			return os.MkdirAll(filepath.Join(dst, rel), 0o755)
		}
		data, err := os.ReadFile(path)
		if err != nil {
			return err
		}
		return os.WriteFile(filepath.Join(dst, rel), data, 0o644)
	})
}

func (c *compiler) run(ctx *progCtx, key, root string) (res *compiled) {
	res = &compiled{counters: map[string]int{}}
	cnt := res.counters
	cnt["programs"]++
	mod := filepath.Join(c.dir, key)
	idl := filepath.Join(mod, "idl")
	if err := copyTree(root, idl); err != nil {
		fatal(err)
	}
	outDir := filepath.Join(mod, "gen", key)
	prefix := "drv/gen/" + key
	cmd := exec.Command(c.thriftgo, "-r", "-g", "go:with_reflection,package_prefix="+prefix, "-o", outDir, ctx.mainRel)
	cmd.Dir = idl
	cmd.Env = goEnv()
	if out, err := cmd.CombinedOutput(); err != nil {
		cnt["rejected_by_thriftgo"]++
		res.log = fmt.Sprintf("c15: %s: thriftgo: %v\n%s\n", ctx.name, err, tail(string(out), 600))
		return res
	}
	if _, err := os.Stat(outDir); err != nil {
		cnt["rejected_by_thriftgo"]++
		return res
	}
	// Go links (and initialises) only packages somebody imports: import every generated package,
	// also those of includes nothing refers to
	var imports []string
	filepath.Walk(outDir, func(path string, info os.FileInfo, err error) error {
		if err == nil && !info.IsDir() && strings.HasSuffix(path, ".go") {
			rel, _ := filepath.Rel(mod, filepath.Dir(path))
			imp := "drv/" + filepath.ToSlash(rel)
			for _, x := range imports {
				if x == imp {
					return nil
				}
			}
			imports = append(imports, imp)
		}
		return nil
	})
	src := "package main\n\nimport (\n"
	for _, imp := range imports {
		src += fmt.Sprintf("\t_ %q\n", imp)
	}
	src += ")\n"
	if err := os.WriteFile(filepath.Join(mod, "c15_imports.go"), []byte(src), 0o644); err != nil {
		fatal(err)
	}
	b := gendrv.New(mod, c.thriftgo, c.repo)
	b.Jobs = 2
	b.Units = []*gendrv.Unit{{Key: key}}
	if err := b.Build(); err != nil {
		// generated code that does not compile is property C01's subject
		cnt["generated_code_does_not_compile"]++
		res.log = fmt.Sprintf("c15: %s: %s\n", ctx.name, tail(err.Error(), 1500))
		return res
	}
	raw, err := b.Run([]gendrv.Cmd{{Verb: "c15_dump", Args: []string{key, prefix}}})
	if err != nil {
		// init() of a generated package panicked (BuildFileDescriptor): an observation
		cnt["driver_failed"]++
		cnt["panics"]++
		cs := &Case{Kind: "file", Via: "compiled", Program: ctx.name, File: ctx.main.Filename,
			coq: fmt.Sprintf("FileCase 1%%N %s None None true", cb(ctx.main.Filename)), Observed: tail(err.Error(), 1500)}
		res.cases = []*Case{cs}
		return res
	}
	var out drvOut
	if err := json.Unmarshal(raw[0], &out); err != nil {
		fatal("c15: driver output:", err)
	}
	if out.Panic {
		cnt["driver_panic"]++
		cnt["panics"]++
		cs := &Case{Kind: "file", Via: "compiled", Program: ctx.name, File: ctx.main.Filename,
			coq: fmt.Sprintf("FileCase 1%%N %s None None true", cb(ctx.main.Filename)), Observed: out.Msg}
		res.cases = []*Case{cs}
		return res
	}
	cnt["built"]++
	byName := map[string]*parser.Thrift{}
	for _, t := range ctx.all {
		byName[t.Filename] = t
	}
	var cases []*Case
	seen := map[string]bool{}
	for _, f := range out.Files {
		t := byName[f.Dump.Filepath]
		seen[f.Dump.Filepath] = true
		cnt["files"]++
		mk := func(kind, coq string, obs interface{}) *Case {
			cs := &Case{Kind: kind, Via: "compiled", Program: ctx.name, File: f.Dump.Filepath, coq: coq, Observed: obs}
			if t != nil {
				cs.DupBase = dupBasenames(t)
			}
			return cs
		}
		cases = append(cases, mk("file", fmt.Sprintf("FileCase 1%%N %s (Some %s) None true", cb(f.Dump.Filepath), f.Dump.Coq()), f.Dump))
		var qs []string
		for _, l := range f.Lookups {
			var fo *found
			if l.Found != nil {
				fo = &found{l.Found[0], l.Found[1]}
				cnt["lookups_found"]++
				if l.Found[0] != f.Dump.Filepath {
					cnt["lookups_found_in_another_file"]++
				}
			}
			cnt["lookups"]++
			qs = append(qs, fmt.Sprintf("(%s, %s, %s)", l.Kind, cb(l.Name), foundCoq(fo)))
		}
		if len(qs) > 0 {
			cases = append(cases, mk("lookup", fmt.Sprintf("LookupCase %s %s", cb(f.Dump.Filepath), coqfmt.List(qs)), f.Lookups))
		}
		for _, ty := range f.Types {
			cnt["types"]++
			if ty.Shared {
				cnt["typedefs_sharing_a_go_type"]++
			}
			// a typedef is a Go alias: two typedefs of one type are one Go type, which the
			// registry can map to one of them only (model: go_type_bijection's premise)
			by := ty.ByGoType || (ty.Kind == "typedef" && ty.Shared)
			cases = append(cases, mk("typemap", fmt.Sprintf("TypeMapCase %s %s %s %s %s %s", cb(f.Dump.Filepath+":"+ty.Kind+":"+ty.Name),
				coqfmt.Bool(ty.Own && ty.HasType), coqfmt.Bool(by), coqfmt.Bool(ty.Back), coqfmt.Bool(ty.TypeDesc), coqfmt.Bool(ty.Fields)), ty))
		}
	}
	// every file of the program must have registered itself
	for _, t := range ctx.all {
		if !seen[t.Filename] {
			cnt["file_not_registered"]++
			cases = append(cases, &Case{Kind: "file", Via: "compiled", Program: ctx.name, File: t.Filename, DupBase: dupBasenames(t),
				coq: fmt.Sprintf("FileCase 1%%N %s None None true", cb(t.Filename)), Observed: "the generated package did not register a descriptor for this file"})
		}
	}
	os.RemoveAll(mod)
	res.cases = cases
	return res
}

func tail(s string, n int) string {
	if len(s) > n {
		return s[len(s)-n:]
	}
	return s
}

var _ = strings.TrimSpace
