module verif/harness

go 1.18

require (
	github.com/apache/thrift v0.13.0
	github.com/cloudwego/gopkg v0.2.0
	github.com/cloudwego/thriftgo v0.0.0
	github.com/dlclark/regexp2 v1.11.0
)

require (
	github.com/bytedance/gopkg v0.1.4 // indirect
	golang.org/x/text v0.14.0 // indirect
	gopkg.in/yaml.v3 v3.0.1 // indirect
)

replace github.com/cloudwego/thriftgo => /repo
